"""C07 — graph scalars: honest approx flag, order and zero, lossy casts, representation invariant, operator consistency."""
import itertools

from .. import hir, rops, rencap, paths, ceval, minirust
from ..controls import fixture

DY = 'scalar::dyadic::Dyadic'
S4 = 'scalar::Scalar4'
ADD = '<scalar::dyadic::Dyadic as std::ops::Add>::add'
MUL = '<scalar::dyadic::Dyadic as std::ops::Mul>::mul'
CMP = '<scalar::dyadic::Dyadic as std::cmp::Ord>::cmp'


# ================================================================ D2: the order, decided over a finite abstraction

class Unk(Exception):
    pass


class _Ret(Exception):
    def __init__(self, v):
        self.v = v


ORD = {'Less': -1, 'Equal': 0, 'Greater': 1}


def _root_name(e, names):
    p = hir.place(hir.strip(e))
    if p and p[0] in names:
        return names[p[0]], p[2]
    return None


def abs_eval_cmp(f, case):
    """evaluate the body of Ord::cmp under an abstract case:
    case = {'sign': {'self': bool, 'other': bool}, 'zero': {...}, 'exp': -1/0/1 (self vs other), 'val': -1/0/1}"""
    names = {}
    ps = [p for p in f['params'] if p.get('k') == 'Bind']
    names[ps[0]['id']] = 'self'
    names[ps[1]['id']] = 'other'
    env = {}

    def field_cmp(a, b):
        ra, rb = _root_name(a, names), _root_name(b, names)
        if ra and rb and len(ra[1]) == 1 and ra[1] == rb[1] and ra[1][0][0] == 'f' and ra[1][0][1] in ('exp', 'val') and ra[0] != rb[0]:
            r = case[ra[1][0][1]]
            return r if ra[0] == 'self' else -r
        return None

    def ev(e):
        e0 = e
        e = hir.strip(e)
        k = e.get('k')
        b = hir.lit_bool(e)
        if b is not None:
            return b
        if k == 'Path':
            l = hir.local(e)
            if l and l[1] in env:
                return env[l[1]]
            p = hir.def_path(e) or ''
            if p.rsplit('::', 1)[-1] in ORD and 'Ordering' in p:
                return ORD[p.rsplit('::', 1)[-1]]
            raise Unk('path %s' % hir.pp(e))
        if k == 'Block':
            st = hir.stmts_of(e)
            for s in st[:-1]:
                if s.get('k') == 'Let' and s['pat'].get('k') == 'Bind' and s.get('init') is not None:
                    env[s['pat']['id']] = ev(s['init'])
                elif hir.strip(s).get('k') in ('If', 'Ret', 'Match', 'Block'):
                    ev(s)            # statement position: only its early returns matter
                else:
                    raise Unk('statement %s' % hir.pp(s)[:40])
            return ev(st[-1])
        if k == 'If':
            c = ev(e['cond'])
            if not isinstance(c, bool):
                raise Unk('condition %s' % hir.pp(e['cond'])[:40])
            if e.get('else') is None:
                return ev(e['then']) if c else None
            return ev(e['then'] if c else e['else'])
        if k == 'Match':
            v = ev(e['scrut'])
            for a in e['arms']:
                pt = a['pat']
                pk = pt.get('k')
                if a.get('guard') is not None:
                    raise Unk('match guard')
                if pk == 'Wild' or (pk == 'Bind' and pt.get('sub') is None):
                    if pk == 'Bind':
                        env[pt['id']] = v
                    return ev(a['body'])
                alts = pt['sub'] if pk == 'Or' else [pt]
                hit = False
                for q in alts:
                    qp = (q['res'].get('path') or '') if q.get('k') == 'Path' else None
                    if q.get('k') == 'Lit' and str(q.get('v')).startswith('Bool('):
                        hit = hit or str(q['v']).startswith('Bool(true') == v
                    elif qp and qp.rsplit('::', 1)[-1] in ORD and 'Ordering' in qp:
                        hit = hit or ORD[qp.rsplit('::', 1)[-1]] == v
                    else:
                        raise Unk('pattern %s' % hir.pp(q)[:40])
                if hit:
                    return ev(a['body'])
            raise Unk('no arm matched')
        if k == 'Unary' and e['op'] == 'Not':
            return not ev(e['e'])
        if k == 'Binary' and e['op'] in ('And', 'Or'):
            a = ev(e['l'])
            if e['op'] == 'And':
                return a and ev(e['r'])
            return a or ev(e['r'])
        if k == 'Binary' and e['op'] in ('Eq', 'Ne', 'Lt', 'Le', 'Gt', 'Ge'):
            r = field_cmp(e['l'], e['r'])
            if r is not None:
                return {'Eq': r == 0, 'Ne': r != 0, 'Lt': r < 0, 'Le': r <= 0, 'Gt': r > 0, 'Ge': r >= 0}[e['op']]
            # X.val == 0
            for x, y in ((e['l'], e['r']), (e['r'], e['l'])):
                rx = _root_name(x, names)
                if rx and rx[1] == [('f', 'val')] and hir.lit_int(y) == 0 and e['op'] in ('Eq', 'Ne'):
                    z = case['zero'][rx[0]]
                    return z if e['op'] == 'Eq' else not z
            a, b2 = ev(e['l']), ev(e['r'])
            if isinstance(a, bool) and isinstance(b2, bool) and e['op'] in ('Eq', 'Ne'):
                return (a == b2) if e['op'] == 'Eq' else (a != b2)
            raise Unk('comparison %s' % hir.pp(e)[:50])
        if k == 'MethodCall':
            n = e['name']
            c = hir.callee(e) or ''
            r = _root_name(e['recv'], names)
            if c == DY + '::sign' and r and not r[1]:
                return case['sign'][r[0]]
            if n == 'is_zero' and r and not r[1]:
                return case['zero'][r[0]]
            if n == 'cmp' and len(e['args']) == 1:
                fc = field_cmp(e['recv'], e['args'][0])
                if fc is not None:
                    return fc
            if n == 'reverse' and not e['args']:
                v = ev(e['recv'])
                if isinstance(v, int) and not isinstance(v, bool):
                    return -v
            if n in ('then', 'then_with') and len(e['args']) == 1:
                v = ev(e['recv'])
                if isinstance(v, int) and not isinstance(v, bool):
                    if v != 0:
                        return v
                    a = hir.strip(e['args'][0])
                    if n == 'then':
                        return ev(a)
                    if a.get('k') == 'Closure' and not a['params']:
                        return ev(a['body'])
            if n in ('is_lt', 'is_le', 'is_gt', 'is_ge', 'is_eq', 'is_ne') and not e['args']:
                v = ev(e['recv'])
                if isinstance(v, int) and not isinstance(v, bool):
                    return {'is_lt': v < 0, 'is_le': v <= 0, 'is_gt': v > 0, 'is_ge': v >= 0, 'is_eq': v == 0, 'is_ne': v != 0}[n]
            raise Unk('call %s' % hir.pp(e)[:50])
        if k == 'Ret':
            if e.get('e') is None:
                raise Unk('bare return')
            raise _Ret(ev(e['e']))
        raise Unk('%s' % k)
    try:
        r = ev(f['hir'])
    except _Ret as ex:
        r = ex.v
    if not isinstance(r, int) or isinstance(r, bool):
        raise Unk('result %r' % (r,))
    return r


def cmp_cases():
    cls = ('neg', 'zero', 'pos')
    for a, b in itertools.product(cls, cls):
        for er in (-1, 0, 1):
            for vr in (-1, 0, 1):
                # representation facts: zero has val 0 (and exp 0), non-zero values have val != 0
                if a == 'zero' and b == 'zero' and (er, vr) != (0, 0):
                    continue
                if a == 'zero' and b != 'zero' and vr != -1:
                    continue
                if b == 'zero' and a != 'zero' and vr != 1:
                    continue
                yield a, b, er, vr


def true_order(a, b, er, vr):
    rank = {'neg': -1, 'zero': 0, 'pos': 1}
    if rank[a] != rank[b]:
        return -1 if rank[a] < rank[b] else 1
    if a == 'zero':
        return 0
    mag = er if er != 0 else vr     # mantissas are normalised (top bit set): magnitude order is (exp, val) lexicographic
    return mag if a == 'pos' else -mag


def d2_order(f):
    res = []
    for a, b, er, vr in cmp_cases():
        case = {'sign': {'self': a == 'neg', 'other': b == 'neg'}, 'zero': {'self': a == 'zero', 'other': b == 'zero'}, 'exp': er, 'val': vr}
        want = true_order(a, b, er, vr)
        try:
            got = abs_eval_cmp(f, case)
            res.append(((a, b, er, vr), got == want, got, want, None))
        except Unk as ex:
            res.append(((a, b, er, vr), None, None, want, 'construct not understood by the abstract evaluator: %s' % ex))
    return res


# ================================================================ D1: approx flag

def lossy_shifts(facts, keys):
    """every right shift of a mantissa by a non-trailing-zeros amount is preceded by the lost-bit test that sets APPROX"""
    res = []
    for key in keys:
        f = facts['fns'][key]
        pm = hir.parent_map(f['hir'])
        for c in hir.calls(f['hir']):
            if not (c.get('k') == 'MethodCall' and c['name'] in ('wrapping_shr', 'checked_shr', 'overflowing_shr') and len(c['args']) == 1):
                continue
            recv, amt = c['recv'], c['args'][0]
            lit = hir.lit_int(amt)
            found = False
            # statements before the enclosing statement, in all enclosing blocks
            cur = c
            while id(cur) in pm and not found:
                par, slot = pm[id(cur)]
                if par.get('k') == 'Block' and slot in ('stmts', 'expr'):
                    st = par['stmts'] + ([par['expr']] if par['expr'] is not None else [])
                    idx = [i for i, s in enumerate(st) if s is cur]
                    for s in st[:idx[0]] if idx else []:
                        s0 = hir.strip(s)
                        if s0.get('k') != 'If':
                            continue
                        sets = any(n.get('k') == 'AssignOp' and n['op'] == 'BitOrAssign' and hir.strip(n['l']).get('k') == 'Field' and hir.strip(n['l'])['name'] == 'flags'
                                   and (hir.def_path(n['r']) or '').endswith('APPROX') for n in hir.nodes(s0['then']))
                        if not sets:
                            continue
                        for n in hir.nodes(s0['cond']):
                            if lit is None and n.get('k') == 'Binary' and n['op'] == 'Lt':
                                l = hir.strip(n['l'])
                                if l.get('k') == 'MethodCall' and l['name'] == 'trailing_zeros' and hir.same_expr(l['recv'], recv) and hir.same_expr(n['r'], amt):
                                    found = True
                            if lit is not None and n.get('k') == 'Binary' and n['op'] == 'Eq':
                                l = hir.strip(n['l'])
                                if l.get('k') == 'Binary' and l['op'] == 'BitAnd' and hir.same_expr(l['l'], recv) and hir.lit_int(l['r']) == (1 << lit) - 1 and hir.lit_int(n['r']) != 0:
                                    found = True
                cur = par
            # lossless idiom: shift by exactly trailing_zeros of the same place
            lossless = False
            al = hir.local(amt)
            if al:
                for n in hir.nodes(f['hir']):
                    if n.get('k') == 'Let' and n['pat'].get('k') == 'Bind' and n['pat']['id'] == al[1] and n.get('init') is not None:
                        i = hir.strip(n['init'])
                        if i.get('k') == 'MethodCall' and i['name'] == 'trailing_zeros' and hir.same_expr(i['recv'], recv):
                            lossless = True
            res.append((found or lossless, key, c, 'lossless' if lossless else ('guarded' if found else None)))
    return res


class Taint:
    """flags taint: which operands' APPROX bits the flags of `self` / `rhs` are known to include"""

    def __init__(self, f):
        ps = [p for p in f['params'] if p.get('k') == 'Bind']
        self.names = {ps[0]['id']: 'self', ps[1]['id']: 'rhs'}

    def who(self, e):
        p = hir.place(hir.strip(e))
        if p and p[0] in self.names:
            return self.names[p[0]], p[2]
        return None

    def expr_taint(self, e, st):
        """sources whose APPROX bit is included in the value of expression e (an u8 flags expression)"""
        e = hir.strip(e)
        k = e.get('k')
        w = self.who(e)
        if w and w[1] == [('f', 'flags')]:
            return set(st[w[0]])
        if k == 'Binary' and e['op'] == 'BitOr':
            return self.expr_taint(e['l'], st) | self.expr_taint(e['r'], st)
        if k == 'Binary' and e['op'] == 'BitAnd':
            # masking with APPROX keeps the bit; masking with another constant is conservatively dropping it
            for x, y in ((e['l'], e['r']), (e['r'], e['l'])):
                p = hir.def_path(y) or ''
                if p.endswith('::APPROX') or p.endswith('SIGN_OFF'):
                    return self.expr_taint(x, st)
            return set()
        if k == 'Binary' and e['op'] == 'BitXor':
            # x ^ (y & SIGN): the approx bit of x is kept when the other side cannot contain APPROX
            l, r = hir.strip(e['l']), hir.strip(e['r'])
            for x, y in ((l, r), (r, l)):
                if y.get('k') == 'Binary' and y['op'] == 'BitAnd' and any((hir.def_path(z) or '').endswith('::SIGN') for z in (y['l'], y['r'])):
                    return self.expr_taint(x, st)
                if (hir.def_path(y) or '').endswith('::SIGN'):
                    return self.expr_taint(x, st)
            return set()
        if k == 'Block' and len(hir.stmts_of(e)) == 1:
            return self.expr_taint(hir.stmts_of(e)[0], st)
        return set()

    def step(self, n, st):
        """apply an assignment to X.flags"""
        w = self.who(n['l'])
        if not (w and w[1] == [('f', 'flags')]):
            return
        tgt = w[0]
        if n['k'] == 'Assign':
            st[tgt] = self.expr_taint(n['r'], st)
        elif n['op'] == 'BitOrAssign':
            st[tgt] = st[tgt] | self.expr_taint(n['r'], st)
        elif n['op'] == 'BitXorAssign':
            r = hir.strip(n['r'])
            keeps = (hir.def_path(r) or '').endswith('::SIGN') or (r.get('k') == 'Binary' and r['op'] == 'BitAnd' and any((hir.def_path(z) or '').endswith('::SIGN') for z in (r['l'], r['r'])))
            if not keeps:
                st[tgt] = set()
        elif n['op'] == 'BitAndAssign':
            p = hir.def_path(n['r']) or ''
            if not p.endswith('SIGN_OFF'):
                st[tgt] = set()
        else:
            st[tgt] = set()


def d1_taint(f, exempt_zero_shortcut):
    """on every return path the result's flags include the APPROX bit of both operands"""
    t = Taint(f)

    def is_ev(n):
        if n.get('k') in ('Assign', 'AssignOp'):
            w = t.who(n['l'])
            return bool(w and w[1] == [('f', 'flags')])
        return False
    res = []
    for p in paths.effect_paths(hir.stmts_of(f['hir']), is_ev):
        if p.end == 'diverge':
            continue
        st = {'self': {'self'}, 'rhs': {'rhs'}}
        for e in p.events:
            if isinstance(e, tuple):
                st = {'self': set(), 'rhs': set()}
                continue
            t.step(e, st)
        r = p.ret
        w = t.who(r) if isinstance(r, dict) else None
        if not w or w[1]:
            res.append((False, p, 'returned value is not one of the operands (not-established-by-recognised-idiom)', None))
            continue
        have = st[w[0]]
        missing = {'self', 'rhs'} - have
        if missing and exempt_zero_shortcut:
            # product shortcut: returning X under the condition "X is zero" — an exact zero times anything is exactly zero,
            # an approximate zero keeps its own flag
            for c in p.conds:
                if c[0] == 'cond' and c[2]:
                    ce = hir.strip(c[1])
                    if ce.get('k') == 'MethodCall' and ce['name'] == 'is_zero' and t.who(ce['recv']) and t.who(ce['recv'])[0] == w[0]:
                        missing = set()
                    if ce.get('k') == 'Binary' and ce['op'] == 'Eq' and hir.lit_int(ce['r']) == 0 and t.who(ce['l']) and t.who(ce['l']) == (w[0], [('f', 'val')]):
                        missing = set()
        res.append((not missing, p, 'the result `%s` can lose the approx flag of %s on the path [%s]' % (w[0], sorted(missing), ', '.join(p.cond_texts())), sorted(have)))
    return res


# ================================================================ D2b: exponent comparisons are guarded by zero tests

def exp_comparisons(f):
    ps = [p for p in f['params'] if p.get('k') == 'Bind']
    if len(ps) != 2:
        return []
    names = {ps[0]['id']: 'a', ps[1]['id']: 'b'}
    pm = hir.parent_map(f['hir'])
    out = []
    for n in hir.nodes(f['hir']):
        pair = None
        if n.get('k') == 'Binary' and n['op'] in ('Eq', 'Ne', 'Lt', 'Le', 'Gt', 'Ge'):
            pair = (n['l'], n['r'])
        elif n.get('k') == 'MethodCall' and n['name'] in ('cmp', 'partial_cmp', 'max', 'min') and len(n['args']) == 1:
            pair = (n['recv'], n['args'][0])
        if not pair:
            continue
        ra, rb = _root_name(pair[0], names), _root_name(pair[1], names)
        if not (ra and rb and ra[1] == [('f', 'exp')] and rb[1] == [('f', 'exp')] and ra[0] != rb[0]):
            continue
        conds = paths.dominating_conds(n, pm)
        nz = set()
        for c in conds:
            if c[0] != 'cond':
                continue
            e, pol = hir.strip(c[1]), c[2]
            if e.get('k') == 'Binary' and e['op'] in ('Eq', 'Ne') and hir.lit_int(e['r']) == 0:
                r = _root_name(e['l'], names)
                if r and r[1] == [('f', 'val')] and ((e['op'] == 'Eq' and not pol) or (e['op'] == 'Ne' and pol)):
                    nz.add(r[0])
            if e.get('k') == 'MethodCall' and e['name'] == 'is_zero' and not pol:
                r = _root_name(e['recv'], names)
                if r and not r[1]:
                    nz.add(r[0])
        out.append((nz == {'a', 'b'}, n, sorted(nz)))
    return out


# ================================================================ D3: casts on the conversion path

def conv_keys(facts):
    return {'f64': hir.impl_method(facts, 'std::convert::TryFrom<scalar::dyadic::Dyadic>', 'f64', 'try_from'),
            'by-ref': hir.impl_method(facts, 'std::convert::TryFrom<&scalar::Scalar4>', 'num::Complex<f64>', 'try_from'),
            'by-value': hir.impl_method(facts, 'std::convert::TryFrom<scalar::Scalar4>', 'num::Complex<f64>', 'try_from')}


def d3_casts(facts, roots):
    res = []
    reach = hir.reachable(facts, [r for r in roots if r in facts['fns']])
    for key in sorted(reach):
        f = facts['fns'][key]
        if not f['file'].endswith(('scalar.rs', 'dyadic.rs')):
            continue
        for n in hir.nodes(f['hir']):
            if n.get('k') == 'Cast' and n.get('from') == 'u64' and n.get('ty') == 'i64' and not hir.from_macro(n):
                inner = hir.strip(n['e'])
                ok = inner.get('k') == 'MethodCall' and inner['name'] in ('wrapping_shr',) and (hir.lit_int(inner['args'][0]) or 0) >= 1
                res.append((ok, key, n))
    return res, len(reach)


# ================================================================ D4: representation invariant

def d4_literals(facts):
    res = []
    for key, node in rencap.constructions(facts, DY):
        f = facts['fns'][key]
        if f.get('macro'):
            continue
        flds = dict((n, e) for n, e in node['fields'])
        allzero = all(hir.lit_int(flds.get(x)) == 0 for x in ('flags', 'exp', 'val'))
        norm = bool(hir.calls_to(f['hir'], DY + '::normalize'))
        in_mod = f['file'].endswith('dyadic.rs')
        res.append((in_mod and (allzero or norm), key, node, 'all-zero literal' if allzero else ('normalised' if norm else None)))
    return res


# ================================================================ D5: tables

def conj_descriptor(f):
    """[(sign, source index)] of the array literal returned by conj"""
    arr = [n for n in hir.nodes(f['hir']) if n.get('k') == 'Array']
    if len(arr) != 1 or len(arr[0]['items']) != 4:
        return None
    out = []
    for it in arr[0]['items']:
        it = hir.strip(it)
        sign = 1
        if it.get('k') == 'Unary' and it['op'] == 'Neg':
            sign = -1
            it = hir.strip(it['e'])
        if it.get('k') == 'Index' and hir.lit_int(it['i']) is not None:
            out.append((sign, hir.lit_int(it['i'])))
        else:
            return None
    return out


def mul_table(f):
    """(i, j) -> (target index, sign) of the Z[omega] product, by partial evaluation of the two constant loops"""
    ps = [p for p in f['params'] if p.get('k') == 'Bind']
    names = {ps[0]['id']: 'self', ps[1]['id']: 'rhs'}
    table = {}
    problems = []

    def idx_of(e, env, want):
        e = hir.strip(e)
        if e.get('k') == 'Index':
            base = hir.place(hir.strip(e['e']))
            if base and names.get(base[0]) == want and base[2] == [('f', '0')]:
                return ceval.ival(e['i'], env)
        return None

    def on_stmt(s, env):
        s0 = hir.strip(s)
        if s0.get('k') == 'If':
            # the only non-constant condition allowed: skipping zero coefficients of self (`!self.0[i].is_zero()`)
            c = hir.strip(s0['cond'])
            inner = hir.strip(c['e']) if c.get('k') == 'Unary' and c['op'] == 'Not' else None
            if inner is not None and inner.get('k') == 'MethodCall' and inner['name'] == 'is_zero' and not s0.get('else'):
                ceval.run_block(hir.stmts_of(s0['then']), env, on_stmt)
                return
            problems.append('condition not understood: %s' % hir.pp(c)[:50])
            return
        if s0.get('k') == 'AssignOp' and s0['op'] == 'AddAssign':
            tgt = hir.strip(s0['l'])
            if tgt.get('k') == 'Index':
                try:
                    pos = ceval.ival(tgt['i'], env)
                except ceval.NotConst as ex:
                    problems.append(str(ex))
                    return
                r = hir.strip(s0['r'])
                sign = 1
                if r.get('k') == 'Binary' and r['op'] == 'Mul':
                    l, rr = hir.strip(r['l']), hir.strip(r['r'])
                    if l.get('k') == 'Unary' and l['op'] == 'Neg':
                        sign = -sign
                        l = hir.strip(l['e'])
                    if rr.get('k') == 'Unary' and rr['op'] == 'Neg':
                        sign = -sign
                        rr = hir.strip(rr['e'])
                    try:
                        i, j = idx_of(l, env, 'self'), idx_of(rr, env, 'rhs')
                    except ceval.NotConst as ex:
                        problems.append(str(ex))
                        return
                    if i is not None and j is not None:
                        if (i, j) in table:
                            problems.append('term (%d,%d) accumulated twice' % (i, j))
                        table[(i, j)] = (pos, sign)
                        return
                elif r.get('k') == 'Unary' and r['op'] == 'Neg':
                    pass
                problems.append('accumulation not understood: %s' % hir.pp(s0)[:60])
            return
        if s0.get('k') in ('Let',) or hir.local(s0):
            return
        problems.append('statement not understood: %s' % hir.pp(s0)[:50])
    ceval.run_block(hir.stmts_of(f['hir']), {}, on_stmt)
    return table, problems


class Sym(minirust.Obj):
    """an integer polynomial in commuting symbols: the coefficients of the two operands of the Z[omega] product"""

    def __init__(self, terms=None):
        self.terms = dict((m, c) for m, c in (terms or {}).items() if c)
        minirust.Obj.__init__(self, 'Dyadic', {'is_zero': lambda a: not self.terms, 'approx': lambda a: False, 'clone': lambda a: self, 'copied': lambda a: self, 'cloned': lambda a: self,
                                               'neg': lambda a: -self, 'add': lambda a: self + a[0], 'mul': lambda a: self * a[0], 'sub': lambda a: self - a[0]})

    @staticmethod
    def var(name):
        return Sym({(name,): 1})

    @staticmethod
    def lift(x):
        if isinstance(x, Sym):
            return x
        if isinstance(x, int) and not isinstance(x, bool):
            return Sym({(): x})
        raise TypeError('Sym with %r' % (x,))

    def __add__(self, o):
        o = Sym.lift(o)
        t = dict(self.terms)
        for m, c in o.terms.items():
            t[m] = t.get(m, 0) + c
        return Sym(t)
    __radd__ = __add__

    def __neg__(self):
        return Sym(dict((m, -c) for m, c in self.terms.items()))

    def __sub__(self, o):
        return self + (-Sym.lift(o))

    def __mul__(self, o):
        o = Sym.lift(o)
        t = {}
        for m1, c1 in self.terms.items():
            for m2, c2 in o.terms.items():
                m = tuple(sorted(m1 + m2))
                t[m] = t.get(m, 0) + c1 * c2
        return Sym(t)
    __rmul__ = __mul__

    def __eq__(self, o):
        try:
            return self.terms == Sym.lift(o).terms
        except TypeError:
            return False

    def __ne__(self, o):
        return not self == o
    __hash__ = None

    def __repr__(self):
        return ' + '.join('%d*%s' % (c, '.'.join(m) or '1') for m, c in sorted(self.terms.items())) or '0'


def mul_semantics(f):
    """Evaluate the reference Z[omega] product on symbolic coefficients (a0..a3) x (b0..b3), for every pattern of vanishing coefficients.
    returns (table, zero_ok, err): table (i, j) -> [(index, coefficient)] from the generic run; zero_ok False when a run with some
    coefficients zero differs from the generic result specialised to it; err = reason the evaluation could not be carried out."""
    ps = [p for p in f['params'] if p.get('k') == 'Bind']
    if len(ps) != 2:
        return None, None, 'two operands expected'
    host = {}
    for c in hir.calls(f['hir']):
        cal = hir.callee(c) or ''
        if c.get('k') == 'Call' and cal.endswith('::zero') and not c['args']:
            t = (c.get('ty') or '').replace('&', '').strip()
            if t.endswith('Scalar4'):
                host[cal] = lambda a: [[Sym(), Sym(), Sym(), Sym()]]
            elif t.endswith('Dyadic'):
                host[cal] = lambda a: Sym()

    def run(za, zb):
        it = minirust.Interp(fuel=20000)
        it.host_fns = host
        A = [[Sym() if i in za else Sym.var('a%d' % i) for i in range(4)]]
        B = [[Sym() if j in zb else Sym.var('b%d' % j) for j in range(4)]]
        env = {ps[0]['id']: A, ps[1]['id']: B}
        try:
            r = it.ev(f['hir'], env)
        except minirust._Return as ex:
            r = ex.v
        if isinstance(r, tuple) and len(r) == 3 and r[0] == 'ctor':
            r = list(r[2])
        if not (isinstance(r, list) and len(r) == 1 and isinstance(r[0], list) and len(r[0]) == 4):
            raise minirust.NoEval('result is not a coefficient array: %r' % (r,))
        return [Sym.lift(x) for x in r[0]]
    try:
        gen = run((), ())
        table = {}
        for k, poly in enumerate(gen):
            for m, c in poly.terms.items():
                if len(m) == 2 and m[0][0] == 'a' and m[1][0] == 'b':
                    table.setdefault((int(m[0][1]), int(m[1][1])), []).append((k, c))
                else:
                    table.setdefault(('other', m), []).append((k, c))
        zero_ok = True
        bad = None
        for za in itertools.chain.from_iterable(itertools.combinations(range(4), n) for n in range(5)):
            for zb in itertools.chain.from_iterable(itertools.combinations(range(4), n) for n in range(5)):
                if not za and not zb:
                    continue
                got = run(za, zb)
                dead = set('a%d' % i for i in za) | set('b%d' % j for j in zb)
                want = [Sym(dict((m, c) for m, c in p_.terms.items() if not (set(m) & dead))) for p_ in gen]
                if got != want and zero_ok:
                    zero_ok, bad = False, (za, zb)
        return table, (zero_ok, bad), None
    except (minirust.NoEval, minirust.Proceed, TypeError, KeyError, IndexError) as ex:
        return None, None, '%s: %s' % (type(ex).__name__, ex)


# ---------------------------------------------------------------- Dyadic arithmetic evaluated on a boundary-rich finite domain (round 2)

def _dy(val, exp, neg=False, approx=False):
    return {'__struct__': DY, 'flags': (1 if neg else 0) | (2 if approx else 0), 'exp': exp, 'val': val}


def _dy_value(d):
    from fractions import Fraction as Fr
    return (-1 if d['flags'] & 1 else 1) * Fr(d['val']) * Fr(2) ** d['exp']


def _dy_call(facts, key, args):
    it = minirust.Interp(fuel=100000, facts=facts, inline=lambda c: 'scalar::dyadic' in c)
    it.copy_types = {DY}
    return it.local_call(key, args)


def _dy_wellformed(d):
    if not (isinstance(d, dict) and d.get('__struct__') == DY and all(isinstance(d.get(k), int) for k in ('flags', 'exp', 'val'))):
        raise minirust.NoEval('not a Dyadic: %r' % (d,))
    if d['val'] == 0:
        return d['exp'] == 0 and not (d['flags'] & 1)
    return (1 << 63) <= d['val'] < (1 << 64) and 0 <= d['flags'] < 4


def dyadic_domain():
    """normalised mantissas at the boundaries (one bit, lowest bit set, all bits set, a middle bit, top two bits) at exponents whose differences
    cover no shift, small shifts, 63, 64 and more than 64 bits; both signs; zero"""
    vals = (1 << 63, (1 << 63) | 1, (1 << 64) - 1, (1 << 63) | (1 << 31), (3 << 62))
    exps = (-70, -64, -63, -1, 0, 2)
    out = [_dy(0, 0)]
    for v in vals:
        for e in exps:
            for neg in (False, True):
                out.append(_dy(v, e, neg))
    return out


def ev_dyadic(facts):
    """Add / Sub / Mul / Neg / cmp on every pair of the domain, against exact rational arithmetic.  -> ({clause: (ok, counterexample)}, evaluations)"""
    from fractions import Fraction as Fr
    ADDK, MULK = '<%s as std::ops::Add>::add' % DY, '<%s as std::ops::Mul>::mul' % DY
    SUBK, NEGK, CMPK = '<%s as std::ops::Sub>::sub' % DY, '<%s as std::ops::Neg>::neg' % DY, '<%s as std::cmp::Ord>::cmp' % DY
    res = dict((k, [True, '']) for k in ('exact-unless-flagged', 'representation', 'taint', 'error-bound', 'order', 'neg', 'operands-untouched'))
    n = 0

    def fail(k, msg):
        if res[k][0]:
            res[k] = [False, msg]

    def show(d):
        return '%s%d*2^%d%s' % ('-' if d['flags'] & 1 else '', d['val'], d['exp'], '~' if d['flags'] & 2 else '')
    dom = dyadic_domain()
    for a in dom:
        na = _dy_call(facts, NEGK, [dict(a)])
        n += 1
        if not _dy_wellformed(na) or _dy_value(na) != -_dy_value(a) or (na['flags'] & 2):
            fail('neg', '-(%s) = %s' % (show(a), show(na)))
        for b in dom:
            a0, b0 = dict(a), dict(b)
            for key, name, exact in ((ADDK, '+', _dy_value(a) + _dy_value(b)), (SUBK, '-', _dy_value(a) - _dy_value(b)), (MULK, '*', _dy_value(a) * _dy_value(b))):
                r = _dy_call(facts, key, [a0, b0])
                n += 1
                if a0 != a or b0 != b:
                    fail('operands-untouched', '%s %s %s modifies an operand' % (show(a), name, show(b)))
                if not _dy_wellformed(r):
                    fail('representation', '%s %s %s = %s is not normalised (a non-zero mantissa has its top bit set, zero has exponent 0 and no sign)' % (show(a), name, show(b), show(r)))
                    continue
                got = _dy_value(r)
                if not (r['flags'] & 2) and got != exact:
                    fail('exact-unless-flagged', '%s %s %s = %s is not flagged approximate but the exact result is %s' % (show(a), name, show(b), show(r), exact))
                if got != exact:
                    # truncation may lose less than one unit of the larger operand's last place (sums) / of the result's last place (products)
                    if name == '*':
                        bound = abs(exact) / (1 << 62)
                    else:
                        bound = Fr(2) ** (max(a['exp'] if a['val'] else -10 ** 6, b['exp'] if b['val'] else -10 ** 6) + 2)
                    if abs(got - exact) > bound:
                        fail('error-bound', '%s %s %s = %s is off by %s (more than the truncation can explain)' % (show(a), name, show(b), show(r), float(abs(got - exact))))
            o = _dy_call(facts, CMPK, [dict(a), dict(b)])
            n += 1
            va, vb = _dy_value(a), _dy_value(b)
            want = 'Less' if va < vb else 'Greater' if va > vb else 'Equal'
            if not (isinstance(o, tuple) and str(o[1]).rsplit('::', 1)[-1] == want):
                fail('order', 'cmp(%s, %s) = %s, the reals say %s' % (show(a), show(b), o[1].rsplit('::', 1)[-1] if isinstance(o, tuple) else o, want))
    # From<f64>: always flagged approximate, denotes exactly the float, normalised
    FK = '<%s as std::convert::From<f64>>::from' % DY
    res['from-f64'] = [True, '']
    for x in (0.0, -0.0, 1.0, -2.5, 0.001, 3.0e10, -7.0 / 3.0, 2.0 ** -40, -(2.0 ** -1000), 1.7976931348623157e308):
        r = _dy_call(facts, FK, [x])
        n += 1
        if not _dy_wellformed(r) or not (r['flags'] & 2) or _dy_value(r) != Fr(x):
            fail('from-f64', 'Dyadic::from(%r) = %s (must denote the float exactly, be normalised — zero has one representation, without a sign — and be flagged approximate)' % (x, show(r)))
    # conversion to f64: every dyadic whose value is an ordinary float (well inside the range: 2^-950 .. 2^950) converts, to the nearest float
    TFK = 'scalar::dyadic::<impl std::convert::TryFrom<%s> for f64>::try_from' % DY
    res['to-f64'] = [True, '']
    if TFK in facts['fns']:
        for v_, e_ in ((1, 0), (-3, 5), (1, -40), (5, -300), (-7, 300), (1, -900), (3, 900), (1, -244), (1, 371), (12345, -700), ((1 << 62) + 1, -62), (0, 0)):
            d_ = _dy_call(facts, DY + '::new', [v_, e_])
            r = _dy_call(facts, TFK, [d_])
            n += 1
            want_ = float(Fr(v_) * Fr(2) ** e_)
            if not (isinstance(r, tuple) and r[0] == 'Ok' and isinstance(r[1], float) and abs(r[1] - want_) <= 1e-15 * abs(want_)):
                fail('to-f64', 'f64::try_from(%d * 2^%d) = %r, the value is the ordinary float %r' % (v_, e_, r, want_))
    # zero has one representation however it arises: a signed zero would order below zero and differ from it
    z0 = _dy_call(facts, FK, [0.0])
    for zx in (_dy_call(facts, FK, [-0.0]), _dy_call(facts, MULK, [_dy_call(facts, DY + '::new', [-3, 2]), _dy_call(facts, DY + '::new', [0, 0])]),
               _dy_call(facts, ADDK, [_dy_call(facts, DY + '::new', [-5, 1]), _dy_call(facts, DY + '::new', [5, 1])]), _dy_call(facts, '<%s as std::ops::Neg>::neg' % DY, [_dy_call(facts, DY + '::new', [0, 0])])):
        n += 2
        o = _dy_call(facts, CMP, [zx, z0])
        if not _dy_wellformed(zx) or not (isinstance(o, tuple) and str(o[1]).endswith('Equal')):
            fail('order', 'a zero that arises as -0.0, (-12) * 0, (-10) + 10 or -(0) is represented as %s and compares %s with zero' % (show(zx), o[1].rsplit('::', 1)[-1] if isinstance(o, tuple) else o))
    # taint: an approximate operand makes the result approximate (a product with an exact zero is exactly zero)
    reps = [d for d in dom if d['exp'] in (0, -64)][:9] + [dom[0]]
    for a in reps:
        for b in dom[::3]:
            for key, name in ((ADDK, '+'), (SUBK, '-'), (MULK, '*')):
                for xa, xb in ((True, False), (False, True), (True, True)):
                    a1, b1 = dict(a), dict(b)
                    a1['flags'] |= 2 if xa else 0
                    b1['flags'] |= 2 if xb else 0
                    r = _dy_call(facts, key, [a1, b1])
                    n += 1
                    exact_zero_factor = name == '*' and ((not xa and a['val'] == 0) or (not xb and b['val'] == 0))
                    if not (r['flags'] & 2) and not exact_zero_factor:
                        fail('taint', '%s %s %s = %s is not flagged approximate although an operand is' % (show(a1), name, show(b1), show(r)))
    return dict((k, tuple(v)) for k, v in res.items()), n


# ---------------------------------------------------------------- Scalar4 as the ring Z[omega][1/2], evaluated on a finite domain (round 2)

def _s4_interp(facts):
    from .. import circsem as cs
    it = cs.interp(facts, 600000)
    it.inline = lambda c: c.startswith(('scalar::', '<scalar::', '<&scalar::', 'scalar_traits::'))
    it.copy_types = {DY, S4}
    base = it.host_call

    def hc(c, e, args):
        t = (e.get('ty') or '')
        if c.rsplit('::', 1)[-1] in ('from', 'into') and len(e['args']) == 1 and t == DY:
            a = args()
            if isinstance(a[0], int) and not isinstance(a[0], bool):
                return it.local_call(DY + '::new', [a[0], 0])
            if isinstance(a[0], float):
                return it.local_call('<%s as std::convert::From<f64>>::from' % DY, [a[0]])
        if c == 'num::Complex::<T>::new' and len(e['args']) == 2:
            a = args()
            return {'__struct__': 'num::Complex', 're': a[0], 'im': a[1]}
        return base(c, e, args)
    it.host_call = hc
    hm0 = it.host_method

    def hm(callee, nm, recv, args):
        from .. import circsem as cs2
        if isinstance(recv, cs2.Ph) and nm in ('numer', 'denom'):
            return recv.v.numerator if nm == 'numer' else recv.v.denominator
        if isinstance(recv, cs2.Ph) and nm == 'to_f64':
            return minirust.some(float(recv.v))
        if nm == 'rem_euclid' and isinstance(recv, int) and not isinstance(recv, bool):
            a = args()
            return recv % a[0]
        return hm0(callee, nm, recv, args)
    it.host_method = hm
    return it


def _s4_call(facts, key, args):
    return _s4_interp(facts).local_call(key, args)


def _s4_value(s):
    if not (isinstance(s, dict) and s.get('__struct__') == S4 and isinstance(s.get('0'), list) and len(s['0']) == 4):
        raise minirust.NoEval('not a Scalar4: %r' % (s,))
    for d in s['0']:
        if not _dy_wellformed(d):
            raise minirust.NoEval('coefficient not normalised: %r' % (d,))
    return tuple(_dy_value(d) for d in s['0'])


def _s4_mul(a, b):
    out = [0, 0, 0, 0]
    for i in range(4):
        for j in range(4):
            k = (i + j) % 8
            if k < 4:
                out[k] += a[i] * b[j]
            else:
                out[k - 4] -= a[i] * b[j]
    return tuple(out)


def _s4_sqrt2_pow(p):
    from fractions import Fraction as Fr
    if p % 2 == 0:
        return (Fr(2) ** (p // 2), 0, 0, 0)
    h = Fr(2) ** ((p - 1) // 2)
    return (0, h, 0, -h)


def _s4_omega_pow(k):
    k %= 8
    out = [0, 0, 0, 0]
    out[k % 4] = 1 if k < 4 else -1
    return tuple(out)


def ev_scalar4(facts):
    """Scalar4 against the exact ring Z[omega][1/2] on a domain of small scalars: the reference operator impls, conj, zero / one tests, sqrt2 powers,
    phases k*pi/4 and the exact phase-and-sqrt2-power recognition.  -> ({clause: (ok, counterexample)}, evaluations)"""
    from fractions import Fraction as Fr
    from .. import circsem as cs
    res = dict((k, [True, '']) for k in ('add', 'sub', 'mul', 'conj', 'zero-one-tests', 'sqrt2-pow', 'from-phase', 'exact-phase-and-sqrt2-pow', 'exact-stays-exact'))
    n = 0

    def fail(k, msg):
        if res[k][0]:
            res[k] = [False, msg]

    def mk(coeffs):
        return {'__struct__': S4, '0': [_dy_call(facts, DY + '::new', [v, e]) for v, e in coeffs]}
    dom_c = [[(0, 0)] * 4, [(1, 0), (0, 0), (0, 0), (0, 0)], [(-1, 0), (0, 0), (0, 0), (0, 0)], [(0, 0), (1, 0), (0, 0), (0, 0)], [(0, 0), (0, 0), (1, 0), (0, 0)],
             [(0, 0), (0, 0), (0, 0), (-1, 0)], [(1, 0), (1, 0), (0, 0), (0, 0)], [(1, 0), (0, 0), (1, 0), (0, 0)], [(0, 0), (1, 0), (0, 0), (-1, 0)], [(1, -1), (0, 0), (0, 0), (0, 0)],
             [(3, 0), (0, 0), (-1, 0), (0, 0)], [(1, -2), (1, -2), (1, -2), (1, -2)], [(5, -3), (-3, 1), (0, 0), (7, 0)], [(0, 0), (1, 2), (0, 0), (1, 2)]]
    dom = [mk(c) for c in dom_c]
    vals = [_s4_value(s) for s in dom]

    def show(v):
        return '(%s)' % ', '.join(str(x) for x in v)
    keys = {'add': '<&%s as std::ops::Add<&%s>>::add' % (S4, S4), 'sub': '<&%s as std::ops::Sub<&%s>>::sub' % (S4, S4), 'mul': '<&%s as std::ops::Mul<&%s>>::mul' % (S4, S4)}
    for a, va in zip(dom, vals):
        r = _s4_call(facts, S4 + '::conj', [a])
        n += 1
        if _s4_value(r) != (va[0], -va[3], -va[2], -va[1]):
            fail('conj', 'conj%s = %s' % (show(va), show(_s4_value(r))))
        z = _s4_call(facts, '<%s as num::Zero>::is_zero' % S4, [a])
        o = _s4_call(facts, '<%s as num::One>::is_one' % S4, [a])
        n += 2
        if z != (va == (0, 0, 0, 0)) or o != (va == (1, 0, 0, 0)):
            fail('zero-one-tests', 'is_zero%s = %s, is_one = %s' % (show(va), z, o))
        for b, vb in zip(dom, vals):
            for name, key in keys.items():
                if key not in facts['fns']:
                    raise minirust.NoEval('no reference impl %s' % key)
                r = _s4_call(facts, key, [a, b])
                n += 1
                want = tuple(x + y for x, y in zip(va, vb)) if name == 'add' else tuple(x - y for x, y in zip(va, vb)) if name == 'sub' else _s4_mul(va, vb)
                got = _s4_value(r)
                if got != want:
                    fail(name, '%s %s %s = %s, exactly %s' % (show(va), {'add': '+', 'sub': '-', 'mul': '*'}[name], show(vb), show(got), show(want)))
                if any(d['flags'] & 2 for d in r['0']):
                    fail('exact-stays-exact', '%s %s %s of exact scalars with small coefficients is flagged approximate' % (show(va), name, show(vb)))
    # the approximation flag through the ring operations: a coefficient that is flagged approximate — an approximate ZERO included: (2^70 + 1) - 2^70 is
    # stored as 0 with the flag, its true value is 1 — taints every result coefficient it contributes to, unless its partner is an exact zero
    res['taint'] = [True, '']
    tdom = [0, 1, 6, 8, 10, 12]
    for ia in tdom:
        for ib in tdom:
            for fl_side in (0, 1):
                for fi in range(4):
                    a, b = minirust.deep_clone(dom[ia]), minirust.deep_clone(dom[ib])
                    (a if fl_side == 0 else b)['0'][fi]['flags'] |= 2
                    va, vb = vals[ia], vals[ib]
                    for name, key in keys.items():
                        r = _s4_call(facts, key, [minirust.deep_clone(a), minirust.deep_clone(b)])
                        n += 1
                        for k_ in range(4):
                            if name in ('add', 'sub'):
                                must = k_ == fi
                            else:
                                other = vb if fl_side == 0 else va
                                must = other[(k_ - fi) % 4] != 0
                            if must and not (r['0'][k_]['flags'] & 2):
                                fail('taint', '%s %s %s with coefficient %d of the %s operand flagged approximate (stored value %s): coefficient %d of the result (%s) is not flagged although it depends on it'
                                     % (show(va), {'add': '+', 'sub': '-', 'mul': '*'}[name], show(vb), fi, 'left' if fl_side == 0 else 'right', (va if fl_side == 0 else vb)[fi], k_, _dy_value(r['0'][k_])))
    # zero / one tests where a floating-point view of the value would mislead or fail: next to one, far outside the range of f64, sqrt2 powers with
    # large exponents (the scalars of large simplified circuits) — the tests are about the exact value
    from fractions import Fraction as _Fr
    far = [[((1 << 60) + 1, -60), (0, 0), (0, 0), (0, 0)], [((1 << 60) - 1, -60), (0, 0), (0, 0), (0, 0)], [(1, 0), (1, -1200), (0, 0), (0, 0)], [(1, 0), (0, 0), (0, 0), (-1, -70)],
           [(1, -1200), (0, 0), (0, 0), (0, 0)], [(0, 0), (0, 0), (1, -1100), (0, 0)], [(1, 1100), (0, 0), (0, 0), (0, 0)], [(0, 0), (1, 1500), (0, 0), (-1, 1500)], [(1, -2000), (0, 0), (0, 0), (0, 0)],
           [(1, 0), (0, 0), (0, 0), (0, 0)], [(0, 0), (0, 0), (0, 0), (0, 0)]]
    for c in far:
        a = mk(c)
        va = tuple(_Fr(v) * _Fr(2) ** e_ for v, e_ in c)
        for nm_, key_, want_ in (('is_zero', '<%s as num::Zero>::is_zero' % S4, not any(va)), ('is_one', '<%s as num::One>::is_one' % S4, va == (1, 0, 0, 0))):
            n += 1
            try:
                got_ = _s4_call(facts, key_, [a])
            except minirust.Panics as ex:
                fail('zero-one-tests', '%s of the exact scalar with coefficients %s panics (%s)' % (nm_, ', '.join('%d*2^%d' % x for x in c), ex))
                continue
            if got_ != want_:
                fail('zero-one-tests', '%s of the exact scalar with coefficients %s answers %s' % (nm_, ', '.join('%d*2^%d' % x for x in c), got_))
    # every operator impl (by value / by reference / assigning forms) agrees with the reference on pairs that separate operand order
    res['operator-impls'] = [True, '']
    from .. import rops as _rops
    probe = [(dom[6], vals[6]), (dom[12], vals[12]), (dom[10], vals[10])]
    for key, op, is_assign, _sx in _rops.op_impls(facts, lambda t: t.replace('&', '').strip() == S4):
        if op not in ('Add', 'Sub', 'Mul') or key not in facts['fns'] or len(facts['fns'][key]['params']) != 2:
            continue
        for (a, va), (b, vb) in [(x, y) for x in probe for y in probe if x is not y]:
            a1, b1 = minirust.deep_clone(a), minirust.deep_clone(b)
            r = _s4_call(facts, key, [a1, b1])
            n += 1
            got = _s4_value(a1 if is_assign else r)
            want = tuple(x + y for x, y in zip(va, vb)) if op == 'Add' else tuple(x - y for x, y in zip(va, vb)) if op == 'Sub' else _s4_mul(va, vb)
            if got != want:
                fail('operator-impls', '%s: %s %s %s = %s, exactly %s' % (key, show(va), {'Add': '+', 'Sub': '-', 'Mul': '*'}[op], show(vb), show(got), show(want)))
    for p in range(-7, 8):
        r = _s4_call(facts, '<%s as scalar_traits::Sqrt2>::sqrt2_pow' % S4, [p])
        n += 1
        if _s4_value(r) != tuple(Fr(x) for x in _s4_sqrt2_pow(p)):
            fail('sqrt2-pow', 'sqrt2_pow(%d) = %s' % (p, show(_s4_value(r))))
    fpk = '<%s as std::convert::From<phase::Phase>>::from' % S4
    for k in range(-8, 9):
        r = _s4_call(facts, fpk, [cs.Ph(Fr(k, 4))])
        n += 1
        if _s4_value(r) != tuple(Fr(x) for x in _s4_omega_pow(k)):
            fail('from-phase', 'the scalar of the phase %s is %s, e^(i pi %s) is %s' % (Fr(k, 4), show(_s4_value(r)), Fr(k, 4), show(_s4_omega_pow(k))))
    # phases that are not multiples of pi/4 take the float branch: every coefficient is flagged approximate and the value is e^(i pi phi) to 1e-12
    import cmath
    res['from-phase-inexact'] = [True, '']
    for ph in (Fr(1, 3), Fr(1, 8), Fr(-2, 5), Fr(5, 6), Fr(7, 16)):
        r = _s4_call(facts, fpk, [cs.Ph(ph)])
        n += 1
        v = _s4_value(r)
        w = cmath.exp(1j * cmath.pi / 4)
        z = sum(complex(float(c)) * w ** i for i, c in enumerate(v))
        flagged = all((d['flags'] & 2) for d in r['0'] if d['val'] != 0)
        if abs(z - cmath.exp(1j * cmath.pi * float(ph))) > 1e-12 or not flagged:
            fail('from-phase-inexact', 'the scalar of the phase %s is %s (%s), which is %s' % (ph, show(v), z, 'not flagged approximate' if not flagged else 'not e^(i pi %s)' % ph))
    # recognition: every sqrt2^p * omega^k is recognised with that (phase, power); the other scalars of the domain are not
    ek = S4 + '::exact_phase_and_sqrt2_pow'
    forms = {}
    for p in range(-6, 7):
        for k in range(8):
            v = _s4_mul(tuple(Fr(x) for x in _s4_sqrt2_pow(p)), _s4_omega_pow(k))
            forms[v] = (Fr(k, 4) % 2, p)
            sp = _s4_call(facts, '<%s as scalar_traits::Sqrt2>::sqrt2_pow' % S4, [p])
            ph = _s4_call(facts, fpk, [cs.Ph(Fr(k, 4))])
            sc = _s4_call(facts, keys['mul'], [sp, ph])
            r = _s4_call(facts, ek, [sc])
            n += 4
            ok = isinstance(r, tuple) and r[0] == 'Some' and isinstance(r[1], tuple) and isinstance(r[1][0], cs.Ph) and (r[1][0].v, r[1][1]) == (Fr(k, 4) % 2, p)
            if not ok:
                fail('exact-phase-and-sqrt2-pow', 'sqrt2^%d * e^(i pi %s) is recognised as %s' % (p, Fr(k, 4), r))
    for a, va in zip(dom, vals):
        r = _s4_call(facts, ek, [a])
        n += 1
        want = forms.get(va)
        if want is None:
            ok = r == minirust.NONE
        else:
            ok = isinstance(r, tuple) and r[0] == 'Some' and isinstance(r[1][0], cs.Ph) and (r[1][0].v, r[1][1]) == want
        if not ok:
            fail('exact-phase-and-sqrt2-pow', '%s is recognised as %s, expected %s' % (show(va), r, want))
    # recognition on full-width mantissas (64 significant bits): 2^64 - 1, 2^63 + 1 are not units, whatever a signed view of the mantissa says; the same
    # values halved to sqrt2 multiples; 2^63 is the unit 1 * 2^63
    full = [((1 << 64) - 1, 'the exact scalar 2^64 - 1'), ((1 << 63) + 1, 'the exact scalar 2^63 + 1'), ((1 << 64) - 3, 'the exact scalar 2^64 - 3')]
    for mant, text in full:
        for pos_ in range(4):
            for sg_ in (0, 1):
                zero_ = _dy_call(facts, DY + '::new', [0, 0])
                co = [minirust.deep_clone(zero_) for _ in range(4)]
                co[pos_] = dict(zero_, val=mant, exp=0, flags=sg_)
                if not _dy_wellformed(co[pos_]):
                    raise minirust.NoEval('representation of a full-width mantissa: %r' % (co[pos_],))
                r = _s4_call(facts, ek, [{'__struct__': S4, '0': co}])
                n += 1
                if r != minirust.NONE:
                    fail('exact-phase-and-sqrt2-pow', '%s%s as coefficient %d is recognised as %s: it is not of the form sqrt2^p * e^(i k pi/4)' % ('minus ' if sg_ else '', text, pos_, r))
    return dict((k, tuple(v)) for k, v in res.items()), n


MUL_REF = {(i, j): ((i + j) % 4, -1 if (i + j) >= 4 else 1) for i in range(4) for j in range(4)}


def from_phase_table(f):
    """pos (0..7) -> (index, value) written into the coefficient array by From<Phase>, guard and pos formula descriptors"""
    ifs = [n for n in hir.nodes(f['hir']) if n.get('k') == 'If']
    if not ifs:
        return None
    top = ifs[0]
    c = hir.strip(top['cond'])
    guard = None
    if c.get('k') == 'Binary' and c['op'] == 'Eq' and hir.lit_int(c['r']) == 0:
        l = hir.strip(c['l'])
        if l.get('k') == 'Binary' and l['op'] == 'Rem' and hir.lit_int(l['l']) is not None:
            d = hir.strip(l['r'])
            if d.get('k') == 'MethodCall' and d['name'] == 'denom':
                guard = ('divides', hir.lit_int(l['l']))
    body = hir.stmts_of(top['then'])
    pos_id = None
    pos_formula = None
    for s in body:
        if s.get('k') == 'Let' and s['pat'].get('k') == 'Bind' and s['pat']['name'] == 'pos':
            pos_id = s['pat']['id']
            i = hir.strip(s['init'])
            i = hir.strip(i['e']) if i.get('k') == 'Cast' else i
            if i.get('k') == 'MethodCall' and i['name'] == 'rem_euclid' and hir.lit_int(i['args'][0]) == 8:
                m = hir.strip(i['recv'])
                if m.get('k') == 'Binary' and m['op'] == 'Mul':
                    a, b = hir.strip(m['l']), hir.strip(m['r'])
                    if a.get('k') == 'MethodCall' and a['name'] == 'numer' and b.get('k') == 'Binary' and b['op'] == 'Div' and hir.lit_int(b['l']) == 4 \
                            and hir.strip(b['r']).get('k') == 'MethodCall' and hir.strip(b['r'])['name'] == 'denom':
                        pos_formula = 'numer*(4/denom) mod 8'
    table = {}
    if pos_id is not None:
        for pos in range(8):
            writes = []

            def on_stmt(s, env):
                s0 = hir.strip(s)
                if s0.get('k') == 'Assign' and hir.strip(s0['l']).get('k') == 'Index':
                    try:
                        writes.append((ceval.ival(hir.strip(s0['l'])['i'], env), ceval.ival(s0['r'], env)))
                    except ceval.NotConst:
                        writes.append(None)
            rest = [s for s in body if not (s.get('k') == 'Let' and s['pat'].get('k') == 'Bind' and s['pat']['name'] == 'pos')]
            ceval.run_block(rest, {pos_id: pos}, on_stmt)
            table[pos] = writes
    return guard, pos_formula, table


PHASE_REF = {p: [(p % 4, -1 if p >= 4 else 1)] for p in range(8)}


def complex_descriptor(f):
    """which coefficients feed re and im: {'re': (base index, (i op j)), 'im': ...}"""
    out = {}
    for n in hir.nodes(f['hir']):
        if n.get('k') == 'Struct' and (n['ctor'].get('path') or '').endswith('Complex'):
            for name, e in n['fields']:
                idxs = []
                for x in hir.nodes(e):
                    if x.get('k') == 'Binary' and x['op'] in ('Add', 'Sub') and hir.strip(x['l']).get('k') == 'Index' and hir.strip(x['r']).get('k') == 'Index':
                        idxs.append((hir.lit_int(hir.strip(x['l'])['i']), x['op'], hir.lit_int(hir.strip(x['r'])['i'])))
                first = [hir.lit_int(x['i']) for x in hir.nodes(e) if x.get('k') == 'Index' and hir.lit_int(x['i']) is not None]
                consts = sorted(hir.pp(x) for x in hir.nodes(e) if x.get('k') in ('Lit', 'Path') and (x.get('ty') == 'f64') and hir.local(x) is None)
                out[name] = (first[0] if first else None, tuple(idxs), tuple(consts))
    return out


COMPLEX_REF = {'re': (0, ((1, 'Sub', 3),)), 'im': (2, ((1, 'Add', 3),))}


def sqrt2_descriptor(f):
    """even: [new(1, p/2), 0, 0, 0]; odd: d = new(1, (p-1)/2), [0, d, 0, -d]"""
    ifs = [n for n in hir.nodes(f['hir']) if n.get('k') == 'If']
    if len(ifs) != 1:
        return None
    c = hir.strip(ifs[0]['cond'])
    even_first = c.get('k') == 'Binary' and c['op'] == 'Eq' and hir.lit_int(c['r']) == 0 and hir.strip(c['l']).get('k') == 'Binary' and hir.strip(c['l'])['op'] == 'Rem' and hir.lit_int(hir.strip(c['l'])['r']) == 2
    if not even_first:
        return None

    def arr_desc(br):
        arrs = [n for n in hir.nodes(br) if n.get('k') == 'Array' and len(n['items']) == 4]
        if len(arrs) != 1:
            return None
        d = []
        dlet = None
        for n in hir.nodes(br):
            if n.get('k') == 'Let' and n['pat'].get('k') == 'Bind' and n.get('init') is not None:
                i = hir.strip(n['init'])
                if i.get('k') == 'Call' and hir.callee(i) == DY + '::new':
                    dlet = (n['pat']['id'], hir.lit_int(i['args'][0]), hir.pp(i['args'][1]))
        for it in arrs[0]['items']:
            it = hir.strip(it)
            sign = 1
            if it.get('k') == 'Unary' and it['op'] == 'Neg':
                sign, it = -1, hir.strip(it['e'])
            if it.get('k') == 'Call' and hir.callee(it) == DY + '::new':
                d.append((sign * (hir.lit_int(it['args'][0]) or 0), hir.pp(it['args'][1])))
            elif it.get('k') == 'MethodCall' and it['name'] == 'into' and hir.lit_int(it['recv']) == 0:
                d.append((0, None))
            elif hir.local(it) and dlet and hir.local(it)[1] == dlet[0]:
                d.append((sign * dlet[1], dlet[2]))
            else:
                d.append(('?', hir.pp(it)[:20]))
        return d
    return arr_desc(ifs[0]['then']), arr_desc(ifs[0]['else'])


SQRT2_REF = ([(1, '(p / 2)'), (0, None), (0, None), (0, None)], [(0, None), (1, '((p - 1) / 2)'), (0, None), (-1, '((p - 1) / 2)')])


def _shape(ck, rule, key, ok, site, msg='', sample=None):
    """an obligation of a rule that reads a table / operand order off the code's SHAPE: a recognised good shape discharges, anything else is undecided —
    the value-level clause is decided by the E3 evaluations (DESIGN 3.4)"""
    ck.ob3(rule, key, True if ok else None, site, ('%s [shape not recognised by this rule; the values are decided by E3-dyadic / E3-scalar4]' % msg) if not ok else msg, sample)



def _run_own(ck):
    facts = ck.facts
    ck.decided('D1 honest approx flag: every lossy mantissa shift is paired with the lost-bit test that sets APPROX; on every return path of Dyadic add/mul the result flags include the APPROX bit of both operands (exact-zero product shortcut excepted); From<f64> always sets it; Scalar4::approx is any()',
               'D2 order and zero: Ord::cmp is decided completely over the finite abstraction {neg,zero,pos}^2 x exponent order x mantissa order against the order of the reals; every other comparison of two exponents is dominated by zero tests of both operands',
               'D3 no u64->i64 cast of a full-width mantissa on the call path from a Scalar4/Dyadic to f64/Complex<f64>',
               'D4 representation invariant: Dyadic literals only in dyadic.rs, all-zero or normalised before use; fields private; Scalar4 array built only in scalar.rs',
               'D5 operator consistency (Dyadic 7 + Scalar4 20 impls incl. Sum/Product) and literal tables by value: conj, the Z[omega] product index/sign table, From<Phase> unit placement and its denominator guard, sqrt2_pow, both TryFrom<..> for Complex')
    ck.not_decided('Dyadic values outside the boundary domain (the structural rules cover all paths)', 'accuracy to 1e-12 of the float conversion', 'float round-trip', 'Scalar4 values outside the evaluated domain of small exact scalars')
    # ---- D0 (round 2): Dyadic arithmetic and order, evaluated on a boundary-rich finite domain against exact rationals
    try:
        sem, nev = ev_dyadic(facts)
        msgs = {'exact-unless-flagged': 'a result that is not flagged approximate must equal the exact value',
                'representation': 'every result keeps the representation invariant the other operations rely on',
                'taint': 'an approximate operand makes the result approximate',
                'error-bound': 'an approximate result is off by no more than the truncation explains',
                'order': 'cmp agrees with the order of the reals',
                'neg': 'negation is exact and keeps the representation', 'from-f64': 'a Dyadic built from a float denotes it exactly and is flagged approximate', 'to-f64': 'a dyadic whose value is an ordinary float converts to it',
                'operands-untouched': 'operands are values'}
        for name, (ok, cex) in sorted(sem.items()):
            ck.ob('E3-dyadic', name, ok, ck.site(ADD if name not in ('order', 'neg') else CMP), '%s: %s' % (msgs[name], cex), sample={'evaluations': nev})
        ck.floor('E3-dyadic-evaluations', nev, 15000)
        ck.note('Dyadic: %d evaluations of add / sub / mul / neg / cmp over a domain of %d boundary values' % (nev, len(dyadic_domain())))
    except minirust.Panics as ex:
        ck.ob('E3-dyadic', 'no-panic', False, ck.site(ADD), 'some pair of boundary values makes the arithmetic panic (overflow checks are on in debug builds): %s' % ex)
    except (minirust.NoEval, minirust.Proceed, TypeError, KeyError, IndexError, AttributeError, ValueError) as ex:
        ck.ob3('E3-dyadic', 'evaluable', None, ck.site(ADD), 'the Dyadic arithmetic is not evaluable by the interpreter (%s): the value-level clauses are not decided (the structural rules below still are)' % ex)
    try:
        sem, nev = ev_scalar4(facts)
        msgs = {'add': 'the reference Add impl is the sum in Z[omega][1/2]', 'sub': 'the reference Sub impl is the difference', 'mul': 'the reference Mul impl is the product with omega^4 = -1',
                'conj': 'conj is complex conjugation', 'zero-one-tests': 'is_zero / is_one agree with the value', 'sqrt2-pow': 'sqrt2_pow(p) is sqrt(2)^p',
                'from-phase': 'the scalar of a phase k*pi/4 is omega^k', 'from-phase-inexact': 'a phase that is not a multiple of pi/4 becomes an approximate scalar close to e^(i pi phi)', 'exact-phase-and-sqrt2-pow': 'exactly the scalars sqrt2^p * omega^k are recognised, with that phase and power',
                'exact-stays-exact': 'exact operands with small coefficients give exact results', 'taint': 'an approximate coefficient (an approximate zero included) taints every result coefficient that depends on it', 'operator-impls': 'every Add / Sub / Mul impl (by value, by reference, assigning) computes the reference operation in operand order'}
        for name, (ok, cex) in sorted(sem.items()):
            ck.ob('E3-scalar4', name, ok, ck.site(S4 + '::exact_phase_and_sqrt2_pow') if name.startswith('exact-phase') else 'quizx/src/scalar.rs', '%s: %s' % (msgs[name], cex), sample={'evaluations': nev})
        ck.floor('E3-scalar4-evaluations', nev, 1000)
        ck.note('Scalar4: %d evaluations against the exact ring Z[omega][1/2]' % nev)
    except minirust.Panics as ex:
        ck.ob('E3-scalar4', 'no-panic', False, 'quizx/src/scalar.rs', 'some small exact scalar makes the arithmetic panic: %s' % ex)
    except (minirust.NoEval, minirust.Proceed, TypeError, KeyError, IndexError, AttributeError, ValueError) as ex:
        ck.ob3('E3-scalar4', 'evaluable', None, 'quizx/src/scalar.rs', 'the Scalar4 arithmetic is not evaluable by the interpreter (%s): the ring-level clauses are not decided (the table rules below still are)' % ex)
    # ---- D2 order
    f = ck.fn(CMP)
    res = d2_order(f)
    bad = [r for r in res if not r[1]]
    for case, ok, got, want, err in res:
        ck.ob3('R-ORDER', 'Dyadic::cmp/%s-%s/exp%+d/val%+d' % case, ok, ck.site(CMP),
              err or ('for self %s, other %s, exponent order %+d, mantissa order %+d the comparison answers %s but the reals say %s' % (case + (_ordname(got), _ordname(want)))),
              sample={'case': str(case), 'answer': _ordname(got), 'expected': _ordname(want)})
    ck.floor('R-ORDER', len(res), 40)
    for key in (ADD, MUL, CMP, '<scalar::dyadic::Dyadic as approx::AbsDiffEq>::abs_diff_eq'):
        fk = ck.fn(key)
        for i, (ok, n, nz) in enumerate(exp_comparisons(fk)):
            if key == CMP:
                continue   # cmp is decided completely by R-ORDER
            ck.ob('R-ZERO-GUARD', '%s/exp-cmp-%d' % (key, i), ok, ck.site(key, n),
                  'comparison of two exponents `%s` is not dominated by zero tests of both operands (zero is stored with exponent 0, which is not its order of magnitude); non-zero established for: %s' % (hir.pp(n)[:50], nz),
                  sample={'cmp': hir.pp(n)[:50], 'nonzero': nz})
    ad = ck.fn('<scalar::dyadic::Dyadic as approx::AbsDiffEq>::abs_diff_eq')
    lt = [n for n in hir.nodes(ad['hir']) if n.get('k') == 'Binary' and n['op'] in ('Lt', 'Le')]
    ck.ob('R-ORDER', 'abs_diff_eq/through-order', len(lt) == 1 and any(c.get('k') == 'MethodCall' and c['name'] == 'abs' for c in hir.calls(lt[0]['l'])) if lt else False,
          ck.site('<scalar::dyadic::Dyadic as approx::AbsDiffEq>::abs_diff_eq'), 'abs_diff_eq must be |self - other| < epsilon through the Dyadic order')
    # ---- D1
    sh = lossy_shifts(facts, [ADD, MUL])
    for i, (ok, key, c, how) in enumerate(sh):
        ck.ob('R-PAIR-shift', '%s/shr-%d' % (key, i), ok, ck.site(key, c), 'right shift `%s` can drop set bits and is not preceded by the lost-bit test that sets APPROX' % hir.pp(c)[:50], sample={'shift': hir.pp(c)[:50], 'how': how})
    ck.floor('R-PAIR-shift', len(sh), 5)
    for key, exempt in ((ADD, False), (MUL, True)):
        tr = d1_taint(ck.fn(key), exempt)
        for i, (ok, p, why, have) in enumerate(tr):
            ck.ob('R-TAINT-approx', '%s/return-%d' % (key, i), ok, ck.site(key), why, sample={'path': p.cond_texts(), 'flags_include': have})
        ck.floor('R-TAINT-approx/' + key.rsplit('::', 1)[1], len(tr), 3)
    ff = ck.fn('<scalar::dyadic::Dyadic as std::convert::From<f64>>::from')
    lit = [n for n in hir.nodes(ff['hir']) if n.get('k') == 'Struct' and n['ctor'].get('path') == DY or (n.get('k') == 'Struct' and n['ctor'].get('k') == 'SelfCtor')]
    ok = False
    if len(lit) == 1:
        fl = hir.strip(dict((n, e) for n, e in lit[0]['fields'])['flags'])
        ok = fl.get('k') == 'Binary' and fl['op'] == 'BitOr' and any((hir.def_path(x) or '').endswith('::APPROX') for x in (fl['l'], fl['r']))
    _shape(ck, 'R-TAINT-approx', 'From<f64>/always-approx', ok, ck.site('<scalar::dyadic::Dyadic as std::convert::From<f64>>::from'), 'a Dyadic built from a float must always carry the APPROX flag')
    ap = ck.fn('scalar::Scalar4::approx')
    ok = any(c.get('k') == 'MethodCall' and c['name'] == 'any' for c in hir.calls(ap['hir'])) and bool(hir.calls_to(ap['hir'], DY + '::approx'))
    ck.ob('R-TAINT-approx', 'Scalar4::approx/any', ok, ck.site('scalar::Scalar4::approx'), 'Scalar4::approx must be true when any coefficient is approximate')
    # ---- D3
    ckeys = conv_keys(facts)
    for nm, k in ckeys.items():
        if k is None:
            raise Exception('conversion impl %s not found (anchor-missing)' % nm)
    cs, nreach = d3_casts(facts, ['scalar::Scalar4::complex_value'] + list(ckeys.values()))
    for i, (ok, key, n) in enumerate(cs):
        ck.ob('R-CAST', '%s/u64-as-i64-%d' % (key, i), ok, ck.site(key, n),
              'u64 -> i64 cast of a mantissa that can have its top bit set (`%s`) on the conversion path to f64: full-width mantissas wrap to negative values' % hir.pp(n)[:60])
    ck.ob('R-CAST', 'conversion-path/reachable', nreach >= 4, 'scalar.rs', 'conversion entry points not found (anchor-missing)', sample={'functions_on_path': nreach})
    # ---- D4
    lits = d4_literals(facts)
    for i, (ok, key, node, how) in enumerate(lits):
        ck.ob('R-ENCAP', 'Dyadic/literal/%s-%d' % (key, i), ok, ck.site(key, node), 'Dyadic literal that is neither all-zero nor normalised before use, or outside dyadic.rs', sample={'how': how})
    ck.floor('R-ENCAP-dyadic', len(lits), 3)
    for adt in (DY, S4):
        for name, _ty, vis in rencap.adt_fields(facts, adt) or []:
            ck.ob('R-ENCAP', '%s/private-field/%s' % (adt.rsplit('::', 1)[1], name), vis.startswith('Restricted'), adt, 'field %s of %s is visible outside its module' % (name, adt))
    for key, node in rencap.constructions(facts, S4):
        fk = facts['fns'][key]
        if not fk.get('macro'):
            ck.ob('R-ENCAP', 'Scalar4/ctor/%s' % key, fk['file'].endswith('scalar.rs'), ck.site(key, node), 'Scalar4 built outside scalar.rs')
    # ---- D5
    n_ops = 0
    for adt in (DY, S4):
        for key, op, is_assign, _s in rops.op_impls(facts, lambda s: s.replace('&', '').strip() == adt):
            fk = ck.fn(key)
            if key in (ADD, MUL) or (adt == S4 and op == 'Mul' and hir.find(fk['hir'], 'For')):
                continue   # reference impls: add/mul of Dyadic (D1) and the Z[omega] product (table below)
            n_ops += 1
            if adt == DY and op == 'Sub' and not is_assign:
                # a - b is a + (-b)
                s = [n for n in hir.nodes(fk['hir']) if n.get('k') == 'Binary' and n['op'] == 'Add']
                ok = len(s) == 1 and hir.local_name(s[0]['l']) == 'self' and hir.strip(s[0]['r']).get('k') == 'Unary' and hir.strip(s[0]['r'])['op'] == 'Neg' and hir.local_name(hir.strip(s[0]['r'])['e']) == 'rhs'
                _shape(ck, 'R-OPS', key, ok, ck.site(key), 'Dyadic subtraction must be self + (-rhs)')
                continue
            ok, why, summ = rops.check_impl(fk, op, is_assign)
            _shape(ck, 'R-OPS', key, ok, ck.site(key), why, sample={'applications': summ})
    ck.floor('R-OPS', n_ops, 20)
    for key, want in (('<scalar::Scalar4 as std::iter::Sum>::sum', 'Add'), ('<scalar::Scalar4 as std::iter::Product>::product', 'Mul')):
        fk = ck.fn(key)
        ops = [n['op'] for n in hir.nodes(fk['hir']) if n.get('k') == 'Binary' and n['op'] in ('Add', 'Sub', 'Mul', 'Div')]
        unit = [hir.callee(c) for c in hir.calls(fk['hir']) if (hir.callee(c) or '').endswith(('::zero', '::one'))]
        ck.ob('R-OPS', key, ops == [want] and len(unit) == 1 and unit[0].endswith('::zero' if want == 'Add' else '::one'), ck.site(key),
              '%s must fold with %s from the neutral element; found ops %s from %s' % (key, want, ops, unit))
    cj = conj_descriptor(ck.fn('scalar::Scalar4::conj'))
    _shape(ck, 'R-TABLE-scalar', 'conj', cj == [(1, 0), (-1, 3), (-1, 2), (-1, 1)], ck.site('scalar::Scalar4::conj'), 'conj is %s, the conjugate in the basis 1, w, w^2, w^3 is [+0, -3, -2, -1]' % cj, sample={'table': str(cj)})
    mk = [k for k, op, a, s in rops.op_impls(facts, lambda s: s.replace('&', '').strip() == S4) if op == 'Mul' and hir.find(facts['fns'][k]['hir'], 'For')]
    ck.ob('R-TABLE-scalar', 'mul/reference-impl', len(mk) == 1, 'scalar.rs', 'expected exactly one reference impl of the Z[omega] product, found %s' % mk)
    if len(mk) == 1:
        tb, zero, err = mul_semantics(ck.fn(mk[0]))
        if err is not None:
            tb0, problems = mul_table(ck.fn(mk[0]))       # the syntactic reading of the two constant loops, when the evaluator declines
            if not problems:
                tb, zero, err = dict((ij, [(v[0], v[1])]) for ij, v in tb0.items()), (True, None), None
        ck.ob3('R-TABLE-scalar', 'mul/understood', None if err is not None else True, ck.site(mk[0]), 'product not understood by the evaluator: %s' % err)
        for ij in sorted(MUL_REF):
            got = None if tb is None else tb.get(ij, [])
            ck.ob3('R-TABLE-scalar', 'mul/term-%d-%d' % ij, None if tb is None else got == [MUL_REF[ij]], ck.site(mk[0]),
                   'w^%d * w^%d is accumulated at (index, coefficient) %s, must be exactly %s (w^4 = -1)' % (ij + (got, MUL_REF[ij])), sample={'term': str(ij), 'goes_to': str(got)})
        extra = None if tb is None else sorted(str(k) for k in tb if k not in MUL_REF)
        ck.ob3('R-TABLE-scalar', 'mul/no-other-terms', None if tb is None else not extra, ck.site(mk[0]), 'the product contains terms that are not a_i*b_j: %s' % extra)
        ck.ob3('R-TABLE-scalar', 'mul/zero-skips', None if zero is None else zero[0], ck.site(mk[0]),
               'with vanishing coefficients (self %s, rhs %s) the product differs from the full product specialised to them: a skipped zero must only skip zero terms' % (zero[1] if zero and zero[1] else ('', '')))
    fp = from_phase_table(ck.fn('<scalar::Scalar4 as std::convert::From<phase::Phase>>::from'))
    fpk = '<scalar::Scalar4 as std::convert::From<phase::Phase>>::from'
    if fp is None:
        ck.violation('R-TABLE-scalar', 'from-phase/shape', ck.site(fpk), 'anchor-missing')
    else:
        guard, formula, table = fp
        _shape(ck, 'R-TABLE-scalar', 'from-phase/guard', guard == ('divides', 4), ck.site(fpk), 'the exact branch must be taken exactly when the denominator divides 4 (`4 %% denom == 0`); found %s' % (guard,))
        _shape(ck, 'R-TABLE-scalar', 'from-phase/position', formula is not None, ck.site(fpk), 'the unit position must be numer*(4/denom) mod 8')
        for p in range(8):
            _shape(ck, 'R-TABLE-scalar', 'from-phase/pos-%d' % p, table.get(p) == PHASE_REF[p], ck.site(fpk), 'e^(i pi %d/4) is written as %s, must be %s' % (p, table.get(p), PHASE_REF[p]))
    sq = sqrt2_descriptor(ck.fn('<scalar::Scalar4 as scalar_traits::Sqrt2>::sqrt2_pow'))
    _shape(ck, 'R-TABLE-scalar', 'sqrt2_pow', sq is not None and (sq[0], sq[1]) == SQRT2_REF, ck.site('<scalar::Scalar4 as scalar_traits::Sqrt2>::sqrt2_pow'),
          'sqrt2_pow is %s; must be 2^(p/2) for even p and 2^((p-1)/2) (w - w^3) for odd p' % (sq,), sample={'table': str(sq)})
    for key in (ckeys['by-ref'], ckeys['by-value']):
        d = complex_descriptor(ck.fn(key))
        ok = all(d.get(k, (None, None))[:2] == COMPLEX_REF[k] for k in ('re', 'im'))
        ck.ob('R-TABLE-scalar', 'to-complex/' + ('by-ref' if key == ckeys['by-ref'] else 'by-value'), ok, ck.site(key),
              'conversion uses %s; must be re = c0 + (c1 - c3)/sqrt2, im = c2 + (c1 + c3)/sqrt2' % {k: v[:2] for k, v in d.items()}, sample={'descriptor': str(d)})
    d1 = complex_descriptor(facts['fns'][ckeys['by-ref']])
    d2 = complex_descriptor(facts['fns'][ckeys['by-value']])
    ck.ob('R-SIB', 'to-complex/by-ref=by-value', d1 == d2, 'scalar.rs', 'the by-reference and by-value conversions to Complex<f64> differ: %s vs %s' % (d1, d2))
    # positive controls
    fx = fixture()
    r = d2_order(fx['fns'][CMP])
    ck.control('R-ORDER refutes a comparison that orders zero by its stored exponent', any(not x[1] for x in r))
    ck.control('R-TAINT-approx flags an add that returns the other operand untainted', any(not x[0] for x in d1_taint(fx['fns'][ADD], False)))
    ck.control('R-PAIR-shift flags an unguarded lossy shift', any(not x[0] for x in lossy_shifts(fx, [ADD])))
    cs2, _n = d3_casts(fx, [hir.impl_method(fx, 'std::convert::TryFrom<scalar::dyadic::Dyadic>', 'f64', 'try_from')])
    ck.control('R-CAST flags the full-width mantissa cast', any(not x[0] for x in cs2))


def _ordname(v):
    return {-1: 'Less', 0: 'Equal', 1: 'Greater', None: '?'}.get(v, str(v))


def run(ck, **kw):
    _run_own(ck)
    ck.include('C16', 'scalar phases are Phase values: from_phase / mul_phase rely on the canonical form and the operator impls of phase.rs (anchored here too)')
