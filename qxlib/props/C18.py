"""C18 — rank-decomposition trees: cache invalidation before tree surgery, canonical cache keys, annealer best tree, distinct indices."""
from .. import hir, paths, zone, rencap, minirust, decompsem as ds
from ..controls import fixture

TREE = 'rankwidth::decomp_tree::DecompTree'
SWAP = TREE + '::swap_subtrees'
MOVE = TREE + '::move_subtree'
CLEAR1 = TREE + '::clear_rank'
CLEARALL = TREE + '::clear_ranks'
PATHFN = TREE + '::path'


def _tuple_locals(e):
    e = hir.strip(e)
    if e.get('k') == 'Tup' and len(e['items']) == 2:
        a, b = hir.local(e['items'][0]), hir.local(e['items'][1])
        if a and b:
            return a[1], b[1]
    return None


def _writes_between(stmts, i, j, ids):
    """is any of the locals written in stmts[i+1 .. j-1] ?"""
    for s in stmts[i + 1:j]:
        for _k, pl, _n in hir.mutations(s):
            p = hir.place(pl)
            if p and p[0] in ids and not p[2]:
                return True
        if s.get('k') == 'Let':
            if any(b[1] in ids for b in hir.bindings(s['pat'])):
                return True
    return False


def swap_invalidation(f):
    """each swap_subtrees((p1,c1),(p2,c2)) statement is dominated, in its block, by invalidation of both removed
    edges and every edge between them.  Returns [(ok, node, why, how)]"""
    res = []
    for _b, st in hir.blocks(f['hir']):
        for j, s in enumerate(st):
            s0 = hir.strip(s)
            if not (s0.get('k') == 'MethodCall' and hir.callee(s0) == SWAP):
                continue
            t1, t2 = _tuple_locals(s0['args'][0]), _tuple_locals(s0['args'][1])
            if not t1 or not t2:
                res.append((False, s0, 'arguments of swap_subtrees are not tuples of locals (not-established-by-recognised-idiom)', None))
                continue
            (p1, c1), (p2, c2) = t1, t2
            # (a) clear_ranks() before, unconditionally
            clear_all = [i for i in range(j) if hir.strip(st[i]).get('k') == 'MethodCall' and hir.callee(hir.strip(st[i])) == CLEARALL]
            if clear_all:
                res.append((True, s0, '', 'clear_ranks'))
                continue
            # (b) explicit clears: {p1,c1}, {p2,c2}, {p1,p2}  (parents adjacent)
            clears = {}
            for i in range(j):
                x = hir.strip(st[i])
                if x.get('k') == 'MethodCall' and hir.callee(x) == CLEAR1:
                    t = _tuple_locals(x['args'][0])
                    if t and not _writes_between(st, i, j, set(t)):
                        clears[frozenset(t)] = i
            need = [frozenset((p1, c1)), frozenset((p2, c2)), frozenset((p1, p2))]
            if all(n in clears for n in need):
                # p1,p2 adjacent?  p2 must be derived as a neighbour of p1 (or vice versa); we only require the three clears
                res.append((True, s0, '', 'explicit-3'))
                continue
            # (c) path loop: let path = self.path(c1, c2); let mut x = path[0]; for &y in &path[1..] { self.clear_rank((x, y)); x = y; }
            ok = False
            for i in range(j):
                x = st[i]
                if x.get('k') == 'Let' and x.get('init') is not None and x['pat'].get('k') == 'Bind':
                    c = hir.strip(x['init'])
                    if c.get('k') == 'MethodCall' and hir.callee(c) == PATHFN:
                        a, b = hir.local(c['args'][0]), hir.local(c['args'][1])
                        if a and b and {a[1], b[1]} == {c1, c2}:
                            pid = x['pat']['id']
                            ok = _path_clear_loop(st, i, j, pid) and not _writes_between(st, i, j, {c1, c2, p1, p2})
            if ok:
                res.append((True, s0, '', 'path-loop'))
                continue
            miss = [sorted(n) for n in need if n not in clears]
            res.append((False, s0, 'swap_subtrees is not dominated by invalidation of the cached ranks it changes (no clear_ranks(), no clearing loop over path(c1,c2), '
                        'and explicit clear_rank calls miss %d of the 3 affected edges)' % len(miss), None))
    return res


def _path_clear_loop(st, i, j, pid):
    """between st[i] and st[j]: `let mut x = path[0]; for &y in &path[1..] { self.clear_rank((x,y)); x = y; }`"""
    xid = None
    for k in range(i + 1, j):
        s = st[k]
        if s.get('k') == 'Let' and s.get('init') is not None and s['pat'].get('k') == 'Bind':
            e = hir.strip(s['init'])
            if e.get('k') == 'Index' and hir.local(e['e']) and hir.local(e['e'])[1] == pid and hir.lit_int(e['i']) == 0:
                xid = s['pat']['id']
        if s.get('k') == 'For' and xid is not None:
            it = hir.strip(s['iter'])
            if it.get('k') == 'Index' and hir.local(it['e']) and hir.local(it['e'])[1] == pid:
                rb = hir.range_bounds(it['i'])
                if not rb or hir.lit_int(rb[0]) != 1 or rb[1] is not None:
                    continue
                ys = [b[1] for b in hir.bindings(s['pat'])]
                body = hir.stmts_of(s['body'])
                if len(body) == 2 and len(ys) == 1:
                    c0, a0 = hir.strip(body[0]), hir.strip(body[1])
                    t = _tuple_locals(c0['args'][0]) if c0.get('k') == 'MethodCall' and hir.callee(c0) == CLEAR1 else None
                    if t and set(t) == {xid, ys[0]} and a0.get('k') == 'Assign' and hir.local(a0['l']) and hir.local(a0['l'])[1] == xid \
                            and hir.local(a0['r']) and hir.local(a0['r'])[1] == ys[0]:
                        return True
    return False


def move_invalidation(f):
    res = []
    for _b, st in hir.blocks(f['hir']):
        for j, s in enumerate(st):
            s0 = hir.strip(s)
            if s0.get('k') == 'MethodCall' and hir.callee(s0) == MOVE:
                ok = any(hir.strip(st[i]).get('k') == 'MethodCall' and hir.callee(hir.strip(st[i])) == CLEARALL for i in range(j))
                res.append((ok, s0, 'move_subtree is not dominated by clear_ranks()'))
    return res


def rank_key_uses(facts):
    """every access to the `ranks` map keyed by an edge uses the canonical (min,max) key"""
    res = []
    for key, f in facts['fns'].items():
        if not key.startswith(TREE + '::'):
            continue
        pm = None
        for c in hir.calls(f['hir']):
            if c.get('k') != 'MethodCall' or c['name'] not in ('insert', 'remove', 'get', 'get_mut', 'contains_key', 'entry'):
                continue
            r = hir.place(hir.strip(c['recv']))
            if not (r and r[1] == 'self' and r[2] == [('f', 'ranks')]):
                continue
            lets = hir.let_env(f)
            karg = hir.strip(c['args'][0])
            ok = None
            why = 'key `%s` is neither canonicalised with `if e.0 < e.1 { e } else { (e.1, e.0) }` nor guarded by i <= j' % hir.pp(karg)[:40]
            kres = hir.resolve(karg, lets)
            if _is_canon(kres):
                ok = True
            t = _tuple_locals(kres)
            if t and ok is None:
                pm = pm or hir.parent_map(f['hir'])
                from .. import paths as _paths
                ok = False
                for it in _paths.dominating_conds(c, pm):
                    if it[0] != 'cond':
                        continue
                    n, pol = hir.strip(it[1]), it[2]
                    if n.get('k') == 'Binary' and n['op'] in ('Le', 'Lt', 'Ge', 'Gt') and hir.local(n['l']) and hir.local(n['r']):
                        l_, r_ = hir.local(n['l'])[1], hir.local(n['r'])[1]
                        op = n['op']
                        if not pol:
                            op = {'Le': 'Gt', 'Lt': 'Ge', 'Ge': 'Lt', 'Gt': 'Le'}[op]
                        if ((l_, r_) == t and op in ('Le', 'Lt')) or ((r_, l_) == t and op in ('Ge', 'Gt')):
                            ok = True
            if ok is None:
                l = hir.local(karg)
                # a key handed in from elsewhere (parameter, pattern binding): canonical when every source is
                why = 'how the key `%s` was formed could not be established' % hir.pp(karg)[:40]
            res.append((ok, key, c, why))
    return res


def _is_canon(e):
    e = hir.strip(e)
    if e.get('k') != 'If' or not e.get('else'):
        return False
    c = hir.strip(e['cond'])
    if not (c.get('k') == 'Binary' and c['op'] in ('Lt', 'Le')):
        return False

    def fld(x):
        x = hir.strip(x)
        if x.get('k') == 'Field' and hir.local(x['e']):
            return hir.local(x['e'])[1], x['name']
        return None
    l, r = fld(c['l']), fld(c['r'])
    if not l or not r or l[0] != r[0] or (l[1], r[1]) != ('0', '1'):
        return False
    tb, eb = hir.stmts_of(e['then']), hir.stmts_of(e['else'])
    if len(tb) != 1 or len(eb) != 1:
        return False
    t = hir.local(tb[0])
    el = hir.strip(eb[0])
    if not t or t[1] != l[0] or el.get('k') != 'Tup' or len(el['items']) != 2:
        return False
    a, b = fld(el['items'][0]), fld(el['items'][1])
    return bool(a and b and a == (l[0], '1') and b == (l[0], '0'))


def annealer_best(f):
    """best_decomp is replaced only under width < best_width with best_width updated in the same block; initialised from the start tree; returned"""
    res = []
    assigns = [n for n in hir.nodes(f['hir']) if n.get('k') == 'Assign' and hir.local_name(n['l']) == 'best_decomp']
    pm = hir.parent_map(f['hir'])
    for a in assigns:
        ok = False
        for anc, slot in hir.ancestors(a, pm):
            if anc.get('k') == 'If' and slot == 'then':
                c = hir.strip(anc['cond'])
                if c.get('k') == 'Binary' and ((c['op'] == 'Lt' and hir.local_name(c['l']) == 'width' and hir.local_name(c['r']) == 'best_width') or
                                               (c['op'] == 'Gt' and hir.local_name(c['r']) == 'width' and hir.local_name(c['l']) == 'best_width')):
                    upd = [n for n in hir.stmts_of(anc['then']) if hir.strip(n).get('k') == 'Assign' and hir.local_name(hir.strip(n)['l']) == 'best_width' and hir.local_name(hir.strip(n)['r']) == 'width']
                    # width must be the rank-width of the candidate being stored
                    ok = bool(upd)
                break
        res.append(('replace-only-if-better', ok, a, 'best_decomp is replaced without `width < best_width` (with best_width updated alongside)'))
    init_ok = False
    bw_ok = False
    for n in hir.nodes(f['hir']):
        if n.get('k') == 'Let' and n['pat'].get('k') == 'Bind' and n.get('init') is not None:
            i = hir.strip(n['init'])
            if n['pat']['name'] == 'best_decomp':
                p = hir.place(i)
                init_ok = bool(p and p[1] == 'self' and p[2] == [('f', 'init_decomp')])
            if n['pat']['name'] == 'best_width':
                bw_ok = i.get('k') == 'MethodCall' and hir.callee(i) == TREE + '::rankwidth' and bool(hir.place(hir.strip(i['recv'])) and hir.place(hir.strip(i['recv']))[2] == [('f', 'init_decomp')])
    res.append(('initialised-from-start', init_ok and bw_ok, None, 'best_decomp / best_width must be initialised from the starting tree and its rank-width'))
    tail = hir.stmts_of(f['hir'])[-1] if hir.stmts_of(f['hir']) else None
    res.append(('returns-best', tail is not None and hir.local_name(tail) == 'best_decomp', None, 'run() must return best_decomp'))
    # the width compared is that of the candidate tree
    wok = False
    for n in hir.nodes(f['hir']):
        if n.get('k') == 'Let' and n['pat'].get('k') == 'Bind' and n['pat']['name'] == 'width' and n.get('init') is not None:
            i = hir.strip(n['init'])
            wok = i.get('k') == 'MethodCall' and hir.callee(i) == TREE + '::rankwidth' and hir.local_name(i['recv']) == 'decomp'
    stored = all(hir.local_name(a['r']) == 'decomp' for a in assigns) and bool(assigns)
    res.append(('width-of-candidate', wok and stored, None, 'the width compared with best_width must be the rank-width of the candidate tree that is stored'))
    return res


def distinct_index_sites(f):
    """index expressions `xs[i]` with i a tracked random draw: prove the two draws distinct and in range at the later use"""
    results = []
    seen = []

    def is_site(n):
        return n.get('k') == 'Index' and hir.local(n['i']) is not None

    def on_site(n, d, env):
        i = hir.local(n['i'])[1]
        if i not in env:
            return
        others = [x for x in seen if x != i]
        if i not in seen:
            seen.append(i)
        ok = d.le('ZERO', i, 0) and (d.le(i, 'N', -1) or any(d.le(i, 'ZERO', c) for c in (2,)))
        why = [] if ok else ['%s in range not proved' % env[i]]
        for o in others:
            if not d.distinct(i, o):
                ok = False
                why.append('%s != %s not proved' % (env[i], env[o]))
        if others:
            results.append((n, ok, '; '.join(why)))
    ex = zone.Explorer(is_site, on_site)
    ex.run(hir.stmts_of(f['hir']))
    by = {}
    order = []
    for n, ok, why in results:
        if id(n) not in by:
            by[id(n)] = [n, True, []]
            order.append(id(n))
        if not ok:
            by[id(n)][1] = False
            by[id(n)][2].append(why)
    return [(by[i][0], by[i][1], '; '.join(sorted(set(by[i][2])))) for i in order]


# ---------------------------------------------------------------- D4: size preconditions of the moves, first-occurrence replacement, zero divisor

def early_return_bound(f, field):
    """largest K such that the function returns early when `self.<field>.len() < K` (None if there is no such guard)"""
    best = None
    for s0 in hir.stmts_of(f['hir']):
        s1 = hir.strip(s0)
        if s1.get('k') != 'If' or s1.get('else'):
            continue
        st = [hir.strip(x) for x in hir.stmts_of(s1['then'])]
        if not (st and st[-1].get('k') == 'Ret'):
            continue
        c = hir.strip(s1['cond'])
        if c.get('k') == 'Binary' and c['op'] in ('Lt', 'Le'):
            l = hir.strip(c['l'])
            v = hir.lit_int(hir.strip(c['r']))
            if v is not None and l.get('k') == 'MethodCall' and l['name'] == 'len' and hir.strip(l['recv']).get('k') == 'Field' and hir.strip(l['recv'])['name'] == field:
                k = v if c['op'] == 'Lt' else v + 1
                best = k if best is None else max(best, k)
    return best


def size_preconditions(facts):
    """[(key, ok, msg)]"""
    res = []
    f = facts['fns'][TREE + '::swap_random_leaves']
    k = early_return_bound(f, 'leaves')
    # alternatively an explicit guard that a parent is not the other leaf
    explicit = any(n.get('k') == 'Binary' and n['op'] in ('Eq', 'Ne') and {hir.local_name(n['l']), hir.local_name(n['r'])} in ({'p1', 'l2'}, {'p2', 'l1'}) for n in hir.nodes(f['hir']))
    res.append((TREE + '::swap_random_leaves/at-least-three-leaves', (k is not None and k >= 3) or explicit,
                'swap_subtrees((p1,l1),(p2,l2)) needs the parents to differ from the children; in a tree with two leaves each leaf is the other\'s parent (p1 = l2, p2 = l1) and the second pair of replace_neighbor calls panics '
                '("Old neighbor not found") — the leaf swap must return early unless there are at least three leaves (found: returns when leaves.len() < %s)' % k))
    for m in ('move_random_subtree', 'random_local_swap'):
        f = facts['fns'][TREE + '::' + m]
        k = early_return_bound(f, 'nodes')
        res.append((TREE + '::%s/at-least-six-nodes' % m, k is not None and k >= 6, '%s needs two adjacent interior nodes / a path of four nodes, i.e. a cubic tree with at least 6 nodes (found: returns when nodes.len() < %s)' % (m, k)))
    # move_subtree(&path) only with path.len() >= 4: the loop that draws the path breaks only under that test
    f = facts['fns'][TREE + '::move_random_subtree']
    ok = False
    for lp in hir.find(f['hir'], 'Loop'):
        brs = [n for n in hir.nodes(lp['body'], into_closures=False) if n.get('k') == 'Break']
        pm = hir.parent_map(lp)
        good = 0
        for b in brs:
            for c in paths.dominating_conds(b, pm):
                if c[0] == 'cond' and c[2]:
                    e = hir.strip(c[1])
                    if e.get('k') == 'Binary' and e['op'] in ('Ge', 'Gt') and hir.strip(e['l']).get('k') == 'MethodCall' and hir.strip(e['l'])['name'] == 'len':
                        v = hir.lit_int(hir.strip(e['r']))
                        if v is not None and (v if e['op'] == 'Ge' else v + 1) >= 4:
                            good += 1
        ok = bool(brs) and good == len(brs)
    res.append((TREE + '::move_random_subtree/path-of-four', ok, 'move_subtree reads path[0..=2] and the last two entries as five roles a, a1, a2, b1, b: the drawn path must have at least 4 nodes before it is used'))
    return res


def first_occurrence_only(f):
    """DecompNode::replace_neighbor rewrites exactly the first occurrence of `old` (swap_subtrees relies on it when two siblings are swapped: the parent transiently holds
    the same neighbour twice) and panics if there is none"""
    fors = hir.find(f['hir'], 'For')
    if len(fors) != 1:
        return None, 'replace_neighbor is no longer a single loop over the neighbour slots (not-established-by-recognised-idiom)'
    asg = [n for n in hir.nodes(fors[0]['body']) if n.get('k') == 'Assign']
    if len(asg) != 1:
        return False, 'expected exactly one slot assignment in the loop, found %d' % len(asg)
    pm = hir.parent_map(fors[0])
    blk = None
    for par, slot in hir.ancestors(asg[0], pm):
        if par.get('k') == 'Block':
            blk = par
            break
    st = [hir.strip(x) for x in hir.stmts_of(blk)]
    i = [j for j, x in enumerate(st) if x is asg[0] or any(y is asg[0] for y in hir.nodes(x))][0]
    stops = any(x.get('k') in ('Ret', 'Break') for x in st[i + 1:])
    tail = hir.stmts_of(f['hir'])[-1] if hir.stmts_of(f['hir']) else None
    panics = tail is not None and (hir.diverges(hir.strip(tail)) or hir.strip(tail).get('ty') == '!')
    if not stops:
        return False, ('after replacing a slot the loop goes on: every occurrence of `old` is rewritten. swap_subtrees swaps two sibling leaves through a parent that transiently lists the same neighbour twice '
                       '([x, l2, l2]); rewriting both turns it into [x, l1, l1] — the tree is no longer cubic and one leaf is orphaned')
    return True, '' if panics else 'no panic when the neighbour is missing'


def zero_divisors(f):
    """float divisions whose divisor is an integer quantity that can be 0 (a score / width cast to f64) must be dominated by a non-zero test.  [(text, ok)]"""
    out = []
    pm = hir.parent_map(f['hir'])
    for n in hir.nodes(f['hir']):
        if n.get('k') == 'Binary' and n['op'] == 'Div':
            d = hir.strip(n['r'])
            if d.get('k') == 'Cast' and hir.local(hir.strip(d['e'])) and 'usize' in (hir.strip(d['e']).get('ty') or ''):
                lid = hir.local(hir.strip(d['e']))[1]
                ok = False
                for c in paths.dominating_conds(n, pm):
                    if c[0] == 'cond':
                        e = hir.strip(c[1])
                        if e.get('k') == 'Binary' and hir.local(hir.strip(e['l'])) and hir.local(hir.strip(e['l']))[1] == lid and hir.lit_int(hir.strip(e['r'])) == 0:
                            if (e['op'] in ('Gt', 'Ne') and c[2]) or (e['op'] in ('Eq', 'Le') and not c[2]):
                                ok = True
                out.append((hir.pp(n)[:70], ok, hir.local(hir.strip(d['e']))[0]))
    return out


P4 = [(0, 1), (1, 2), (2, 3)]
GRAPHS_QUICK = [
    # (vertices, edges, unrefilled moves in a row, state cap, initial trees)
    (2, [(0, 1)], 3, None, None), (2, [], 3, None, None),
    (3, [(0, 1), (1, 2)], 2, None, None), (3, [], 1, None, None),
    (4, P4, 2, 400, None),
    (5, [(0, 1), (1, 2), (2, 3), (3, 4), (4, 0)], 1, 120, 2),
    # vertex names with holes (what every rewritten diagram has): the tree must be over the graph's vertices, not over 0..n-1
    ((0, 2, 3, 5), [(0, 2), (2, 3), (3, 5)], 1, 150, None), ((1, 4, 6), [(1, 4)], 2, None, None),
]
GRAPHS_THOROUGH = [
    ((0, 2, 3, 5), [(0, 2), (2, 3), (3, 5)], 2, 400, None), ((1, 4, 6), [(1, 4)], 2, None, None),
    (2, [(0, 1)], 3, None, None), (2, [], 3, None, None),
    (3, [(0, 1), (1, 2)], 3, None, None), (3, [], 2, None, None), (3, [(0, 1)], 2, None, None), (3, [(0, 1), (1, 2), (0, 2)], 2, None, None),
    (4, P4, 1, None, None),                                   # to the fixpoint: every layout of every tree on four leaves
    (4, P4, 3, 4000, None),
    (4, [(0, 1), (1, 2), (2, 3), (3, 0)], 2, 1500, None), (4, [(0, 1), (0, 2), (0, 3)], 2, 1500, None), (4, [], 2, 600, None),
    (4, [(0, 1), (2, 3)], 2, 1500, None), (4, [(0, 1), (0, 2), (0, 3), (1, 2), (1, 3), (2, 3)], 2, 600, None),
    (5, [(0, 1), (1, 2), (2, 3), (3, 4), (4, 0)], 2, 2500, 6), (5, [(0, 1), (1, 2), (2, 3), (3, 4)], 2, 2500, 6),
    (6, [(0, 3), (0, 4), (1, 3), (1, 5), (2, 4), (2, 5), (0, 1)], 1, 700, 2),
]
ANNEAL_QUICK = [
    # (vertices, edges, settings, initial trees, run cap)
    (4, P4, [{'iterations': 1}, {'iterations': 1, 'adaptive_cooling': False}], 2, None),
    (4, [], [{'iterations': 1}], 1, None),
    (3, [(0, 1)], [{'iterations': 1}, {'iterations': 0}], 2, None),
    (2, [(0, 1)], [{'iterations': 2}], None, None),
]
ANNEAL_THOROUGH = [
    (4, P4, [{'iterations': 1}, {'iterations': 1, 'adaptive_cooling': False}, {'iterations': 1, 'init_temp': 0.02}, {'iterations': 1, 'init_temp': 400.0},
             {'iterations': 1, 'cooling_rate': 0.001}], None, None),
    (4, P4, [{'iterations': 2}, {'iterations': 2, 'adaptive_cooling': False}], 4, 4000),
    (4, [], [{'iterations': 1}, {'iterations': 2}], 2, 3000),
    (4, [(0, 1), (1, 2), (2, 3), (3, 0)], [{'iterations': 1}], 6, None),
    (5, [(0, 1), (1, 2), (2, 3), (3, 4), (4, 0)], [{'iterations': 1}], 8, None),
    (3, [(0, 1)], [{'iterations': 2}, {'iterations': 0}], None, None), (3, [], [{'iterations': 2}], 2, None),
    (2, [(0, 1)], [{'iterations': 3}], None, None), (2, [], [{'iterations': 2}], None, None),
]
EV_CLAUSES = ('structure', 'no-panic', 'cache', 'width', 'valid-for-graph', 'moves-terminate', 'annealer-valid', 'annealer-width')


def ev_decomp(facts, tier, procs=8):
    """the property's clauses by bounded exhaustive exploration (qxlib/decompsem.py) -> ({clause: (ok, detail)}, totals, per-graph stats)"""
    res = dict((c, [True, '']) for c in EV_CLAUSES)
    per = []
    tot = {'states': 0, 'layouts': 0, 'transitions': 0, 'runs': 0, 'annealer_cases': 0, 'annealer_runs': 0, 'improved': 0, 'fixpoints': 0}
    for n, edges, raw, cap, inits in (GRAPHS_THOROUGH if tier == 'thorough' else GRAPHS_QUICK):
        g = ds.Graph(n, edges)
        r = ds.explore(facts, g, raw_limit=raw, max_states=cap, inits=inits, procs=procs)
        for c, (ok, d) in r['clauses'].items():
            if not ok and res[c][0]:
                res[c] = [False, d]
        st = r['stats']
        per.append({'graph': str(g), 'unrefilled_moves': raw, 'states': st['states'], 'layouts': st['layouts'], 'transitions': st['transitions'], 'runs': st['runs'],
                    'runs_cut_in_rejection_loops': st['cut'], 'fixpoint': st['complete']})
        for k in ('states', 'layouts', 'transitions', 'runs'):
            tot[k] += st[k]
        tot['fixpoints'] += 1 if st['complete'] else 0
    r = ds.explore_annealer(facts, ANNEAL_THOROUGH if tier == 'thorough' else ANNEAL_QUICK, procs=procs)
    for c, (ok, d) in r['clauses'].items():
        if not ok and res[c][0]:
            res[c] = [False, d]
    per.extend(r['per'])
    tot['annealer_cases'] += r['stats']['cases']
    tot['annealer_runs'] += r['stats']['runs']
    tot['improved'] += r['stats']['improved']
    return res, tot, per


def ev_controls(facts):
    """the oracle must flag (a) a node array that is not a cubic tree and (b) a poisoned cache entry, the latter through the analysed rankwidth itself"""
    g = ds.Graph(4, P4)
    stats = {'runs': 0, 'cut': 0}
    st = sorted(ds.initial_states(facts, g, stats).items(), key=lambda kv: kv[1])[0][0]
    nodes = list(st[0])
    k = [i for i, x in enumerate(nodes) if x[0] == 'I'][0]
    nodes[k] = ('I', (nodes[k][1][0], nodes[k][1][0], nodes[k][1][2]), None)
    broken = (tuple(nodes),) + st[1:]
    a = bool(ds.structure(broken, 4)) and not ds.structure(st, 4)
    ranks = ds.oracle_ranks(st, g)
    e0 = sorted(ranks)[0]
    poisoned = st[:3] + (frozenset([(e0, ranks[e0] + 2)]),)
    ex = ds.examine(facts, poisoned, g)
    ex0 = ds.examine(facts, st, g)
    b = (not ex['structure']) and tuple(ex['reported']) != tuple(ex['scratch']) and tuple(ex0['reported']) == tuple(ex0['scratch']) and ex0['scratch'][0] == ex0['oracle'][0]
    return a, b


def run(ck):
    facts = ck.facts
    ck.decided('D1 every swap_subtrees is dominated by invalidation of both removed edges and the edges between them (clearing loop over path(c1,c2), or the three explicit clears, or clear_ranks()); move_subtree by clear_ranks(); '
               'the surgery primitives are called only from the three move functions; every keyed access to the rank cache uses the canonical (min,max) key; the cache field is private',
               'D2 the annealer replaces its best tree only under width < best_width (updated alongside), initialises it from the starting tree, compares the width of the candidate it stores, and returns it',
               'D3 the two-distinct-indices idioms in swap_random_leaves and random_local_swap are proved distinct and in range (zone domain, all paths)')
    ck.decided('D4 the moves return early unless the tree is large enough for them (leaf swap: 3 leaves; local swap and subtree move: 6 nodes; a path of 4 nodes before move_subtree); replace_neighbor rewrites the first occurrence only; the annealer does not divide by an integer score that can be 0')
    ck.decided('D0 (evaluation, bounded) DecompTree and RankwidthAnnealer::run interpreted from their HIR on graphs with 2..5 vertices (thorough: ..6) over every outcome of every random draw: from every random '
               'initial decomposition, every sequence of moves and cache refills in the explored bound keeps the node array a cubic tree whose leaves are exactly the vertices, does not panic, and reports a '
               'rank-width and score equal to an independent from-scratch oracle; the annealer returns a valid tree no wider than its initial tree')
    ck.not_decided('graphs beyond the explored sizes as values (the shape rules D1-D4 are size-independent readings of the same code)', 'rejection loops beyond their first round (one retry path is followed)')
    evaluated = False
    try:
        res, tot, per = ev_decomp(facts, ck.tier)
        evaluated = all(ok for ok, _d in res.values())
        for cl in EV_CLAUSES:
            ok, d = res[cl]
            site = ck.site(TREE + '::swap_subtrees') if cl in ('structure', 'no-panic', 'valid-for-graph', 'moves-terminate') else \
                ck.site(TREE + '::compute_ranks') if cl in ('cache', 'width') else ck.site('rankwidth::annealer::RankwidthAnnealer::<R, G>::run')
            ck.ob('E3-decomp', cl, ok, site, d, sample=None)
        ck.floor('E3-decomp-states', tot['states'], 640 if ck.tier != 'thorough' else 9000)
        ck.floor('E3-decomp-annealer-cases', tot['annealer_cases'], 8 if ck.tier != 'thorough' else 40)
        ck.floor('E3-decomp-annealer-narrows', tot['improved'], 1)
        ck.note('decomposition trees: %d states (%d node-array layouts), %d transitions, %d interpreted runs; %d explorations reached their fixpoint; annealer: %d cases, %d runs, %d cases in which some run narrows the tree'
                % (tot['states'], tot['layouts'], tot['transitions'], tot['runs'], tot['fixpoints'], tot['annealer_cases'], tot['annealer_runs'], tot['improved']))
        for row in per:
            ck.note('E3-decomp ' + '; '.join('%s=%s' % kv for kv in row.items()))
        ca, cb = ev_controls(facts)
        ck.control('E3-decomp oracle flags a node array that is not a cubic tree', ca)
        ck.control('E3-decomp oracle flags a poisoned cache entry through the analysed rankwidth', cb)
    except minirust.NoEval as ex:
        ck.violation('E3-decomp', 'evaluation', ck.site(TREE + '::random_decomp'), 'the evaluator declined (%s: %s); the shape rules below decide what they can' % (type(ex).__name__, ex))
    if evaluated:
        why = 'the behaviour was decided by the bounded exhaustive evaluation E3-decomp in this run'
        ck.positive_only = dict(getattr(ck, 'positive_only', {}))
        for rule in ('R-PAIR-invalidate', 'R-GUARD-size', 'E3-distinct', 'R-EFFECT'):
            ck.positive_only[rule] = why
    nsw = 0
    for key in (TREE + '::swap_random_leaves', TREE + '::random_local_swap'):
        f = ck.fn(key)
        for i, (ok, node, why, how) in enumerate(swap_invalidation(f)):
            nsw += 1
            ck.ob('R-PAIR-invalidate', key + '/swap-%d' % i, ok, ck.site(key, node), why, sample={'call': hir.pp(node)[:70], 'justified_by': how})
    ck.floor('R-PAIR-invalidate', nsw, 2)
    mk = TREE + '::move_random_subtree'
    mv = move_invalidation(ck.fn(mk))
    for i, (ok, node, why) in enumerate(mv):
        ck.ob('R-PAIR-invalidate', mk + '/move-%d' % i, ok, ck.site(mk, node), why)
    ck.floor('R-PAIR-invalidate-move', len(mv), 1)
    # who may call the surgery primitives
    allowed = {TREE + '::swap_random_leaves', TREE + '::random_local_swap', TREE + '::move_random_subtree'}
    ncall = 0
    for key, f in facts['fns'].items():
        for c in hir.calls_to(f['hir'], {SWAP, MOVE}):
            ncall += 1
            ck.ob('R-WHO', '%s/calls/%s' % (key, hir.callee(c).rsplit('::', 1)[1]), key in allowed, ck.site(key, c),
                  'tree surgery `%s` called from %s, which is not one of the moves that invalidate the rank cache first' % (hir.callee(c).rsplit('::', 1)[1], key))
            if key not in allowed and key in facts['fns']:
                # a new caller must itself satisfy the invalidation rule
                pass
    ck.floor('R-WHO', ncall, 3)
    ru = rank_key_uses(facts)
    for i, (ok, key, c, why) in enumerate(ru):
        ck.ob3('R-KEY', '%s/%s-%d' % (key, c['name'], i), ok, ck.site(key, c), why, sample={'access': hir.pp(c)[:60]})
    ck.floor('R-KEY', len(ru), 4)
    # cache writes: a rank stored into the cache must be a computed rank or a rank that was present in the cache (never a default for a missing entry)
    nw = 0
    for key, f in facts['fns'].items():
        if not key.startswith(TREE + '::'):
            continue
        for c in hir.calls(f['hir']):
            is_set = hir.callee(c) == TREE + '::set_rank'
            is_ins = c.get('k') == 'MethodCall' and c['name'] == 'insert' and hir.place(hir.strip(c['recv'])) and hir.place(hir.strip(c['recv']))[2] == [('f', 'ranks')]
            if not (is_set or is_ins):
                continue
            if key == TREE + '::set_rank':
                continue      # the setter itself stores its argument
            nw += 1
            val = c['args'][1]
            from ..hfacts import provenance
            _prov, of_expr = provenance(f)
            srcs = of_expr(val)
            lets = hir.let_env(f)
            src = hir.resolve(val, lets)
            reads_cache = (TREE + '::rank') in srcs or any(x in srcs for x in ('.get', '.get_mut')) and 'ranks' in hir.pp_resolved(val, lets)
            defaults = any(x in srcs for x in ('.unwrap_or', '.unwrap_or_default', '.unwrap_or_else'))
            computed = any(x != TREE + '::rank' and x.endswith('::rank') for x in srcs)
            l = hir.local(val)
            present = False
            if l:
                for n in hir.nodes(f['hir']):
                    if n.get('k') == 'LetCond' and any(i == l[1] for _n, i in hir.bindings(n['pat'])) and (hir.pat_ctor(n['pat']) or '').endswith('Some'):
                        present = True
            if reads_cache and defaults:
                okv = False          # a default stands in for a missing entry and is stored
            elif computed and not reads_cache:
                okv = True           # a freshly computed matrix rank
            elif reads_cache and present and not defaults:
                okv = True           # taken from an entry that was present
            else:
                okv = None
            ck.ob3('R-CACHE-write', '%s/%s-%d' % (key, 'set_rank' if is_set else 'insert', nw), okv, ck.site(key, c),
                  'a rank is written into the cache that is neither freshly computed nor taken from a cache entry that was present: `%s` (source `%s`) — a default stored for a missing entry is never corrected, because compute_ranks only fills missing keys' % (hir.pp(c)[:50], hir.pp(src)[:50] if src is not None else hir.pp(val)[:30]))
    ck.floor('R-CACHE-write', nw, 1)
    flds = dict((n, v) for n, _t, v in (rencap.adt_fields(facts, TREE) or []))
    ck.ob('R-ENCAP', 'DecompTree/ranks-private', flds.get('ranks', '').startswith('Restricted'), TREE, 'the rank cache field is visible outside its module')
    # other writers of ranks
    for key, f in facts['fns'].items():
        for kind, pl, node in hir.mutations(f['hir']):
            p = hir.place(pl)
            if p and ('f', 'ranks') in p[2] and not key.startswith(TREE + '::'):
                ck.ob('R-ENCAP', 'ranks-writer/' + key, False, ck.site(key, node), 'rank cache mutated outside DecompTree')
    # D2
    rk = 'rankwidth::annealer::RankwidthAnnealer::<R, G>::run'
    f = ck.fn(rk)
    for name, ok, node, why in annealer_best(f):
        ck.ob('R-BEST', rk + '/' + name, ok, ck.site(rk, node), why)
    # D3
    nd = 0
    for key in (TREE + '::swap_random_leaves', TREE + '::random_local_swap'):
        for i, (node, ok, why) in enumerate(distinct_index_sites(ck.fn(key))):
            nd += 1
            ck.ob('E3-distinct', key + '/index-%d' % i, ok, ck.site(key, node), 'cannot prove the two random indices distinct and in range at `%s`: %s' % (hir.pp(node)[:40], why), sample={'site': hir.pp(node)[:50]})
    ck.floor('E3-distinct', nd, 2)
    # D4
    for key, ok, msg in size_preconditions(ck.facts):
        ck.ob('R-GUARD-size', key, ok, ck.site(key.rsplit('/', 1)[0]), msg)
    rk = 'rankwidth::decomp_tree::DecompNode::replace_neighbor'
    ok, msg = first_occurrence_only(ck.fn(rk))
    if ok is None:
        ck.violation('R-EFFECT', rk + '/first-occurrence-only', ck.site(rk), msg)
    else:
        ck.ob('R-EFFECT', rk + '/first-occurrence-only', ok, ck.site(rk), msg)
    ak = [k2 for k2 in ck.facts['fns'] if k2.startswith('rankwidth::annealer::RankwidthAnnealer') and k2.endswith('::run')]
    zd = zero_divisors(ck.fn(ak[0])) if ak else []
    for i, (text, ok, nm) in enumerate(zd):
        ck.ob('R-ZERO-GUARD', '%s/division-%d' % (ak[0], i), ok, ck.site(ak[0]),
              '`%s` divides by `%s`, an integer score that is 0 for an edgeless graph: 0/0 = NaN becomes the acceptance probability and random_bool panics' % (text, nm))
    ck.floor('R-ZERO-GUARD', len(zd), 1)
    # positive controls
    fx = fixture()
    ck.control('R-PAIR-invalidate flags a swap with a missing clear', any(not ok for ok, _n, _w, _h in swap_invalidation(fx['fns'][TREE + '::random_local_swap'])))
    ck.control('R-KEY flags a non-canonical cache key', any(not ok for ok, _k, _c, _w in rank_key_uses(fx)))
