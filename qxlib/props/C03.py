"""C03 — optimise and extract: gate set, mirrored row operations, checked rules and error propagation, CLI wiring, configuration table."""
import os
import sys

from .. import hir, paths, rpair, rtable
from ..controls import fixture

sys.path.insert(0, os.path.dirname(os.path.dirname(os.path.dirname(os.path.abspath(__file__)))))
from refs import gates as G  # noqa: E402

EX = "extract::Extractor::<'a, G>::"
GT = G.GTYPE


def emitted(facts, roots):
    """[(fn, kind or None, node)] for every Gate::new* reachable from the roots"""
    out = []
    reach = hir.reachable(facts, roots)
    for key in sorted(reach):
        f = facts['fns'][key]
        for c in hir.calls(f['hir']):
            cal = hir.callee(c) or ''
            if cal in ('gate::Gate::new', 'gate::Gate::new_with_phase', 'gate::Gate::new_with_phase_and_vars', 'gate::Gate::from_qasm_name'):
                out.append((key, rtable.variant_of(c['args'][0], GT) if cal != 'gate::Gate::from_qasm_name' else None, c))
            # struct literal Gate { t: .. }
        for n in hir.nodes(f['hir']):
            if n.get('k') == 'Struct' and n['ctor'].get('path') == 'gate::Gate' and not f.get('macro') and not key.startswith('gate::Gate::new') and key != '<gate::Gate as std::default::Default>::default':
                t = dict((a, b) for a, b in n['fields']).get('t')
                out.append((key, rtable.variant_of(t, GT) if t is not None else None, n))
    return out, reach


def proxy_consumed(f, sink_param='c'):
    """the circuit passed as proxy to gauss_with_proxy (or receiving mirrored add_row) is consumed into the output circuit, unconditionally"""
    st = hir.stmts_of(f['hir'])
    proxies = []
    for n in hir.nodes(f['hir']):
        if n.get('k') == 'Let' and n['pat'].get('k') == 'Bind' and n.get('init') is not None:
            i = hir.strip(n['init'])
            if i.get('k') == 'Call' and hir.callee(i) == 'circuit::Circuit::new':
                proxies.append((n['pat']['name'], n['pat']['id']))
    res = []
    sink = [p['id'] for p in f['params'] if p.get('k') == 'Bind' and p['name'] == sink_param]
    for name, pid in proxies:
        used = any(hir.local(x) and hir.local(x)[1] == pid for c in hir.calls(f['hir']) if c.get('k') == 'MethodCall' and c['name'] in ('gauss_with_proxy', 'add_row') for x in hir.nodes(c))
        consumed = False
        for s in st:       # top level only: on every path
            s0 = hir.strip(s)
            if s0.get('k') == 'MethodCall' and s0['name'] == 'update_frontier_circuit':
                a = s0['args']
                if hir.local(a[0]) and hir.local(a[0])[1] == pid and sink and hir.local(a[1]) and hir.local(a[1])[1] == sink[0]:
                    consumed = True
            if s0.get('k') == 'For':
                it = hir.place(hir.strip(s0['iter']))
                if it and it[0] == pid and it[2] == [('f', 'gates')] and hir.plain_field_loop(s0, name, 'gates'):
                    vid = [i for _n, i in hir.bindings(s0['pat'])]
                    pf = hir.unconditional_calls(hir.stmts_of(s0['body']), lambda c: c.get('k') == 'MethodCall' and c['name'] == 'push_front' and sink and hir.local(c['recv']) and hir.local(c['recv'])[1] == sink[0]
                                                 and hir.local(c['args'][0]) and hir.local(c['args'][0])[1] in vid)
                    consumed = len(pf) == 1
            # iterator form: proxy.gates.into_iter().for_each(|g| sink.push_front(g)) as a top-level statement
            if s0.get('k') == 'MethodCall' and s0['name'] == 'for_each' and s0['args'] and hir.strip(s0['args'][0]).get('k') == 'Closure':
                src = hir.strip(s0['recv'])
                while src.get('k') == 'MethodCall' and src['name'] in ('into_iter', 'iter', 'drain', 'cloned'):
                    src = hir.strip(src['recv'])
                pl = hir.place(src)
                cl = hir.strip(s0['args'][0])
                if pl and pl[0] == pid and pl[2] == [('f', 'gates')] and len(cl['params']) == 1:
                    vid = [i for _n, i in hir.bindings(cl['params'][0])]
                    b = hir.strip(cl['body'])
                    if b.get('k') == 'MethodCall' and b['name'] == 'push_front' and sink and hir.local(b['recv']) and hir.local(b['recv'])[1] == sink[0] and hir.local(b['args'][0]) and hir.local(b['args'][0])[1] in vid:
                        consumed = True
        if not consumed:
            # dropped for certain only when the proxy is never mentioned outside the calls that fill it; any other use is a shape this rule does not read
            mentions = [n for n in hir.nodes(f['hir']) if hir.local(n) and hir.local(n)[1] == pid]
            fill = [x for c in hir.calls(f['hir']) if c.get('k') == 'MethodCall' and c['name'] in ('gauss_with_proxy', 'add_row') for x in hir.nodes(c) if hir.local(x) and hir.local(x)[1] == pid]
            consumed = False if len(mentions) <= len(fill) else None
        res.append((name, used, consumed))
    return res


def lift_rule(f):
    """update_frontier_circuit: every gate of c1, in order, both qubit operands lifted through frontier[.].0, pushed to the front of c"""
    fors = hir.find(f['hir'], 'For')
    if len(fors) != 1:
        return {'shape': False}
    lp = fors[0]
    d = {'all gates in order': hir.plain_field_loop(lp, 'c1', 'gates')}
    lifts = {}
    for n in hir.nodes(lp['body']):
        if n.get('k') == 'Assign':
            l = hir.strip(n['l'])
            if l.get('k') == 'Index' and hir.strip(l['e']).get('k') == 'Field' and hir.strip(l['e'])['name'] == 'qs':
                pos = hir.lit_int(l['i'])
                r = hir.strip(n['r'])
                ok = r.get('k') == 'Field' and r['name'] == '0' and hir.strip(r['e']).get('k') == 'Index'
                if ok:
                    inner = hir.strip(r['e'])
                    base = hir.strip(inner['e'])
                    idx = hir.strip(inner['i'])
                    ok = base.get('k') == 'Field' and base['name'] == 'frontier' and idx.get('k') == 'Index' and hir.lit_int(idx['i']) == pos
                lifts[pos] = ok
    d['both operands lifted through the frontier'] = lifts.get(0) is True and lifts.get(1) is True
    pf = hir.unconditional_calls(hir.stmts_of(lp['body']), lambda c: c.get('k') == 'MethodCall' and c['name'] == 'push_front' and hir.local_name(c['recv']) == 'c')
    d['pushed to the front of the output circuit'] = len(pf) == 1
    return d


def argmin_rule(f):
    """single_sln_set: the row whose solution set is used is an extractable row whenever one exists.
    Recognised idiom: `let mut best = B; let mut idx = 0; for i in .. { if eligible(i) { let w = W(i); if w <op> best { idx = i; best = w } } }`.
    With a finite initial bound B that a candidate can attain (here: row_ops.cols() vs row_ops.row_weight(i) <= cols) the comparison must be
    non-strict, otherwise a candidate that attains the bound is never selected and the default index (possibly not a candidate) is used.
    Returns [(slot, ok, msg)]."""
    res = []
    sel = None
    pm = hir.parent_map(f['hir'])
    for n in hir.nodes(f['hir']):
        if n.get('k') == 'If' and not n.get('else'):
            c = hir.strip(n['cond'])
            if c.get('k') == 'Binary' and c['op'] in ('Lt', 'Le', 'Gt', 'Ge') and hir.local(c['l']) and hir.local(c['r']):
                st = [hir.strip(x) for x in hir.stmts_of(n['then'])]
                asg = {hir.local(x['l'])[1]: x for x in st if x.get('k') == 'Assign' and hir.local(x['l'])}
                ids = {hir.local(c['l'])[1], hir.local(c['r'])[1]}
                acc = [i for i in ids if i in asg]
                if len(acc) == 1 and len(asg) == 2 and len(st) == 2:
                    sel = (n, c, acc[0], asg)
    if sel is None:
        return [('shape', None, 'the smallest-solution-set selection (`if weight <= min_weight { row = i; min_weight = weight }`) was not found (not-established-by-recognised-idiom)')]
    n, c, acc, asg = sel
    w_id = (set([hir.local(c['l'])[1], hir.local(c['r'])[1]]) - {acc}).pop()
    idx_id = (set(asg) - {acc}).pop()
    # normalise to  w <op> acc
    op = c['op'] if hir.local(c['l'])[1] == w_id else {'Lt': 'Gt', 'Le': 'Ge', 'Gt': 'Lt', 'Ge': 'Le'}[c['op']]
    lets = {x['pat']['id']: x for x in hir.nodes(f['hir']) if x.get('k') == 'Let' and x['pat'].get('k') == 'Bind' and x.get('init') is not None}
    acc_init = hir.strip(lets[acc]['init']) if acc in lets else None
    w_init = hir.strip(lets[w_id]['init']) if w_id in lets else None
    res.append(('updates-both', hir.local(asg[acc]['r']) and hir.local(asg[acc]['r'])[1] == w_id and bool(hir.local(asg[idx_id]['r'])), 'the selection must record both the new minimum and its row'))
    sentinel = acc_init is not None and any(t in hir.pp(acc_init) for t in ('MAX', 'INFINITY', 'max_value'))
    attainable = False
    if acc_init is not None and w_init is not None and acc_init.get('k') == 'MethodCall' and acc_init['name'] in ('cols', 'num_cols') and w_init.get('k') == 'MethodCall' and w_init['name'] == 'row_weight':
        attainable = hir.same_expr(acc_init['recv'], w_init['recv'])      # a row of X has weight at most X.cols(), and can attain it
    if sentinel:
        ok = op in ('Lt', 'Le')
        why = ''
    elif attainable:
        ok = op == 'Le'
        why = ('the running minimum starts at `%s`, which a row can attain, and the comparison is strict (`%s`): a candidate row whose weight equals the bound is never selected, the row index keeps its default `%s` '
               '(which need not be an extractable row) and extraction fails with "No extractible vertex found"' % (hir.pp(acc_init)[:30], {'Lt': '<', 'Gt': '>', 'Ge': '>='}.get(op, op), hir.pp(lets[idx_id]['init'])[:10] if idx_id in lets else '?'))
    else:
        ok = None
        why = 'the initial value of the running minimum (`%s`) is neither a MAX sentinel nor the column count of the matrix whose row weights are compared (not-established-by-recognised-idiom)' % (hir.pp(acc_init)[:40] if acc_init is not None else '?')
    res.append(('first-candidate-is-selected', ok, why))
    # the selection is made among eligible rows only (dominated by the row_weight(i) == 1 test on the reduced matrix)
    elig = False
    for d in paths.dominating_conds(n, pm):
        if d[0] == 'cond':
            e = hir.strip(d[1])
            if e.get('k') == 'Binary' and e['op'] in ('Eq', 'Ne') and hir.lit_int(hir.strip(e['r'])) == 1 and hir.strip(e['l']).get('k') == 'MethodCall' and hir.strip(e['l'])['name'] == 'row_weight':
                if (e['op'] == 'Eq') == bool(d[2]):
                    elig = True
    res.append(('among-extractable-rows', elig, 'only rows of the reduced matrix with a single 1 (extractable vertices) may be selected'))
    # the selected row is the one whose support becomes the solution set
    used = [x for x in hir.nodes(f['hir']) if x.get('k') == 'Index' and hir.strip(x['i']).get('k') == 'Tup' and hir.local(hir.strip(x['i'])['items'][0]) and hir.local(hir.strip(x['i'])['items'][0])[1] == idx_id]
    same_m = bool(used) and w_init is not None and hir.same_expr(used[0]['e'], w_init['recv'])
    res.append(('solution-set-of-selected-row', same_m, 'the solution set must be the support of the selected row in the same row-operation matrix whose weights were compared'))
    return res


def _d0(ck, facts):
    """the statement itself on small circuits: translate, simplify with each strategy, extract with each extractor mode, compare the unitaries"""
    from .. import zxsem, minirust
    ck.decided('D0 (evaluation, small scope) for unitary circuits of one to three gates on two and three wires (Clifford+T, rational phases, CCZ / Toffoli, SWAP, parity-phase, XCX): Circuit::to_graph, then flow_simp / clifford_simp / full_simp, '
               'then Extractor::extract in the modes gflow (single solution set), gflow with simple Gauss, up to permutation, and the Gauss-free flow extractor after flow_simp — all interpreted from their HIR on both back ends, with '
               'bitgauss::BitMatrix replaced by a port of its gauss_helper that calls the interpreted RowOps impl back: extraction succeeds, the circuit is on the same qubits, uses only H / ZPhase / CZ / CNOT / SWAP, and implements '
               'the same unitary up to a non-zero scalar (up to permutation: after some permutation of its input qubits); exact arithmetic in Q(e^{i pi/4}) against the reference gate semantics of refs/gates.py')
    plan = [('vec_graph::Graph', 1), ('hash_graph::Graph', 9)] if ck.tier == 'thorough' else [('vec_graph::Graph', 29), ('hash_graph::Graph', 211)]
    try:
        tot, bad, declined = zxsem.run_extractions(facts, plan, procs=16 if ck.tier == 'thorough' else 8)
    except (minirust.NoEval, minirust.Proceed) as ex:
        ck.ob3('E3-extract', 'evaluation', None, ck.site(EX + 'extract'), 'the evaluator declined (%s: %s)' % (type(ex).__name__, ex))
        return
    by = {}
    for ty, combo, circ, _a, what in bad:
        by.setdefault(combo, []).append((ty, circ, what))
    combos = ['%s + %s' % (st.rsplit('::', 1)[-1], xt) for st in zxsem.STRATEGIES for xt in zxsem.EXTRACTORS if not (xt == 'flow' and st != 'simplify::flow_simp')]
    for combo in combos:
        fs = by.get(combo, [])
        for clause, pred in (('succeeds', lambda w: w.startswith('extraction fails')), ('no-panic', lambda w: w.startswith('panics')),
                             ('same-unitary-in-the-target-gate-set', lambda w: not w.startswith(('panics', 'extraction fails')))):
            hit = [f for f in fs if pred(f[2])]
            if hit:
                ty, circ, what = hit[0]
                ck.ob('E3-extract', '%s/%s' % (combo, clause), False, ck.site(EX + 'extract'), 'for the circuit on %s (%s): %s [%d such cases in this run]' % (circ, ty.split('::')[0], what[:600], len(hit)))
            else:
                ck.ob('E3-extract', '%s/%s' % (combo, clause), True, ck.site(EX + 'extract'), '', sample={'strategy + extractor': combo, 'circuits': tot['circuits']} if clause.startswith('same') else None)
    ck.floor('E3-extract', tot['cases'], 6000 if ck.tier == 'thorough' else 200)
    if tot['declined'] * 20 > max(1, tot['cases']):
        k0 = sorted(declined)[0]
        ck.ob3('E3-extract', 'declined', None, ck.site(EX + 'extract'), 'the evaluator declined %d cases, e.g. %s on %s' % (tot['declined'], k0, declined[k0]))
    ck.note('E3-extract: %d circuits, %d (strategy, extractor) cases decided, %d declined; hash sets are iterated in sorted order (the statement holds for every order)' % (tot['circuits'], tot['cases'], tot['declined']))


def _run_own(ck):
    facts = ck.facts
    ck.decided('D1 gate set: every gate constructed in code reachable from Extractor::extract (including the RowOps-for-Circuit callbacks) has a constant kind in {H, ZPhase, CZ, CNOT, SWAP} — this clause of the statement is decided completely',
               'D2 row operations are mirrored: each m.add_row(i,t) is followed by c1.add_row(i,t) with identical operands, the matrix written back is that same m, every proxy circuit is consumed into the output circuit on every path, update_frontier_circuit lifts both operands and keeps the order',
               'D3 extraction applies only checked rules and propagates every ExtractError',
               'D4 CLI wiring: the printed QASM is to_qasm() of the circuit extracted from the simplified graph of the parsed file',
               'D5 configuration table: flow/gflow/gflow_simple_gauss/up_to_perm select what they say; perm_to_cnots runs exactly when not up to permutation; method flags select the simplifier of their name')
    ck.not_decided('success and equivalence of extraction beyond the evaluated small scope (gflow of run-time graphs)', 'the real iteration order of FxHashSet', '.expect in the CLI')
    _d0(ck, facts)
    # ---- D1
    roots = [k for k in facts['fns'] if k.startswith(EX)] + [k for k in facts['fns'] if k.startswith('<circuit::Circuit as bitgauss::RowOps>')]
    ck.fn(EX + 'extract')
    em, reach = emitted(facts, roots)
    for i, (key, kind, node) in enumerate(em):
        ck.ob('R-EMIT', '%s/gate-%d' % (key, i), kind in G.EXTRACT_SET, ck.site(key, node),
              'extraction can emit %s, which is outside {H, ZPhase, CZ, CNOT, SWAP}' % (kind or 'a gate of non-constant kind `%s`' % hir.pp(node)[:50]), sample={'kind': kind, 'in': key})
    ck.floor('R-EMIT', len(em), 5)
    ck.ob('R-EMIT', 'rowops-impl-found', any(k.startswith('<circuit::Circuit as bitgauss::RowOps>') for k in reach), 'circuit.rs', 'anchor-missing: RowOps for Circuit not found')
    ar = facts['fns'].get('<circuit::Circuit as bitgauss::RowOps>::add_row')
    if ar:
        c = [x for x in hir.calls(ar['hir']) if hir.callee(x) == 'gate::Gate::new']
        items = hir.vec_literal(c[0]['args'][1]) if c else None
        ps = [p['name'] for p in ar['params'] if p.get('k') == 'Bind']
        ok = bool(items) and len(items) == 2 and [hir.local_name(i) for i in items] == [ps[2], ps[1]]
        ck.ob('R-TABLE-rowop', 'add_row/cnot-direction', ok, ck.site('<circuit::Circuit as bitgauss::RowOps>::add_row'), 'add_row(r0, r1) must be CNOT(control r1, target r0): adding row r0 into r1 of the parity matrix')
    # ---- D2
    sk = EX + 'single_sln_set'
    f = ck.fn(sk)
    mp = rpair.mirror_pairs(f, 'add_row', lambda r: hir.local_name(r) == 'm', lambda r: hir.local_name(r) == 'c1')
    for i, (ok, node, why) in enumerate(mp):
        ck.ob('R-PAIR-mirror', sk + '/add_row-%d' % i, ok, ck.site(sk, node), why)
    ck.floor('R-PAIR-mirror', len(mp), 1)
    for slot, ok, msg in argmin_rule(ck.fn(sk)):
        if ok is None:
            ck.violation('R-ARGMIN', sk + '/' + slot, ck.site(sk), msg)
        else:
            ck.ob('R-ARGMIN', sk + '/' + slot, ok, ck.site(sk), msg)
    ub = [c for c in hir.calls(f['hir']) if c.get('k') == 'MethodCall' and c['name'] == 'update_frontier_biadj']
    ck.ob('R-PAIR-mirror', sk + '/writes-back-same-matrix', len(ub) == 1 and hir.local_name(ub[0]['args'][1]) == 'm' and hir.local_name(ub[0]['args'][0]) == 'neighbors', ck.site(sk),
          'the matrix written back to the graph must be the one the mirrored row operations were applied to (m), with the neighbour list it was built from')
    np_ = 0
    for key in (EX + 'single_sln_set', EX + 'simple_gauss', EX + 'perm_to_cnots'):
        fk = ck.fn(key)
        for name, used, consumed in proxy_consumed(fk):
            np_ += 1
            ck.ob3('R-PAIR-proxy', '%s/%s' % (key, name), (None if consumed is None else bool(consumed)) if used else False, ck.site(key), 'the proxy circuit `%s` that records the row operations is %s' % (name, 'never consumed into the output circuit (on every path)' if used else 'not used as the proxy'))
    ck.floor('R-PAIR-proxy', np_, 3)
    sg = ck.fn(EX + 'simple_gauss')
    ub = [c for c in hir.calls(sg['hir']) if c.get('k') == 'MethodCall' and c['name'] == 'update_frontier_biadj']
    gp = [c for c in hir.calls(sg['hir']) if c.get('k') == 'MethodCall' and c['name'] == 'gauss_with_proxy']
    ok = len(ub) == 1 and len(gp) == 1 and hir.local_name(ub[0]['args'][1]) == hir.local_name(gp[0]['recv'])
    ck.ob('R-PAIR-mirror', EX + 'simple_gauss/writes-back-same-matrix', ok, ck.site(EX + 'simple_gauss'), 'the matrix written back must be the one that was reduced with the proxy')
    lk = EX + 'update_frontier_circuit'
    for name, ok in lift_rule(ck.fn(lk)).items():
        ck.ob('R-PAIR-proxy', lk + '/' + name, ok, ck.site(lk), 'update_frontier_circuit: %s does not hold' % name)
    bk = EX + 'update_frontier_biadj'
    fb = ck.fn(bk)
    adds = [c for c in hir.calls(fb['hir']) if c.get('k') == 'MethodCall' and c['name'] == 'add_edge_with_type']
    rems = [c for c in hir.calls(fb['hir']) if c.get('k') == 'MethodCall' and c['name'] == 'remove_edge']
    ok = len(adds) == 1 and len(rems) == 1 and (hir.def_path(adds[0]['args'][2]) or '').endswith('EType::H')
    ck.ob('R-PAIR-mirror', bk + '/sets-H-edges', ok, ck.site(bk), 'the frontier biadjacency must be written back as Hadamard edges (add where 1 and absent, remove where 0 and present)')
    # ---- D3
    calls = set()
    for key, fk in facts['fns'].items():
        if fk['file'].endswith('extract.rs'):
            for c in hir.calls(fk['hir']):
                cal = hir.callee(c) or ''
                if cal.startswith('basic_rules::'):
                    calls.add(cal)
    bad = sorted(c for c in calls if c.endswith('_unchecked') or c.split('::')[1].startswith('check_'))
    ck.ob('R-WHO', 'extract/only-checked-rules', bool(calls) and not bad, 'extract.rs', 'extraction applies unchecked rules: %s' % bad, sample={'rules': sorted(calls)})
    exf = facts['fns'][EX + 'extract']
    ntry = 0
    for c in hir.calls(exf['hir']):
        if c.get('k') == 'MethodCall' and c['name'] in ('prepare_frontier', 'fix_gadgets'):
            pm = hir.parent_map(exf['hir'])
            anc = [a for a, _s in hir.ancestors(c, pm)]
            ntry += 1
            ck.ob('R-ERR', EX + 'extract/%s-propagated' % c['name'], any(a.get('k') == 'Try' for a in anc[:3]), ck.site(EX + 'extract', c), 'the ExtractError of %s is not propagated with `?`' % c['name'])
    ck.floor('R-ERR', ntry, 2)
    for key, fk in facts['fns'].items():
        if not fk['file'].endswith(('extract.rs', 'cli/opt.rs')):
            continue
        for n in hir.nodes(fk['hir']):
            if n.get('k') == 'MethodCall' and n['name'] in ('ok', 'unwrap_or', 'unwrap_or_default', 'unwrap_or_else') and 'ExtractError' in (hir.strip(n['recv']).get('ty') or ''):
                ck.ob('R-ERR', key + '/dropped-extract-error', False, ck.site(key, n), 'an ExtractError is discarded with .%s()' % n['name'])
            if n.get('k') == 'Let' and n['pat'].get('k') == 'Wild' and n.get('init') is not None and 'ExtractError' in (n['init'].get('ty') or ''):
                ck.ob('R-ERR', key + '/dropped-extract-error', False, ck.site(key, n), 'an ExtractError is discarded with `let _ =`')
    # ---- D4
    rk = 'cli::opt::OptArgs::run'
    rf = ck.fn(rk)
    # name-independent data flow: what every local / expression is computed from (transitively)
    from .. import hfacts
    prov, of_expr = hfacts.provenance(rf)
    FROM_FILE, TO_GRAPH, SIMP, TO_QASM = 'circuit::Circuit::from_file', '.to_graph', 'cli::opt::OptMethod::simp', '.to_qasm'
    calls = hir.calls(rf['hir'])
    tg = [c for c in calls if c.get('k') == 'MethodCall' and c['name'] in ('to_graph', 'to_graph_with_options')]
    ok_parse = any(FROM_FILE in of_expr(c['recv']) and 'self.input' in of_expr(c['recv']) for c in tg) if tg else None
    simp = [c for c in calls if hir.callee(c) == SIMP]
    extr = [c for c in calls if c.get('k') == 'MethodCall' and c['name'] in ('to_circuit', 'extract')]
    qasm = [c for c in calls if c.get('k') == 'MethodCall' and c['name'] == 'to_qasm']
    # the graph local: the argument simp mutates; it must be computed by to_graph and be what the extractor consumes
    ok_graph = ok_simp = ok_qasm = None
    if simp and tg:
        garg = hir.local(hir.strip(simp[0]['args'][0])) if simp[0]['args'] else None
        ok_graph = bool(garg and TO_GRAPH in prov.get(garg[1], set()) and FROM_FILE in prov.get(garg[1], set()))
        ok_simp = len(simp) == 1 and 'self.method' in of_expr(simp[0]['recv']) and bool(garg)
        if extr and garg:
            uses_same_graph = any(hir.local(x) and hir.local(x)[1] == garg[1] for c in extr for x in hir.nodes(c) if x.get('k') == 'Path')
            # statement order: the simplifier runs before the extractor
            st_ = hir.stmts_of(rf['hir'])

            def top(n_):
                for i_, s_ in enumerate(st_):
                    if any(x is n_ for x in hir.nodes(s_)):
                        return i_
                return None
            order = top(simp[0]) is not None and all(top(c) is not None and top(simp[0]) < top(c) for c in extr)
            ok_simp = ok_simp and uses_same_graph and order
    if qasm:
        ok_qasm = any(('.to_circuit' in of_expr(c['recv']) or '.extract' in of_expr(c['recv'])) for c in qasm)
    printed = [a for t, a, _n in hir.format_calls(rf['hir']) if t == '{}\n' and a and TO_QASM in of_expr(a[0])]
    written = [c for c in calls if (hir.callee(c) or '').endswith('fs::write') and TO_QASM in of_expr(c['args'][1])]
    ok_out = (len(printed) == 1 and len(written) == 1) if (printed or written) else None
    for name, ok in (('parses-the-input-file', ok_parse), ('translates-the-parsed-circuit', ok_graph), ('simplifies-that-graph-with-the-selected-method', ok_simp),
                     ('extracts-from-the-simplified-graph-and-prints-to_qasm', ok_qasm), ('prints-or-writes-that-string', ok_out)):
        ck.ob3('R-PATH-cli', rk + '/' + name, ok, ck.site(rk), 'CLI wiring broken: %s' % name)
    # ---- D5
    for m, want in (('flow', 'no_gauss'), ('gflow', 'single_sln_set'), ('gflow_simple_gauss', 'simple_gauss')):
        fk = ck.fn(EX + m)
        refs = [hir.def_path(n) for n in hir.nodes(fk['hir']) if n.get('k') == 'Path' and (hir.def_path(n) or '').startswith("extract::Extractor") and (hir.def_path(n) or '').rsplit('::', 1)[1] in ('no_gauss', 'single_sln_set', 'simple_gauss')]
        ck.ob('R-TABLE-config', 'Extractor::' + m, [r.rsplit('::', 1)[1] for r in refs] == [want], ck.site(EX + m), '%s() selects %s, expected %s' % (m, refs, want))
    nw = ck.fn(EX + 'new')
    refs = [hir.def_path(n).rsplit('::', 1)[1] for n in hir.nodes(nw['hir']) if n.get('k') == 'Path' and (hir.def_path(n) or '').startswith('extract::Extractor') and (hir.def_path(n) or '').rsplit('::', 1)[1] in ('no_gauss', 'single_sln_set', 'simple_gauss')]
    upd = [e for n in hir.nodes(nw['hir']) if n.get('k') == 'Struct' for fn_, e in n['fields'] if fn_ == 'up_to_perm']
    ck.ob('R-TABLE-config', 'Extractor::new/defaults', refs == ['single_sln_set'] and len(upd) == 1 and hir.lit_bool(upd[0]) is False, ck.site(EX + 'new'), 'defaults must be single_sln_set and up_to_perm = false')
    up = ck.fn(EX + 'up_to_perm')
    asg = [n for n in hir.nodes(up['hir']) if n.get('k') == 'Assign']
    ck.ob('R-TABLE-config', 'Extractor::up_to_perm', len(asg) == 1 and hir.strip(asg[0]['l']).get('name') == 'up_to_perm' and hir.lit_bool(asg[0]['r']) is True, ck.site(EX + 'up_to_perm'), 'up_to_perm() must set the flag')
    wg = ck.fn(EX + 'with_gaussf')
    asg = [n for n in hir.nodes(wg['hir']) if n.get('k') == 'Assign']
    ps = [p for p in wg['params'] if p.get('k') == 'Bind']
    ck.ob('R-TABLE-config', 'Extractor::with_gaussf', len(asg) == 1 and hir.strip(asg[0]['l']).get('name') == 'gaussf' and hir.local(asg[0]['r']) and hir.local(asg[0]['r'])[1] == ps[1]['id'], ck.site(EX + 'with_gaussf'), 'with_gaussf must store its argument')
    pc = [c for c in hir.calls(exf['hir']) if c.get('k') == 'MethodCall' and c['name'] == 'perm_to_cnots']
    ok = False
    if len(pc) == 1:
        from .. import paths
        conds = [(hir.pp(x[1]), x[2]) for x in paths.dominating_conds(pc[0], hir.parent_map(exf['hir'])) if x[0] == 'cond']
        ok = ('self.up_to_perm', False) in conds and len([c for c in conds if 'up_to_perm' in c[0]]) == 1
    ck.ob('R-TABLE-config', 'extract/perm_to_cnots-iff-not-up-to-perm', ok, ck.site(EX + 'extract'), 'the final permutation must be turned into gates exactly when up_to_perm is false')
    gf = [n for n in hir.nodes(exf['hir']) if n.get('k') == 'Call' and hir.local_name(n['fun']) == 'gaussf']
    gl = [n for n in hir.nodes(exf['hir']) if n.get('k') == 'Let' and n['pat'].get('k') == 'Bind' and n['pat']['name'] == 'gaussf' and hir.strip(n['init']).get('name') == 'gaussf']
    ck.ob('R-TABLE-config', 'extract/uses-selected-gaussf', len(gf) == 1 and len(gl) == 1, ck.site(EX + 'extract'), 'extract must call the configured elimination strategy')
    sm = ck.fn('cli::opt::OptMethod::simp')
    tbl = []
    from .. import paths
    for p in paths.effect_paths(hir.stmts_of(sm['hir']), lambda n: n.get('k') == 'Call' and (hir.callee(n) or '').startswith('simplify::')):
        flags = [hir.pp(c[1]).replace('self.', '') for c in p.conds if c[0] == 'cond' and c[2]]
        tbl.append((flags[-1] if flags else None, [hir.callee(e).rsplit('::', 1)[1] for e in p.events]))
    want = [('full', ['full_simp']), ('flow', ['flow_simp']), ('clifford', ['clifford_simp']), (None, [])]
    # (round 2) decided by evaluating the dispatch for every combination of the three flags on a host that records which simplifier is called
    try:
        from .. import minirust as _mr
        import itertools
        bad = None
        for full, flow, cliff in itertools.product((True, False), repeat=3):
            log = []
            it = _mr.Interp(fuel=2000, facts=facts, inline=lambda c: False)
            it.host_call = lambda c, e, args, _l=log: (_l.append(c.rsplit('::', 1)[-1]), True)[1] if c.startswith('simplify::') else NotImplemented
            it.local_call('cli::opt::OptMethod::simp', [{'__struct__': 'cli::opt::OptMethod', 'full': full, 'flow': flow, 'clifford': cliff}, _mr.Obj('graph', {}, strict=False)])
            exp = ['full_simp'] if full else ['flow_simp'] if flow else ['clifford_simp'] if cliff else []
            if log != exp and bad is None:
                bad = 'with full=%s flow=%s clifford=%s the simplifiers called are %s, expected %s' % (full, flow, cliff, log, exp)
        ck.ob('R-TABLE-config', 'OptMethod::simp', bad is None, ck.site('cli::opt::OptMethod::simp'), 'the method flags must select full -> full_simp, else flow -> flow_simp, else clifford -> clifford_simp: %s' % bad)
    except (_mr.NoEval, _mr.Proceed, TypeError, KeyError, IndexError, AttributeError, ValueError) as ex:
        ck.ob3('R-TABLE-config', 'OptMethod::simp', True if tbl == want else None, ck.site('cli::opt::OptMethod::simp'), 'the dispatch is not evaluable (%s) and was read as %s, expected full->full_simp, flow->flow_simp, clifford->clifford_simp' % (ex, tbl), sample={'table': str(tbl)})
    df = ck.fn('<cli::opt::OptMethod as std::default::Default>::default')
    flds = {fn_: hir.lit_bool(e) for n in hir.nodes(df['hir']) if n.get('k') == 'Struct' for fn_, e in n['fields']}
    ck.ob('R-TABLE-config', 'OptMethod::default', flds == {'full': True, 'flow': False, 'clifford': False}, ck.site('<cli::opt::OptMethod as std::default::Default>::default'), 'the default method must be --full: %s' % flds)
    # positive controls
    fx = fixture()
    em2, _r = emitted(fx, ['extract::emit_bad'])
    ck.control('R-EMIT flags a gate outside the basic set', any(k not in G.EXTRACT_SET for _f, k, _n in em2))
    ck.control('R-ARGMIN flags a strict comparison against an attainable bound', any(ok is False for _s, ok, _m in argmin_rule(fixture()['fns']['extract::single_sln_set'])))


def run(ck, **kw):
    _run_own(ck)
    ck.include('C14', 'the optimiser reads its input with the QASM parser and prints the extracted circuit with to_qasm (gate.rs / circuit.rs are anchored here too): a printed text that does not parse back, or parses to another circuit, breaks the command-line clause')
    ck.include('C02', 'the optimiser first translates the circuit into a diagram (circuit.rs / gate.rs are anchored here too) and then simplifies it: a wrong translation or an unsound rule application in simplify.rs yields a circuit for a different unitary')
