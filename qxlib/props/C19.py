"""C19 — workload generators: reproducibility, setters, distinct-qubit idioms, structure."""
import re

from .. import hir, zone, rpair, rtable
from ..controls import fixture

BUILDERS = {
    'generate::RandomCircuitBuilder': ['build'],
    'generate::RandomHiddenShiftCircuitBuilder': ['build'],
    'generate::RandomPauliGadgetCircuitBuilder': ['build'],
    'random_graph::EquatorialStabilizerStateBuilder': ['build'],
}
GT = 'gate::GType'

NONDET = re.compile(r'(^|::)(rand::rng|rand::random|thread_rng|from_os_rng|from_entropy|from_rng|try_from_os_rng)$|SystemTime|Instant::now|std::env::|process::id|getrandom|RandomState::new')
RNG_METHOD = re.compile(r'^rand::(Rng|RngExt|RngCore|seq::\w+)::')


def _is_self_rng(e):
    p = hir.place(hir.strip(e))
    return bool(p and p[1] == 'self' and p[2][:1] == [('f', 'rng')])


def det_closure(facts, root):
    """local fns reachable from root"""
    return sorted(k for k in hir.reachable(facts, [root]) if k in facts['fns'])


def d1_det(facts, root):
    """[(ok, fn, node, why)] for every random draw / nondeterministic source in the closure of root"""
    res = []
    fns = det_closure(facts, root)
    draws = 0
    for key in fns:
        f = facts['fns'][key]
        for c in hir.calls(f['hir']):
            cal = hir.callee(c) or ''
            if NONDET.search(cal):
                res.append((False, key, c, 'nondeterministic source `%s` reachable from the seeded builder' % cal))
            elif RNG_METHOD.match(cal) and c.get('k') == 'MethodCall':
                draws += 1
                ok = _is_self_rng(c['recv'])
                res.append((ok, key, c, '' if ok else 'random draw `%s` whose receiver is not the builder\'s own rng field' % hir.pp(c)[:70]))
        for n in hir.nodes(f['hir']):
            # iteration over RandomState containers (order differs from run to run)
            if n.get('k') == 'For' and 'RandomState' in (hir.strip(n['iter']).get('ty') or ''):
                res.append((False, key, n, 'iteration over a RandomState hash container'))
            if n.get('k') == 'MethodCall' and n['name'] in ('iter', 'keys', 'values', 'into_iter', 'drain') and 'RandomState' in (hir.strip(n['recv']).get('ty') or ''):
                res.append((False, key, n, 'iteration over a RandomState hash container'))
    return res, draws, len(fns)


def seed_installs(f):
    """seed(&mut self, seed) { self.rng = StdRng::seed_from_u64(seed); self }"""
    ps = [p for p in f['params'] if p.get('k') == 'Bind']
    if len(ps) != 2:
        return False
    for n in hir.nodes(f['hir']):
        if n.get('k') == 'Assign' and _is_self_rng(n['l']):
            r = hir.strip(n['r'])
            if r.get('k') == 'Call' and (hir.callee(r) or '').endswith('seed_from_u64') and hir.local(r['args'][0]) and hir.local(r['args'][0])[1] == ps[1]['id']:
                return True
    return False


def setter_check(facts, adt, key, name):
    """setter `name(&mut self, v)`: writes self.name = v and no other field"""
    f = facts['fns'][key]
    ps = [p for p in f['params'] if p.get('k') == 'Bind']
    if len(ps) != 2:
        return None
    writes = []
    for kind, pl, node in hir.mutations(f['hir']):
        p = hir.place(pl)
        if p and p[1] == 'self' and p[2] and p[2][0][0] == 'f' and kind in ('assign', 'assignop'):
            rhs_param = node['k'] == 'Assign' and hir.local(node['r']) and hir.local(node['r'])[1] == ps[1]['id']
            writes.append((p[2][0][1], bool(rhs_param)))
    return writes


def distinct_sites(f):
    """Gate::new(KIND, vec![a, b, ..]) with >= 2 local qubit arguments: prove pairwise distinct and < N"""
    results = []

    def is_site(n):
        if n.get('k') == 'Call' and hir.callee(n) == 'gate::Gate::new':
            items = hir.vec_literal(n['args'][1])
            return bool(items and len(items) >= 2 and all(hir.local(i) for i in items))
        return False

    def on_site(n, d, env):
        items = hir.vec_literal(n['args'][1])
        ids = [hir.local(i)[1] for i in items]
        if not all(i in env for i in ids):
            results.append((n, None, 'qubit arguments are not tracked random draws'))
            return
        ok = True
        why = []
        for i in range(len(ids)):
            if not d.le(ids[i], 'N', -1):
                ok = False
                why.append('%s < N not proved' % env[ids[i]])
            if not d.le('ZERO', ids[i], 0):
                ok = False
                why.append('%s >= 0 not proved' % env[ids[i]])
            for j in range(i + 1, len(ids)):
                if not d.distinct(ids[i], ids[j]):
                    ok = False
                    why.append('%s != %s not proved' % (env[ids[i]], env[ids[j]]))
        results.append((n, ok, '; '.join(why)))
    ex = zone.Explorer(is_site, on_site)
    ex.run(hir.stmts_of(f['hir']))
    # one verdict per site: proved on every path that reaches it
    order = []
    by = {}
    for n, ok, why in results:
        if id(n) not in by:
            by[id(n)] = [n, True, [], 0]
            order.append(id(n))
        by[id(n)][3] += 1
        if not ok:
            by[id(n)][1] = False
            by[id(n)][2].append(why)
    sites = [n for n in hir.nodes(f['hir']) if is_site(n)]
    out = [(by[i][0], by[i][1], '; '.join(sorted(set(by[i][2]))) + ' (%d paths)' % by[i][3]) for i in order]
    for n in sites:
        if id(n) not in by:
            out.append((n, False, 'site not reached by the interpreter (not-established-by-recognised-idiom)'))
    return out


def pool_draw(f):
    """distinct qubits by drawing without replacement: pool = (0..self.qubits).collect(); q = pool.swap_remove(rng.random_range(0..pool.len()))"""
    out = []
    for c in hir.calls(f['hir']):
        if c.get('k') == 'MethodCall' and c['name'] in ('swap_remove', 'remove') and (hir.callee(c) or '').startswith('std::vec::Vec'):
            pool = hir.local(c['recv'])
            arg = hir.strip(c['args'][0])
            rb = hir.range_bounds(arg['args'][0]) if arg.get('k') == 'MethodCall' and arg['name'] == 'random_range' and arg['args'] else None
            ok = False
            if pool and rb and hir.lit_int(rb[0]) == 0 and not rb[2]:
                hi = hir.strip(rb[1])
                ok = hi.get('k') == 'MethodCall' and hi['name'] == 'len' and hir.local(hi['recv']) and hir.local(hi['recv'])[1] == pool[1]
            # pool initialised from a range 0..self.qubits and only mutated by this draw
            init_ok = False
            for n in hir.nodes(f['hir']):
                if n.get('k') == 'Let' and n['pat'].get('k') == 'Bind' and pool and n['pat']['id'] == pool[1] and n.get('init') is not None:
                    i = hir.strip(n['init'])
                    if i.get('k') == 'MethodCall' and i['name'] == 'collect':
                        r = hir.range_bounds(i['recv'])
                        if r and hir.lit_int(r[0]) == 0 and not r[2]:
                            h = hir.strip(r[1])
                            init_ok = h.get('k') == 'Field' and h['name'] == 'qubits'
            muts = [n for kind, pl, n in hir.mutations(f['hir']) if pool and hir.place(pl) and hir.place(pl)[0] == pool[1]]
            out.append((ok and init_ok and len(muts) == 1, c))
    return out


def hidden_shift_structure(f):
    res = []
    # final composition order
    seq = []
    for n in hir.nodes(f['hir']):
        if n.get('k') == 'AssignOp' and n['op'] == 'AddAssign' and hir.local_name(n['l']) == 'c':
            seq.append(hir.local_name(n['r']))
    res.append(('composition', seq == ['hs', 'oraclef', 'hs', 'shift_c', 'oracleg', 'hs'],
                'the hidden-shift circuit must be H; f; H; Z^shift; g; H — found %s' % seq))
    # shift.push(1) exactly where a Z is pushed
    ok = False
    for n in hir.nodes(f['hir']):
        if n.get('k') == 'If':
            tb = hir.stmts_of(n['then'])
            eb = hir.stmts_of(n['else']) if n.get('else') else []

            def pushes(st, recv):
                return [hir.strip(s) for s in st if hir.strip(s).get('k') == 'MethodCall' and hir.strip(s)['name'] == 'push' and hir.local_name(hir.strip(s)['recv']) == recv]
            t_shift, t_z = pushes(tb, 'shift'), pushes(tb, 'shift_c')
            e_shift, e_z = pushes(eb, 'shift'), pushes(eb, 'shift_c')
            if t_shift or e_shift:
                def zq(p):
                    g = hir.strip(p['args'][0])
                    if g.get('k') == 'Call' and hir.callee(g) == 'gate::Gate::new' and rtable.variant_of(g['args'][0], GT) == 'Z':
                        it = hir.vec_literal(g['args'][1])
                        return hir.local(it[0]) if it and len(it) == 1 else None
                    return None
                loopvar = None
                ok = (len(t_shift) == 1 and hir.lit_int(t_shift[0]['args'][0]) == 1 and len(t_z) == 1 and zq(t_z[0]) is not None
                      and len(e_shift) == 1 and hir.lit_int(e_shift[0]['args'][0]) == 0 and not e_z)
    res.append(('shift-pairing', ok, 'shift.push(1) must come with exactly one Z gate on that qubit, shift.push(0) with none'))
    # oracle g is a copy of f taken after the last random layer, both get the same CZ layer
    st = hir.stmts_of(f['hir'])
    clone_idx = None
    last_rand = -1
    for i, s in enumerate(st):
        if s.get('k') == 'Let' and s['pat'].get('k') == 'Bind' and s['pat']['name'] == 'oracleg':
            i0 = hir.strip(s['init'])
            if i0 is not None and hir.local_name(i0) == 'oraclef':
                clone_idx = i
        for c in hir.calls(s):
            if c.get('k') == 'MethodCall' and c['name'].startswith('random_') and hir.local_name(c['recv']) == 'self':
                last_rand = i
    res.append(('dual-oracle-copy', clone_idx is not None and clone_idx > last_rand, 'oracle g must be a copy of oracle f taken after f is complete'))
    mp = rpair.mirror_pairs(f, 'push', lambda r: hir.local_name(r) == 'oraclef', lambda r: hir.local_name(r) == 'oracleg')
    res.append(('cz-layer-mirrored', bool(mp) and all(ok for ok, _n, _w in mp), 'the coupling CZ layer must be pushed identically onto both oracles'))
    return res


def pauli_gadget_structure(f):
    res = []
    fors = hir.find(f['hir'], 'For')
    outer = fors[0] if fors else None
    if outer is None:
        return [('shape', False, 'no depth loop')]
    st = hir.stmts_of(outer['body'])
    tail = []
    for s in st:
        s0 = hir.strip(s)
        if s0.get('k') == 'AssignOp' and s0['op'] == 'AddAssign' and hir.local_name(s0['l']) == 'c':
            tail.append('c+=' + str(hir.local_name(s0['r'])))
        elif s0.get('k') == 'MethodCall' and s0['name'] == 'push' and hir.local_name(s0['recv']) == 'c':
            tail.append('c.push(' + str(hir.local_name(s0['args'][0])) + ')')
        elif s0.get('k') == 'MethodCall' and hir.callee(s0) == 'circuit::Circuit::adjoint':
            tail.append(str(hir.local_name(s0['recv'])) + '.adjoint()')
    res.append(('conjugation', tail == ['c+=lc', 'c.push(g)', 'lc.adjoint()', 'c+=lc'], 'a Pauli gadget must be lc; gadget; lc-adjoint — found %s' % tail))
    # gadget phase denominator
    ok = False
    kind_ok = False
    for n in hir.nodes(outer['body']):
        if n.get('k') == 'Assign' and hir.strip(n['l']).get('k') == 'Field' and hir.strip(n['l'])['name'] == 'phase' and hir.local_name(hir.strip(n['l'])['e']) == 'g':
            for c in hir.calls(n['r']):
                if (hir.callee(c) or '').endswith('::new') and len(c['args']) == 2:
                    den = [x for x in hir.nodes(c['args'][1]) if x.get('k') == 'Field' and x['name'] == 'phase_denom']
                    num = hir.local_name(hir.strip(c['args'][0])['e'] if hir.strip(c['args'][0]).get('k') == 'Cast' else c['args'][0])
                    ok = bool(den) and num == 'phase_num'
        if n.get('k') == 'Let' and n['pat'].get('k') == 'Bind' and n['pat']['name'] == 'g' and n.get('init') is not None:
            i = hir.strip(n['init'])
            if i.get('k') == 'Call' and hir.callee(i) == 'gate::Gate::new' and rtable.variant_of(i['args'][0], GT) == 'ParityPhase' and hir.local_name(i['args'][1]) == 'qs':
                kind_ok = True
    res.append(('gadget-phase', ok, 'the gadget phase must be phase_num / self.phase_denom'))
    res.append(('gadget-kind', kind_ok, 'the gadget must be a ParityPhase gate on the chosen qubits'))
    # weight within range: w drawn inclusively from min_weight..=max_weight and exactly w qubits drawn
    wok = False
    for n in hir.nodes(outer['body']):
        if n.get('k') == 'Let' and n['pat'].get('k') == 'Bind' and n['pat']['name'] == 'w' and n.get('init') is not None:
            i = hir.strip(n['init'])
            rb = hir.range_bounds(i['args'][0]) if i.get('k') == 'MethodCall' and i['name'] == 'random_range' else None
            if rb and rb[2]:
                lo, hi = hir.strip(rb[0]), hir.strip(rb[1])
                wok = lo.get('k') == 'Field' and lo['name'] == 'min_weight' and hi.get('k') == 'Field' and hi['name'] == 'max_weight'
    res.append(('weight-range', wok, 'the gadget weight must be drawn from min_weight..=max_weight inclusive'))
    return res


class _NoEval(Exception):
    pass


def _ev(e, d, env):
    """integer / boolean value of an expression over `self.phase_denom` (= d) and locals in env"""
    e = hir.strip(e)
    k = e.get('k')
    v = hir.lit_int(e)
    if v is not None:
        return v
    b = hir.lit_bool(e)
    if b is not None:
        return b
    if k == 'Field' and e['name'] == 'phase_denom':
        return d
    if k == 'Path':
        l = hir.local(e)
        if l and l[1] in env:
            return env[l[1]]
        raise _NoEval(hir.pp(e))
    if k == 'Cast':
        return _ev(e['e'], d, env)
    if k == 'Unary' and e['op'] == 'Not':
        return not _ev(e['e'], d, env)
    if k == 'Binary':
        op = e['op']
        if op == 'And':
            return bool(_ev(e['l'], d, env)) and bool(_ev(e['r'], d, env))
        if op == 'Or':
            return bool(_ev(e['l'], d, env)) or bool(_ev(e['r'], d, env))
        a, b2 = _ev(e['l'], d, env), _ev(e['r'], d, env)
        if op in ('Div', 'Rem') and b2 == 0:
            raise _NoEval('division by zero')
        if op == 'Sub' and a < b2:
            raise _NoEval('usize underflow')
        f = {'Add': lambda: a + b2, 'Sub': lambda: a - b2, 'Mul': lambda: a * b2, 'Div': lambda: a // b2, 'Rem': lambda: a % b2,
             'Eq': lambda: a == b2, 'Ne': lambda: a != b2, 'Lt': lambda: a < b2, 'Le': lambda: a <= b2, 'Gt': lambda: a > b2, 'Ge': lambda: a >= b2}.get(op)
        if f:
            return f()
    raise _NoEval(hir.pp(e)[:40])


def _run_arm(stmts, d, env):
    """straight-line `let mut p = ..; if c { p += 1 } ...; p` fragment on integers; returns the tail value"""
    env = dict(env)
    val = None
    for s in stmts:
        s0 = hir.strip(s) if s.get('k') != 'Let' else s
        k = s0.get('k')
        if k == 'Let' and s0['pat'].get('k') == 'Bind' and s0.get('init') is not None:
            env[s0['pat']['id']] = _ev(s0['init'], d, env)
        elif k == 'If' and not s0.get('else'):
            if _ev(s0['cond'], d, env):
                _run_arm(hir.stmts_of(s0['then']), d, env) if False else None
                for t in hir.stmts_of(s0['then']):
                    t0 = hir.strip(t)
                    if t0.get('k') == 'AssignOp' and t0['op'] in ('AddAssign', 'SubAssign') and hir.local(t0['l']):
                        inc = _ev(t0['r'], d, env)
                        env[hir.local(t0['l'])[1]] += inc if t0['op'] == 'AddAssign' else -inc
                    else:
                        raise _NoEval('statement in skip branch')
        elif k == 'AssignOp' and hir.local(s0['l']):
            inc = _ev(s0['r'], d, env)
            env[hir.local(s0['l'])[1]] += inc if s0['op'] == 'AddAssign' else -inc
        else:
            val = _ev(s0, d, env)
    return val


def nonclifford_phase_rule(f):
    """for every even denominator d >= 4 the gadget numerator is drawn from [1, 2d) without d/2, d, 3d/2 (phases 1/2, 1, 3/2).
    Decided by evaluating the guard and the draw-and-skip arm of `let phase_num = if .. {..} else {..}` on an integer interpreter for
    every even d in 4..=64 and every value the ranged draw can return.  Returns (ok, message, stats)."""
    target = None
    for n in hir.nodes(f['hir']):
        if n.get('k') == 'Let' and n['pat'].get('k') == 'Bind' and n['pat']['name'] == 'phase_num' and n.get('init') is not None:
            target = hir.strip(n['init'])
    if target is None or target.get('k') != 'If':
        return None, 'the numerator is no longer chosen by `let phase_num = if <even denominator> {..} else {..}` (not-established-by-recognised-idiom)', {}
    checked = 0
    try:
        for d in range(4, 65, 2):
            arms = []
            if _ev(target['cond'], d, {}):
                arms = hir.stmts_of(target['then'])
            elif target.get('else'):
                arms = hir.stmts_of(target['else'])
            # the draw: let [mut] p = self.rng.random_range(lo..hi)  (first statement or tail)
            draw = None
            for s in arms:
                i = hir.strip(s['init']) if s.get('k') == 'Let' and s.get('init') is not None else hir.strip(s)
                if i.get('k') == 'MethodCall' and i['name'] == 'random_range':
                    draw = (s, i)
                    break
            if draw is None:
                return None, 'no ranged draw found in the arm taken for denominator %d (not-established-by-recognised-idiom)' % d, {}
            rb = hir.range_bounds(draw[1]['args'][0])
            if not rb or rb[1] is None:
                return None, 'the draw is not over an explicit range', {}
            lo, hi = _ev(rb[0], d, {}), _ev(rb[1], d, {}) + (1 if rb[2] else 0)
            forbidden = {d // 2, d, 3 * d // 2}
            got = set()
            for p0 in range(lo, hi):
                if draw[0].get('k') == 'Let':
                    env = {draw[0]['pat']['id']: p0}
                    rest = arms[arms.index(draw[0]) + 1:]
                    val = _run_arm(rest, d, env) if rest else p0
                else:
                    val = p0
                got.add(val)
                checked += 1
            bad = sorted(got & forbidden)
            if bad:
                return False, ('for the even denominator %d the numerator can be %s: the gadget phase %s is a multiple of 1/2 (Clifford), '
                               'although the generator promises non-Clifford gadgets for even denominators >= 4' % (d, bad[0], '%d/%d' % (bad[0], d))), {}
            if not got or min(got) < 1 or max(got) >= 2 * d:
                return False, 'for denominator %d the numerator range is [%s, %s], outside [1, 2d)' % (d, min(got) if got else '-', max(got) if got else '-'), {}
    except _NoEval as ex:
        return None, 'the numerator computation is not evaluable on integers (%s) (not-established-by-recognised-idiom)' % ex, {}
    return True, '', {'denominators': '4..=64 even', 'draw_values_evaluated': checked}


def graph_state_structure(f):
    res = []
    # num_cz incremented exactly where an H edge is added
    pairs_ok = False
    for _b, st in hir.blocks(f['hir']):
        adds = [i for i, s in enumerate(st) if hir.strip(s).get('k') == 'MethodCall' and hir.strip(s)['name'] == 'add_edge_with_type']
        incs = [i for i, s in enumerate(st) if hir.strip(s).get('k') == 'AssignOp' and hir.local_name(hir.strip(s)['l']) == 'num_cz']
        if adds or incs:
            pairs_ok = len(adds) == 1 and len(incs) == 1 and hir.lit_int(hir.strip(st[incs[0]])['r']) == 1 and hir.strip(st[incs[0]])['op'] == 'AddAssign'
    res.append(('edge-count-pairing', pairs_ok, 'num_cz must be incremented by one exactly where a Hadamard edge is added'))
    sc = [c for c in hir.calls(f['hir']) if c.get('k') == 'MethodCall' and c['name'] == 'mul_sqrt2_pow']
    ok = False
    if len(sc) == 1:
        a = hir.strip(sc[0]['args'][0])
        if a.get('k') == 'Binary' and a['op'] == 'Sub' and hir.local_name(a['l']) == 'num_cz':
            r = hir.strip(a['r'])
            r = hir.strip(r['e']) if r.get('k') == 'Cast' else r
            ok = r.get('k') == 'Field' and r['name'] == 'qubits'
    res.append(('scalar-exponent', ok, 'the scalar must be sqrt2^(#H-edges - #qubits)'))
    return res


def run(ck):
    facts = ck.facts
    ck.decided('D1 reproducibility: every random draw reachable from a seeded builder uses the builder\'s own rng field, no other entropy/time/env source and no RandomState iteration is reachable, seed() installs seed_from_u64 of its argument',
               'D2 every field setter writes the field of its own name from its argument and nothing else; weight() writes both bounds',
               'D3 distinct qubit arguments: the 2-way and 3-way index-shifting idioms are proved pairwise distinct and in range by a zone-domain abstract interpretation; the Pauli-gadget qubits are drawn without replacement from 0..qubits',
               'D4 structure: hidden shift is H;f;H;Z^s;g;H with shift.push(1) exactly where a Z is pushed and g a late copy of f with the same CZ layer; Pauli gadgets are lc;ParityPhase(phase_num/phase_denom);lc-adjoint with weight from min..=max; graph-state scalar exponent is #H-edges - #qubits')
    ck.not_decided('the hidden-shift promise itself', 'unit norm of the stabiliser state', 'non-Clifford numerator selection arithmetic', 'gate-kind probabilities')
    # D1
    nb = 0
    for adt, ms in BUILDERS.items():
        for m in ms:
            key = '%s::%s' % (adt, m)
            ck.fn(key)
            res, draws, nfn = d1_det(facts, key)
            nb += 1
            for i, (ok, fn, node, why) in enumerate(res):
                ck.ob('R-DET', '%s/%s/%d' % (key, fn, i), ok, ck.site(fn, node), why, sample={'builder': key, 'in': fn, 'call': hir.pp(node)[:70]})
            ck.ob('R-DET', key + '/has-draws', draws >= 1, ck.site(key), 'no random draw found in the closure of %s (%d fns): the rule no longer sees the rng' % (key, nfn), sample={'draws': draws, 'closure': nfn})
        sk = adt + '::seed'
        ck.ob('R-DET', sk, seed_installs(ck.fn(sk)), ck.site(sk), 'seed() does not install StdRng::seed_from_u64(seed) into self.rng')
    ck.floor('R-DET-builders', nb, 4)
    # D2
    ns = 0
    for adt in list(BUILDERS) + ['generate::SurfaceCodeCircuitBuilder']:
        flds = [fl[0] for v in facts['adts'][adt]['variants'] for fl in v['fields']]
        for im in facts['impls']:
            if im['self'] == adt and im['trait'] is None:
                for name, key in im['methods']:
                    if name in flds and name != 'rng':
                        w = setter_check(facts, adt, key, name)
                        if w is None:
                            continue
                        ns += 1
                        ck.ob('R-SETTER', key, w == [(name, True)], ck.site(key), 'setter %s writes %s (must write exactly self.%s = argument)' % (name, w, name), sample={'writes': str(w)})
    ck.floor('R-SETTER', ns, 16)
    wk = 'generate::RandomPauliGadgetCircuitBuilder::weight'
    w = setter_check(facts, None, wk, 'weight')
    ck.fn(wk)
    ck.ob('R-SETTER', wk, sorted(w or []) == [('max_weight', True), ('min_weight', True)], ck.site(wk), 'weight() must set both min_weight and max_weight to its argument; writes %s' % w)
    # D3
    nd = 0
    for key in ('generate::RandomCircuitBuilder::build', 'generate::RandomHiddenShiftCircuitBuilder::random_clifford_layer', 'generate::RandomHiddenShiftCircuitBuilder::random_ccz'):
        f = ck.fn(key)
        for i, (node, ok, why) in enumerate(distinct_sites(f)):
            nd += 1
            ck.ob('E3-distinct', '%s/site-%d' % (key, i), bool(ok), ck.site(key, node), 'cannot prove the qubit arguments of `%s` pairwise distinct and in range: %s' % (hir.pp(node)[:60], why),
                  sample={'site': hir.pp(node)[:70], 'proved': bool(ok)})
    ck.floor('E3-distinct', nd, 4)
    pk = 'generate::RandomPauliGadgetCircuitBuilder::build'
    pd = pool_draw(ck.fn(pk))
    for i, (ok, node) in enumerate(pd):
        ck.ob('R-IDIOM-pool', '%s/draw-%d' % (pk, i), ok, ck.site(pk, node), 'qubits must be drawn without replacement from a pool initialised with 0..self.qubits')
    ck.floor('R-IDIOM-pool', len(pd), 1)
    # D4
    hk = 'generate::RandomHiddenShiftCircuitBuilder::build'
    for name, ok, why in hidden_shift_structure(ck.fn(hk)):
        ck.ob('R-STRUCT', hk + '/' + name, ok, ck.site(hk), why)
    ok, why, st = nonclifford_phase_rule(ck.fn(pk))
    if ok is None:
        ck.violation('R-RANGE-nonclifford', pk + '/numerator', ck.site(pk), why)
    else:
        ck.ob('R-RANGE-nonclifford', pk + '/numerator', ok, ck.site(pk), why, sample=st)
    for name, ok, why in pauli_gadget_structure(ck.fn(pk)):
        ck.ob('R-STRUCT', pk + '/' + name, ok, ck.site(pk), why)
    gk = 'random_graph::EquatorialStabilizerStateBuilder::build'
    for name, ok, why in graph_state_structure(ck.fn(gk)):
        ck.ob('R-STRUCT', gk + '/' + name, ok, ck.site(gk), why)
    # positive controls
    fx = fixture()
    r, _d, _n = d1_det(fx, 'generate::RandomCircuitBuilder::build')
    ck.control('R-DET flags a foreign random source', any(not ok for ok, _f, _n2, _w in r))
    ds = distinct_sites(fx['fns']['generate::RandomCircuitBuilder::build'])
    ck.control('E3-distinct refutes the `>` mutant of the index shift', any(ok is False for _n2, ok, _w in ds))
    ck.control('R-RANGE-nonclifford refutes a guard that lets even denominators through', nonclifford_phase_rule(fx['fns']['generate::RandomPauliGadgetCircuitBuilder::build'])[0] is False)
    ck.control('R-SETTER flags a setter writing another field', setter_check(fx, None, 'generate::RandomCircuitBuilder::depth', 'depth') != [('depth', True)])
