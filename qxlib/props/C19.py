"""C19 — workload generators: reproducibility, setters, distinct-qubit idioms, structure."""
import re

from fractions import Fraction as Fr

from .. import hir, zone, rpair, rtable, minirust, rngsem, circsem as cs
from ..controls import fixture

BUILDERS = {
    'generate::RandomCircuitBuilder': ['build'],
    'generate::RandomHiddenShiftCircuitBuilder': ['build'],
    'generate::RandomPauliGadgetCircuitBuilder': ['build'],
    'random_graph::EquatorialStabilizerStateBuilder': ['build'],
}
GT = 'gate::GType'

NONDET = re.compile(r'(^|::)(rand::rng|rand::random|thread_rng|from_os_rng|from_entropy|from_rng|try_from_os_rng)$|SystemTime|Instant::now|std::env::|process::id|getrandom|RandomState::new')
RNG_METHOD = re.compile(r'^rand::(Rng|RngExt|RngCore|seq::\w+)::')


def _is_self_rng(e):
    p = hir.place(hir.strip(e))
    return bool(p and p[1] == 'self' and p[2][:1] == [('f', 'rng')])


def det_closure(facts, root):
    """local fns reachable from root"""
    return sorted(k for k in hir.reachable(facts, [root]) if k in facts['fns'])


def d1_det(facts, root):
    """[(ok, fn, node, why)] for every random draw / nondeterministic source in the closure of root"""
    res = []
    fns = det_closure(facts, root)
    draws = 0
    for key in fns:
        f = facts['fns'][key]
        for c in hir.calls(f['hir']):
            cal = hir.callee(c) or ''
            if NONDET.search(cal):
                res.append((False, key, c, 'nondeterministic source `%s` reachable from the seeded builder' % cal))
            elif RNG_METHOD.match(cal) and c.get('k') == 'MethodCall':
                draws += 1
                ok = _is_self_rng(c['recv'])
                res.append((ok, key, c, '' if ok else 'random draw `%s` whose receiver is not the builder\'s own rng field' % hir.pp(c)[:70]))
        for n in hir.nodes(f['hir']):
            # iteration over RandomState containers (order differs from run to run)
            if n.get('k') == 'For' and 'RandomState' in (hir.strip(n['iter']).get('ty') or ''):
                res.append((False, key, n, 'iteration over a RandomState hash container'))
            if n.get('k') == 'MethodCall' and n['name'] in ('iter', 'keys', 'values', 'into_iter', 'drain') and 'RandomState' in (hir.strip(n['recv']).get('ty') or ''):
                res.append((False, key, n, 'iteration over a RandomState hash container'))
    return res, draws, len(fns)


def seed_installs(f):
    """seed(&mut self, seed) { self.rng = StdRng::seed_from_u64(seed); self }"""
    ps = [p for p in f['params'] if p.get('k') == 'Bind']
    if len(ps) != 2:
        return False
    for n in hir.nodes(f['hir']):
        if n.get('k') == 'Assign' and _is_self_rng(n['l']):
            r = hir.strip(n['r'])
            if r.get('k') == 'Call' and (hir.callee(r) or '').endswith('seed_from_u64') and hir.local(r['args'][0]) and hir.local(r['args'][0])[1] == ps[1]['id']:
                return True
    return False


def setter_check(facts, adt, key, name):
    """setter `name(&mut self, v)`: writes self.name = v and no other field"""
    f = facts['fns'][key]
    ps = [p for p in f['params'] if p.get('k') == 'Bind']
    if len(ps) != 2:
        return None
    writes = []
    for kind, pl, node in hir.mutations(f['hir']):
        p = hir.place(pl)
        if p and p[1] == 'self' and p[2] and p[2][0][0] == 'f' and kind in ('assign', 'assignop'):
            rhs_param = node['k'] == 'Assign' and hir.local(node['r']) and hir.local(node['r'])[1] == ps[1]['id']
            writes.append((p[2][0][1], bool(rhs_param)))
    return writes


def distinct_sites(f):
    """Gate::new(KIND, vec![a, b, ..]) with >= 2 local qubit arguments: prove pairwise distinct and < N"""
    results = []

    def is_site(n):
        if n.get('k') == 'Call' and hir.callee(n) == 'gate::Gate::new':
            items = hir.vec_literal(n['args'][1])
            return bool(items and len(items) >= 2 and all(hir.local(i) for i in items))
        return False

    def on_site(n, d, env):
        items = hir.vec_literal(n['args'][1])
        ids = [hir.local(i)[1] for i in items]
        if not all(i in env for i in ids):
            results.append((n, None, 'qubit arguments are not tracked random draws'))
            return
        ok = True
        why = []
        for i in range(len(ids)):
            if not d.le(ids[i], 'N', -1):
                ok = False
                why.append('%s < N not proved' % env[ids[i]])
            if not d.le('ZERO', ids[i], 0):
                ok = False
                why.append('%s >= 0 not proved' % env[ids[i]])
            for j in range(i + 1, len(ids)):
                if not d.distinct(ids[i], ids[j]):
                    ok = False
                    why.append('%s != %s not proved' % (env[ids[i]], env[ids[j]]))
        results.append((n, ok, '; '.join(why)))
    ex = zone.Explorer(is_site, on_site)
    ex.run(hir.stmts_of(f['hir']))
    # one verdict per site: proved on every path that reaches it
    order = []
    by = {}
    for n, ok, why in results:
        if id(n) not in by:
            by[id(n)] = [n, True, [], 0]
            order.append(id(n))
        by[id(n)][3] += 1
        if not ok:
            by[id(n)][1] = False
            by[id(n)][2].append(why)
    sites = [n for n in hir.nodes(f['hir']) if is_site(n)]
    out = [(by[i][0], by[i][1], '; '.join(sorted(set(by[i][2]))) + ' (%d paths)' % by[i][3]) for i in order]
    for n in sites:
        if id(n) not in by:
            out.append((n, False, 'site not reached by the interpreter (not-established-by-recognised-idiom)'))
    return out


def pool_draw(f):
    """distinct qubits by drawing without replacement: pool = (0..self.qubits).collect(); q = pool.swap_remove(rng.random_range(0..pool.len()))"""
    out = []
    for c in hir.calls(f['hir']):
        if c.get('k') == 'MethodCall' and c['name'] in ('swap_remove', 'remove') and (hir.callee(c) or '').startswith('std::vec::Vec'):
            pool = hir.local(c['recv'])
            arg = hir.strip(c['args'][0])
            rb = hir.range_bounds(arg['args'][0]) if arg.get('k') == 'MethodCall' and arg['name'] == 'random_range' and arg['args'] else None
            ok = False
            if pool and rb and hir.lit_int(rb[0]) == 0 and not rb[2]:
                hi = hir.strip(rb[1])
                ok = hi.get('k') == 'MethodCall' and hi['name'] == 'len' and hir.local(hi['recv']) and hir.local(hi['recv'])[1] == pool[1]
            # pool initialised from a range 0..self.qubits and only mutated by this draw
            init_ok = False
            for n in hir.nodes(f['hir']):
                if n.get('k') == 'Let' and n['pat'].get('k') == 'Bind' and pool and n['pat']['id'] == pool[1] and n.get('init') is not None:
                    i = hir.strip(n['init'])
                    if i.get('k') == 'MethodCall' and i['name'] == 'collect':
                        r = hir.range_bounds(i['recv'])
                        if r and hir.lit_int(r[0]) == 0 and not r[2]:
                            h = hir.strip(r[1])
                            init_ok = h.get('k') == 'Field' and h['name'] == 'qubits'
            muts = [n for kind, pl, n in hir.mutations(f['hir']) if pool and hir.place(pl) and hir.place(pl)[0] == pool[1]]
            out.append((ok and init_ok and len(muts) == 1, c))
    return out


def hidden_shift_structure(f):
    res = []
    # final composition order
    seq = []
    for n in hir.nodes(f['hir']):
        if n.get('k') == 'AssignOp' and n['op'] == 'AddAssign' and hir.local_name(n['l']) == 'c':
            seq.append(hir.local_name(n['r']))
    res.append(('composition', seq == ['hs', 'oraclef', 'hs', 'shift_c', 'oracleg', 'hs'],
                'the hidden-shift circuit must be H; f; H; Z^shift; g; H — found %s' % seq))
    # shift.push(1) exactly where a Z is pushed
    ok = False
    for n in hir.nodes(f['hir']):
        if n.get('k') == 'If':
            tb = hir.stmts_of(n['then'])
            eb = hir.stmts_of(n['else']) if n.get('else') else []

            def pushes(st, recv):
                return [hir.strip(s) for s in st if hir.strip(s).get('k') == 'MethodCall' and hir.strip(s)['name'] == 'push' and hir.local_name(hir.strip(s)['recv']) == recv]
            t_shift, t_z = pushes(tb, 'shift'), pushes(tb, 'shift_c')
            e_shift, e_z = pushes(eb, 'shift'), pushes(eb, 'shift_c')
            if t_shift or e_shift:
                def zq(p):
                    g = hir.strip(p['args'][0])
                    if g.get('k') == 'Call' and hir.callee(g) == 'gate::Gate::new' and rtable.variant_of(g['args'][0], GT) == 'Z':
                        it = hir.vec_literal(g['args'][1])
                        return hir.local(it[0]) if it and len(it) == 1 else None
                    return None
                loopvar = None
                ok = (len(t_shift) == 1 and hir.lit_int(t_shift[0]['args'][0]) == 1 and len(t_z) == 1 and zq(t_z[0]) is not None
                      and len(e_shift) == 1 and hir.lit_int(e_shift[0]['args'][0]) == 0 and not e_z)
    res.append(('shift-pairing', ok, 'shift.push(1) must come with exactly one Z gate on that qubit, shift.push(0) with none'))
    # oracle g is a copy of f taken after the last random layer, both get the same CZ layer
    st = hir.stmts_of(f['hir'])
    clone_idx = None
    last_rand = -1
    for i, s in enumerate(st):
        if s.get('k') == 'Let' and s['pat'].get('k') == 'Bind' and s['pat']['name'] == 'oracleg':
            i0 = hir.strip(s['init'])
            if i0 is not None and hir.local_name(i0) == 'oraclef':
                clone_idx = i
        for c in hir.calls(s):
            if c.get('k') == 'MethodCall' and c['name'].startswith('random_') and hir.local_name(c['recv']) == 'self':
                last_rand = i
    res.append(('dual-oracle-copy', clone_idx is not None and clone_idx > last_rand, 'oracle g must be a copy of oracle f taken after f is complete'))
    mp = rpair.mirror_pairs(f, 'push', lambda r: hir.local_name(r) == 'oraclef', lambda r: hir.local_name(r) == 'oracleg')
    res.append(('cz-layer-mirrored', bool(mp) and all(ok for ok, _n, _w in mp), 'the coupling CZ layer must be pushed identically onto both oracles'))
    return res


def pauli_gadget_structure(f):
    res = []
    fors = hir.find(f['hir'], 'For')
    outer = fors[0] if fors else None
    if outer is None:
        return [('shape', False, 'no depth loop')]
    st = hir.stmts_of(outer['body'])
    tail = []
    for s in st:
        s0 = hir.strip(s)
        if s0.get('k') == 'AssignOp' and s0['op'] == 'AddAssign' and hir.local_name(s0['l']) == 'c':
            tail.append('c+=' + str(hir.local_name(s0['r'])))
        elif s0.get('k') == 'MethodCall' and s0['name'] == 'push' and hir.local_name(s0['recv']) == 'c':
            tail.append('c.push(' + str(hir.local_name(s0['args'][0])) + ')')
        elif s0.get('k') == 'MethodCall' and hir.callee(s0) == 'circuit::Circuit::adjoint':
            tail.append(str(hir.local_name(s0['recv'])) + '.adjoint()')
    res.append(('conjugation', tail == ['c+=lc', 'c.push(g)', 'lc.adjoint()', 'c+=lc'], 'a Pauli gadget must be lc; gadget; lc-adjoint — found %s' % tail))
    # gadget phase denominator
    ok = False
    kind_ok = False
    for n in hir.nodes(outer['body']):
        if n.get('k') == 'Assign' and hir.strip(n['l']).get('k') == 'Field' and hir.strip(n['l'])['name'] == 'phase' and hir.local_name(hir.strip(n['l'])['e']) == 'g':
            for c in hir.calls(n['r']):
                if (hir.callee(c) or '').endswith('::new') and len(c['args']) == 2:
                    den = [x for x in hir.nodes(c['args'][1]) if x.get('k') == 'Field' and x['name'] == 'phase_denom']
                    num = hir.local_name(hir.strip(c['args'][0])['e'] if hir.strip(c['args'][0]).get('k') == 'Cast' else c['args'][0])
                    ok = bool(den) and num == 'phase_num'
        if n.get('k') == 'Let' and n['pat'].get('k') == 'Bind' and n['pat']['name'] == 'g' and n.get('init') is not None:
            i = hir.strip(n['init'])
            if i.get('k') == 'Call' and hir.callee(i) == 'gate::Gate::new' and rtable.variant_of(i['args'][0], GT) == 'ParityPhase' and hir.local_name(i['args'][1]) == 'qs':
                kind_ok = True
    res.append(('gadget-phase', ok, 'the gadget phase must be phase_num / self.phase_denom'))
    res.append(('gadget-kind', kind_ok, 'the gadget must be a ParityPhase gate on the chosen qubits'))
    # weight within range: w drawn inclusively from min_weight..=max_weight and exactly w qubits drawn
    wok = False
    for n in hir.nodes(outer['body']):
        if n.get('k') == 'Let' and n['pat'].get('k') == 'Bind' and n['pat']['name'] == 'w' and n.get('init') is not None:
            i = hir.strip(n['init'])
            rb = hir.range_bounds(i['args'][0]) if i.get('k') == 'MethodCall' and i['name'] == 'random_range' else None
            if rb and rb[2]:
                lo, hi = hir.strip(rb[0]), hir.strip(rb[1])
                wok = lo.get('k') == 'Field' and lo['name'] == 'min_weight' and hi.get('k') == 'Field' and hi['name'] == 'max_weight'
    res.append(('weight-range', wok, 'the gadget weight must be drawn from min_weight..=max_weight inclusive'))
    return res


class _NoEval(Exception):
    pass


def _ev(e, d, env):
    """integer / boolean value of an expression over `self.phase_denom` (= d) and locals in env"""
    e = hir.strip(e)
    k = e.get('k')
    v = hir.lit_int(e)
    if v is not None:
        return v
    b = hir.lit_bool(e)
    if b is not None:
        return b
    if k == 'Field' and e['name'] == 'phase_denom':
        return d
    if k == 'Path':
        l = hir.local(e)
        if l and l[1] in env:
            return env[l[1]]
        raise _NoEval(hir.pp(e))
    if k == 'Cast':
        return _ev(e['e'], d, env)
    if k == 'Unary' and e['op'] == 'Not':
        return not _ev(e['e'], d, env)
    if k == 'Binary':
        op = e['op']
        if op == 'And':
            return bool(_ev(e['l'], d, env)) and bool(_ev(e['r'], d, env))
        if op == 'Or':
            return bool(_ev(e['l'], d, env)) or bool(_ev(e['r'], d, env))
        a, b2 = _ev(e['l'], d, env), _ev(e['r'], d, env)
        if op in ('Div', 'Rem') and b2 == 0:
            raise _NoEval('division by zero')
        if op == 'Sub' and a < b2:
            raise _NoEval('usize underflow')
        f = {'Add': lambda: a + b2, 'Sub': lambda: a - b2, 'Mul': lambda: a * b2, 'Div': lambda: a // b2, 'Rem': lambda: a % b2,
             'Eq': lambda: a == b2, 'Ne': lambda: a != b2, 'Lt': lambda: a < b2, 'Le': lambda: a <= b2, 'Gt': lambda: a > b2, 'Ge': lambda: a >= b2}.get(op)
        if f:
            return f()
    raise _NoEval(hir.pp(e)[:40])


def _run_arm(stmts, d, env):
    """straight-line `let mut p = ..; if c { p += 1 } ...; p` fragment on integers; returns the tail value"""
    env = dict(env)
    val = None
    for s in stmts:
        s0 = hir.strip(s) if s.get('k') != 'Let' else s
        k = s0.get('k')
        if k == 'Let' and s0['pat'].get('k') == 'Bind' and s0.get('init') is not None:
            env[s0['pat']['id']] = _ev(s0['init'], d, env)
        elif k == 'If' and not s0.get('else'):
            if _ev(s0['cond'], d, env):
                _run_arm(hir.stmts_of(s0['then']), d, env) if False else None
                for t in hir.stmts_of(s0['then']):
                    t0 = hir.strip(t)
                    if t0.get('k') == 'AssignOp' and t0['op'] in ('AddAssign', 'SubAssign') and hir.local(t0['l']):
                        inc = _ev(t0['r'], d, env)
                        env[hir.local(t0['l'])[1]] += inc if t0['op'] == 'AddAssign' else -inc
                    else:
                        raise _NoEval('statement in skip branch')
        elif k == 'AssignOp' and hir.local(s0['l']):
            inc = _ev(s0['r'], d, env)
            env[hir.local(s0['l'])[1]] += inc if s0['op'] == 'AddAssign' else -inc
        else:
            val = _ev(s0, d, env)
    return val


def nonclifford_phase_rule(f):
    """for every even denominator d >= 4 the gadget numerator is drawn from [1, 2d) without d/2, d, 3d/2 (phases 1/2, 1, 3/2).
    Decided by evaluating the guard and the draw-and-skip arm of `let phase_num = if .. {..} else {..}` on an integer interpreter for
    every even d in 4..=64 and every value the ranged draw can return.  Returns (ok, message, stats)."""
    target = None
    for n in hir.nodes(f['hir']):
        if n.get('k') == 'Let' and n['pat'].get('k') == 'Bind' and n['pat']['name'] == 'phase_num' and n.get('init') is not None:
            target = hir.strip(n['init'])
    if target is None or target.get('k') != 'If':
        return None, 'the numerator is no longer chosen by `let phase_num = if <even denominator> {..} else {..}` (not-established-by-recognised-idiom)', {}
    checked = 0
    try:
        for d in range(4, 65, 2):
            arms = []
            if _ev(target['cond'], d, {}):
                arms = hir.stmts_of(target['then'])
            elif target.get('else'):
                arms = hir.stmts_of(target['else'])
            # the draw: let [mut] p = self.rng.random_range(lo..hi)  (first statement or tail)
            draw = None
            for s in arms:
                i = hir.strip(s['init']) if s.get('k') == 'Let' and s.get('init') is not None else hir.strip(s)
                if i.get('k') == 'MethodCall' and i['name'] == 'random_range':
                    draw = (s, i)
                    break
            if draw is None:
                return None, 'no ranged draw found in the arm taken for denominator %d (not-established-by-recognised-idiom)' % d, {}
            rb = hir.range_bounds(draw[1]['args'][0])
            if not rb or rb[1] is None:
                return None, 'the draw is not over an explicit range', {}
            lo, hi = _ev(rb[0], d, {}), _ev(rb[1], d, {}) + (1 if rb[2] else 0)
            forbidden = {d // 2, d, 3 * d // 2}
            got = set()
            for p0 in range(lo, hi):
                if draw[0].get('k') == 'Let':
                    env = {draw[0]['pat']['id']: p0}
                    rest = arms[arms.index(draw[0]) + 1:]
                    val = _run_arm(rest, d, env) if rest else p0
                else:
                    val = p0
                got.add(val)
                checked += 1
            bad = sorted(got & forbidden)
            if bad:
                return False, ('for the even denominator %d the numerator can be %s: the gadget phase %s is a multiple of 1/2 (Clifford), '
                               'although the generator promises non-Clifford gadgets for even denominators >= 4' % (d, bad[0], '%d/%d' % (bad[0], d))), {}
            if not got or min(got) < 1 or max(got) >= 2 * d:
                return False, 'for denominator %d the numerator range is [%s, %s], outside [1, 2d)' % (d, min(got) if got else '-', max(got) if got else '-'), {}
    except _NoEval as ex:
        return None, 'the numerator computation is not evaluable on integers (%s) (not-established-by-recognised-idiom)' % ex, {}
    return True, '', {'denominators': '4..=64 even', 'draw_values_evaluated': checked}


def graph_state_structure(f):
    res = []
    # num_cz incremented exactly where an H edge is added
    pairs_ok = False
    for _b, st in hir.blocks(f['hir']):
        adds = [i for i, s in enumerate(st) if hir.strip(s).get('k') == 'MethodCall' and hir.strip(s)['name'] == 'add_edge_with_type']
        incs = [i for i, s in enumerate(st) if hir.strip(s).get('k') == 'AssignOp' and hir.local_name(hir.strip(s)['l']) == 'num_cz']
        if adds or incs:
            pairs_ok = len(adds) == 1 and len(incs) == 1 and hir.lit_int(hir.strip(st[incs[0]])['r']) == 1 and hir.strip(st[incs[0]])['op'] == 'AddAssign'
    res.append(('edge-count-pairing', pairs_ok, 'num_cz must be incremented by one exactly where a Hadamard edge is added'))
    sc = [c for c in hir.calls(f['hir']) if c.get('k') == 'MethodCall' and c['name'] == 'mul_sqrt2_pow']
    ok = False
    if len(sc) == 1:
        a = hir.strip(sc[0]['args'][0])
        if a.get('k') == 'Binary' and a['op'] == 'Sub' and hir.local_name(a['l']) == 'num_cz':
            r = hir.strip(a['r'])
            r = hir.strip(r['e']) if r.get('k') == 'Cast' else r
            ok = r.get('k') == 'Field' and r['name'] == 'qubits'
    res.append(('scalar-exponent', ok, 'the scalar must be sqrt2^(#H-edges - #qubits)'))
    return res


# ---------------------------------------------------------------- generators explored over every outcome of their random draws (round 2)

_INLINE = ('gate::', 'circuit::', '<gate::', '<circuit::', 'generate::', '<generate::', 'random_graph::')


def _call(facts, key, args, host_call=None):
    it = cs.interp(facts, 400000)
    it.inline = lambda c: c.startswith(_INLINE)
    if host_call is not None:
        base = it.host_call

        def hc(c, e, a):
            r = host_call(c, e, a)
            return r if r is not NotImplemented else base(c, e, a)
        it.host_call = hc
    return it.local_call(key, args)


def _builder(name, rng, **kw):
    d = {'__struct__': name, 'rng': rng}
    d.update(kw)
    return d


def ev_random_circuit(facts):
    """RandomCircuitBuilder::build for qubits 2..4, depth 1 (and depth 2 on 2 qubits), over every draw: qubit arguments distinct and in range,
    at most `depth` gates, only kinds with non-zero probability, every such kind reachable.  -> {clause: (ok, detail)}, runs"""
    key = 'generate::RandomCircuitBuilder::build'
    res = {'distinct-in-range': [True, ''], 'depth': [True, ''], 'kinds': [True, '']}
    runs = 0
    probs_all = dict(p_cnot=0.25, p_cz=0.25, p_h=0.125, p_s=0.125, p_t=0.25)
    probs_some = dict(p_cnot=0.5, p_cz=0.0, p_h=0.25, p_s=0.0, p_t=0.25)
    kindof = {'p_cnot': 'CNOT', 'p_cz': 'CZ', 'p_h': 'HAD', 'p_s': 'S', 'p_t': 'T'}
    for probs, floats in ((probs_all, (0.125, 0.375, 0.5625, 0.6875, 0.875)), (probs_some, (0.25, 0.625, 0.875))):
        allowed = set(kindof[k] for k, v in probs.items() if v > 0)
        for qubits, depth in ((2, 1), (3, 1), (4, 1), (2, 2)):
            seen = set()
            rng = rngsem.Rng(floats=floats)
            b = _builder('generate::RandomCircuitBuilder', rng, qubits=qubits, depth=depth, **probs)
            for c, _tr in rngsem.explore(lambda: _call(facts, key, [b]), rng):
                runs += 1
                gs = [cs.out_gate(g) for g in c['gates']]
                for k, qs, _p in gs:
                    seen.add(k)
                    if (len(set(qs)) != len(qs) or any(not (0 <= q < qubits) for q in qs)) and res['distinct-in-range'][0]:
                        res['distinct-in-range'] = [False, 'on %d qubits some draw yields %s%s' % (qubits, k, list(qs))]
                    if k not in allowed and res['kinds'][0]:
                        res['kinds'] = [False, 'with probabilities %s some draw yields a %s gate' % (probs, k)]
                if (len(gs) != depth or c.get('nqubits') != qubits) and res['depth'][0]:
                    res['depth'] = [False, 'depth %d on %d qubits (probabilities summing to 1): some draw yields %d gates on %s qubits' % (depth, qubits, len(gs), c.get('nqubits'))]
            if seen != allowed and res['kinds'][0]:
                res['kinds'] = [False, 'with probabilities %s the kinds that occur over all draws are %s' % (probs, sorted(seen))]
    return dict((k, tuple(v)) for k, v in res.items()), runs


def ev_hidden_shift_parts(facts):
    """random_clifford_layer and random_ccz for 6, 8, 10 qubits over every draw: arguments pairwise distinct, on the first half, every
    combination reachable"""
    res = {}
    runs = 0
    for key, arity in (('generate::RandomHiddenShiftCircuitBuilder::random_ccz', 3), ('generate::RandomHiddenShiftCircuitBuilder::random_clifford_layer', 2)):
        ok, detail = True, ''
        for qubits in (6, 8, 10):
            half = qubits // 2
            rng = rngsem.Rng()
            b = _builder('generate::RandomHiddenShiftCircuitBuilder', rng, qubits=qubits, clifford_depth=1, n_ccz=1)
            seen = set()

            def run():
                c = cs.circuit(qubits, [])
                _call(facts, key, [b, c])
                return c
            for c, _tr in rngsem.explore(run, rng):
                runs += 1
                for k, qs, _p in [cs.out_gate(g) for g in c['gates']]:
                    if (len(set(qs)) != len(qs) or any(not (0 <= q < half) for q in qs)) and ok:
                        ok, detail = False, 'on %d qubits some draw yields %s%s (arguments must be distinct and below %d)' % (qubits, k, list(qs), half)
                    if len(qs) == arity:
                        seen.add(frozenset(qs))
            import math
            if ok and len(seen) != math.comb(half, arity):
                ok, detail = False, 'on %d qubits only %d of the %d %d-element argument sets are reachable' % (qubits, len(seen), math.comb(half, arity), arity)
        res[key] = (ok, detail)
    return res, runs


def _apply(state, n, kind, qs):
    """exact action of H / Z / CZ / CCZ on a state given as {basis index: amplitude} scaled by 1/sqrt2^h (h tracked by the caller)"""
    def bit(x, q):
        return (x >> (n - 1 - q)) & 1
    if kind in ('Z', 'CZ', 'CCZ'):
        return dict((x, -a if all(bit(x, q) for q in qs) else a) for x, a in state.items()), 0
    if kind == 'HAD':
        q = qs[0]
        out = {}
        for x, a in state.items():
            x0 = x & ~(1 << (n - 1 - q))
            x1 = x0 | (1 << (n - 1 - q))
            out[x0] = out.get(x0, 0) + a
            out[x1] = out.get(x1, 0) + (-a if bit(x, q) else a)
        return dict((x, a) for x, a in out.items() if a != 0), 1
    raise minirust.NoEval('gate %s in a hidden-shift circuit' % kind)


def ev_hidden_shift(facts, configs=((1, 0), (0, 1))):
    """RandomHiddenShiftCircuitBuilder::build on 6 qubits over every draw: the circuit is H;f;H;Z^shift;g;H with g = f moved to the second half,
    and — computed exactly with integer amplitudes — it maps |0..0> to |shift> with probability one.  -> {clause: (ok, detail)}, runs"""
    key = 'generate::RandomHiddenShiftCircuitBuilder::build'
    n = 6
    res = {'promise': [True, ''], 'shift-pairing': [True, ''], 'layers': [True, '']}
    runs = 0
    for cd, nc in configs:
        rng = rngsem.Rng()
        b = _builder('generate::RandomHiddenShiftCircuitBuilder', rng, qubits=n, clifford_depth=cd, n_ccz=nc)
        for r, _tr in rngsem.explore(lambda: _call(facts, key, [b]), rng):
            runs += 1
            if not (isinstance(r, tuple) and len(r) == 2):
                raise minirust.NoEval('build returned %r' % (r,))
            c, shift = r
            gs = [cs.out_gate(g) for g in c['gates']]
            shift = [int(x) for x in shift]
            had = [('HAD', (q,), 0) for q in range(n)]
            core = None
            if len(shift) == n and gs[:n] == had and gs[-n:] == had:
                mid = gs[n:-n]
                L = (len(mid) - n - sum(shift))
                if L >= 0 and L % 2 == 0:
                    L //= 2
                    f_, h2, zs, g_ = mid[:L], mid[L:L + n], mid[L + n:L + n + sum(shift)], mid[L + n + sum(shift):]
                    if h2 == had:
                        core = (f_, zs, g_)
            if core is None:
                if res['layers'][0]:
                    res['layers'] = [False, 'clifford_depth %d, n_ccz %d: some draw yields a circuit that is not H^n ; f ; H^n ; Z-layer ; g ; H^n with a %d-bit shift (gates: %s, shift %s)' % (cd, nc, n, [(k, q) for k, q, _p in gs][:14], shift)]
                continue
            f_, zs, g_ = core
            if [q for _k, (q,), _p in zs] != [q for q in range(n) if shift[q]] or any(k != 'Z' for k, _q, _p in zs):
                if res['shift-pairing'][0]:
                    res['shift-pairing'] = [False, 'the shift string is %s but the Z layer acts on %s' % (shift, [q for _k, q, _p in zs])]
            half = n // 2
            want_g = [(k, tuple(q + half for q in qs), p_) for k, qs, p_ in f_[:len(f_) - half]] + f_[len(f_) - half:]
            if (g_ != want_g or f_[len(f_) - half:] != [('CZ', (q, q + half), 0) for q in range(half)]) and res['layers'][0]:
                res['layers'] = [False, 'the second oracle is not the first one moved to the second half followed by the same CZ layer: f = %s, g = %s' % ([(k, q) for k, q, _p in f_], [(k, q) for k, q, _p in g_])]
            # the promise, exactly: amplitudes are integers over sqrt2^h
            st, h = {0: 1}, 0
            for k, qs, _p in gs:
                st, dh = _apply(st, n, k, qs)
                h += dh
            target = int(''.join(str(x) for x in shift), 2)
            if not (list(st.keys()) == [target] and abs(st[target]) ** 2 == 2 ** h) and res['promise'][0]:
                res['promise'] = [False, 'clifford_depth %d, n_ccz %d: for some draw the circuit does not map |0..0> to |shift> = |%s> with probability one (non-zero amplitudes on %s)' % (cd, nc, ''.join(str(x) for x in shift), sorted(st)[:4])]
    return dict((k, tuple(v)) for k, v in res.items()), runs


def ev_pauli_gadgets(facts):
    """RandomPauliGadgetCircuitBuilder::build over every draw for small parameters: each gadget is layer ; ParityPhase ; layer-adjoint on distinct
    qubits in range, weight within bounds (every weight reachable), phase = k/denominator, non-Clifford for even denominators >= 4"""
    key = 'generate::RandomPauliGadgetCircuitBuilder::build'
    res = {'gadget-structure': [True, ''], 'weight-range': [True, ''], 'distinct-in-range': [True, ''], 'phase': [True, '']}
    runs = 0
    for qubits, depth, lo, hi, denom in ((3, 1, 1, 2, 4), (3, 1, 3, 3, 3), (2, 2, 1, 1, 6), (4, 1, 2, 2, 8), (3, 1, 0, 1, 2)):
        rng = rngsem.Rng()
        b = _builder('generate::RandomPauliGadgetCircuitBuilder', rng, qubits=qubits, depth=depth, min_weight=lo, max_weight=hi, phase_denom=denom)
        weights = set()
        nums = set()
        for c, _tr in rngsem.explore(lambda: _call(facts, key, [b]), rng):
            runs += 1
            gs = [cs.out_gate(g) for g in c['gates']]
            pps = [i for i, g in enumerate(gs) if g[0] == 'ParityPhase']
            tag = 'qubits %d, depth %d, weights %d..=%d, denominator %d' % (qubits, depth, lo, hi, denom)
            if len(pps) != depth and res['gadget-structure'][0]:
                res['gadget-structure'] = [False, '%s: some draw yields %d parity-phase gates' % (tag, len(pps))]
                continue
            # split into gadgets: greedy — the layer before a parity phase has as many gates as the layer after it
            pos = 0
            for gi, i in enumerate(pps):
                nxt = pps[gi + 1] if gi + 1 < len(pps) else len(gs)
                k_, qs, ph = gs[i]
                before = gs[pos:i]
                m = len(before)
                after = gs[i + 1:i + 1 + m]
                pos = i + 1 + m
                weights.add(len(qs))
                if (len(set(qs)) != len(qs) or any(not (0 <= q < qubits) for q in qs)) and res['distinct-in-range'][0]:
                    res['distinct-in-range'] = [False, '%s: some draw yields a gadget on %s' % (tag, list(qs))]
                if not (lo <= len(qs) <= hi) and res['weight-range'][0]:
                    res['weight-range'] = [False, '%s: some draw yields a gadget of weight %d' % (tag, len(qs))]
                kd = ph * denom
                nums.add(ph)
                bad_ph = kd.denominator != 1 or ph == 0 or (denom >= 4 and denom % 2 == 0 and ph.denominator <= 2)
                if bad_ph and res['phase'][0]:
                    res['phase'] = [False, '%s: some draw yields the phase %s (must be a non-zero multiple of 1/%d%s)' % (tag, ph, denom, ', not a multiple of 1/2' if denom >= 4 and denom % 2 == 0 else '')]
                # the layer acts on the gadget's qubits only, one basis change per qubit, and is undone afterwards
                inv = []
                for k2, q2, p2 in reversed(before):
                    g2 = cs.gate(k2, q2, p2)
                    _call(facts, 'gate::Gate::adjoint', [g2])
                    inv.append(cs.out_gate(g2))
                okl = after == inv and all(len(q2) == 1 and q2[0] in qs and k2 in ('HAD', 'XPhase') for k2, q2, _p2 in before) and len(set(q2 for _k2, q2, _p2 in before)) == len(before)
                if not okl and res['gadget-structure'][0]:
                    res['gadget-structure'] = [False, '%s: some draw yields a gadget whose basis-change layer %s is not undone by %s (or acts outside the gadget)' % (tag, [(k2, q2) for k2, q2, _p in before], [(k2, q2) for k2, q2, _p in after])]
            if pos != len(gs) and res['gadget-structure'][0]:
                res['gadget-structure'] = [False, '%s: some draw yields gates outside the gadgets' % tag]
        if weights != set(range(lo, hi + 1)) and res['weight-range'][0]:
            res['weight-range'] = [False, 'weights %d..=%d on %d qubits: the weights that occur over all draws are %s' % (lo, hi, qubits, sorted(weights))]
        want_nums = set(Fr(k, denom) % 2 for k in range(1, 2 * denom) if not (denom >= 4 and denom % 2 == 0 and (Fr(k, denom) % 2).denominator <= 2))
        if nums != want_nums and res['phase'][0]:
            res['phase'] = [False, 'denominator %d: the phases that occur over all draws are %s, the admissible ones are %s' % (denom, sorted(str(x) for x in nums), sorted(str(x) for x in want_nums))]
    return dict((k, tuple(v)) for k, v in res.items()), runs


def ev_stabiliser_state(facts):
    """EquatorialStabilizerStateBuilder::build over every draw for 1..3 qubits on a tracing host graph: one Z spider per output joined by a plain edge,
    phases multiples of 1/2, Hadamard edges only between different spiders and at most one per pair, outputs in order,
    scalar sqrt2^(#Hadamard edges - qubits) (which makes the state a unit vector).  -> (ok, detail), runs"""
    key = 'random_graph::EquatorialStabilizerStateBuilder::build'
    ok, detail, runs = True, '', 0
    hedges_seen = {}
    for n in (1, 2, 3):
        rng = rngsem.Rng()
        b = _builder('random_graph::EquatorialStabilizerStateBuilder', rng, qubits=n)
        hedges_seen[n] = set()

        def run():
            log = {'v': {}, 'e': [], 'ph': {}, 'out': None, 'pow': []}
            sc = minirust.Obj('scalar', {'mul_sqrt2_pow': lambda a: log['pow'].append(a[0])}, strict=False)

            def addv(a):
                i = len(log['v'])
                log['v'][i] = a[0][1].rsplit('::', 1)[-1] if isinstance(a[0], tuple) else '?'
                return i
            g = minirust.Obj('graph', {
                'add_vertex': addv, 'add_edge': lambda a: log['e'].append((a[0], a[1], 'N')),
                'add_edge_with_type': lambda a: log['e'].append((a[0], a[1], a[2][1].rsplit('::', 1)[-1] if isinstance(a[2], tuple) else '?')),
                'set_phase': lambda a: log['ph'].__setitem__(a[0], a[1]), 'set_outputs': lambda a: log.__setitem__('out', list(a[0])),
                'scalar_mut': lambda a: sc, 'num_vertices': lambda a: len(log['v']),
            }, strict=False)

            def hc(c, e, a):
                if c.endswith('GraphLike::new') or (c.endswith('::new') and not e['args'] and (e.get('ty') or '') in ('G', 'impl GraphLike')):
                    return g
                return NotImplemented
            r = _call(facts, key, [b], host_call=hc)
            if r is not g:
                raise minirust.NoEval('build returned %r' % (r,))
            return log
        for log, _tr in rngsem.explore(run, rng):
            runs += 1
            outs = log['out'] or []
            spiders = [v for v, t in log['v'].items() if t == 'Z']
            plain = [(a, b_) for a, b_, t in log['e'] if t == 'N']
            had = [frozenset((a, b_)) for a, b_, t in log['e'] if t == 'H']
            good = (len(outs) == n and len(spiders) == n and all(log['v'].get(o) == 'B' for o in outs) and len(set(outs)) == n
                    and sorted(frozenset(p_) for p_ in plain) == sorted(frozenset((s_, o)) for s_, o in zip(sorted(spiders), outs)) if True else False)
            good = good and all(len(h) == 2 and h <= set(spiders) for h in had) and len(set(had)) == len(had) and len(log['e']) == len(plain) + len(had)
            good = good and all(isinstance(log['ph'].get(s_, cs.Ph(0)), cs.Ph) and log['ph'].get(s_, cs.Ph(0)).v.denominator <= 2 for s_ in spiders)
            good = good and log['pow'] == [len(had) - n]
            hedges_seen[n].add(frozenset(had))
            if not good and ok:
                ok, detail = False, ('on %d qubits some draw yields outputs %s, spiders %s, plain edges %s, Hadamard edges %s, phases %s and the scalar sqrt2^%s (must be one spider per output, simple Hadamard edges between spiders, '
                                     'scalar sqrt2^(#Hadamard edges - qubits))' % (n, outs, spiders, plain, [sorted(h) for h in had], {k: str(v.v) if isinstance(v, cs.Ph) else v for k, v in log['ph'].items()}, log['pow']))
        if ok and len(hedges_seen[n]) != 2 ** (n * (n - 1) // 2):
            ok, detail = False, 'on %d qubits only %d of the %d edge sets are reachable' % (n, len(hedges_seen[n]), 2 ** (n * (n - 1) // 2))
    return (ok, detail), runs


def run(ck):
    facts = ck.facts
    ck.decided('D1 reproducibility: every random draw reachable from a seeded builder uses the builder\'s own rng field, no other entropy/time/env source and no RandomState iteration is reachable, seed() installs seed_from_u64 of its argument',
               'D2 every field setter writes the field of its own name from its argument and nothing else; weight() writes both bounds',
               'D3 distinct qubit arguments: the 2-way and 3-way index-shifting idioms are proved pairwise distinct and in range by a zone-domain abstract interpretation; the Pauli-gadget qubits are drawn without replacement from 0..qubits',
               'D4 structure: hidden shift is H;f;H;Z^s;g;H with shift.push(1) exactly where a Z is pushed and g a late copy of f with the same CZ layer; Pauli gadgets are lc;ParityPhase(phase_num/phase_denom);lc-adjoint with weight from min..=max; graph-state scalar exponent is #H-edges - #qubits')
    ck.not_decided('the hidden-shift promise beyond 6 qubits and the explored depths', 'stabiliser states beyond 3 qubits', 'gate-kind probabilities (only which kinds can occur)', 'the bit stream of StdRng itself')
    # D1
    nb = 0
    for adt, ms in BUILDERS.items():
        for m in ms:
            key = '%s::%s' % (adt, m)
            ck.fn(key)
            res, draws, nfn = d1_det(facts, key)
            nb += 1
            for i, (ok, fn, node, why) in enumerate(res):
                ck.ob('R-DET', '%s/%s/%d' % (key, fn, i), ok, ck.site(fn, node), why, sample={'builder': key, 'in': fn, 'call': hir.pp(node)[:70]})
            ck.ob('R-DET', key + '/has-draws', draws >= 1, ck.site(key), 'no random draw found in the closure of %s (%d fns): the rule no longer sees the rng' % (key, nfn), sample={'draws': draws, 'closure': nfn})
        sk = adt + '::seed'
        ck.ob('R-DET', sk, seed_installs(ck.fn(sk)), ck.site(sk), 'seed() does not install StdRng::seed_from_u64(seed) into self.rng')
    ck.floor('R-DET-builders', nb, 4)
    # D2
    ns = 0
    for adt in list(BUILDERS) + ['generate::SurfaceCodeCircuitBuilder']:
        flds = [fl[0] for v in facts['adts'][adt]['variants'] for fl in v['fields']]
        for im in facts['impls']:
            if im['self'] == adt and im['trait'] is None:
                for name, key in im['methods']:
                    if name in flds and name != 'rng':
                        w = setter_check(facts, adt, key, name)
                        if w is None:
                            continue
                        ns += 1
                        ck.ob('R-SETTER', key, w == [(name, True)], ck.site(key), 'setter %s writes %s (must write exactly self.%s = argument)' % (name, w, name), sample={'writes': str(w)})
    ck.floor('R-SETTER', ns, 16)
    wk = 'generate::RandomPauliGadgetCircuitBuilder::weight'
    w = setter_check(facts, None, wk, 'weight')
    ck.fn(wk)
    ck.ob('R-SETTER', wk, sorted(w or []) == [('max_weight', True), ('min_weight', True)], ck.site(wk), 'weight() must set both min_weight and max_weight to its argument; writes %s' % w)
    # D3 / D4 (round 2): every generator is explored over all outcomes of its random draws for small parameters; the pre-round-2 readings
    # (zone-domain proof of the index-shift idiom, syntactic structure) remain as three-valued fallback when the evaluator declines
    total_runs = 0
    pk = 'generate::RandomPauliGadgetCircuitBuilder::build'
    hk = 'generate::RandomHiddenShiftCircuitBuilder::build'
    gk = 'random_graph::EquatorialStabilizerStateBuilder::build'
    rk = 'generate::RandomCircuitBuilder::build'
    for k_ in (pk, hk, gk, rk, 'generate::RandomHiddenShiftCircuitBuilder::random_clifford_layer', 'generate::RandomHiddenShiftCircuitBuilder::random_ccz'):
        ck.fn(k_)
    DECL = cs.DECLINED
    try:
        r_, n_ = ev_random_circuit(facts)
        total_runs += n_
        for name, (ok, detail) in sorted(r_.items()):
            ck.ob('E3-distinct' if name == 'distinct-in-range' else 'R-STRUCT', '%s/%s' % (rk, name), ok, ck.site(rk), 'RandomCircuitBuilder::build explored over %d outcomes of its draws: %s' % (n_, detail), sample={'outcomes': n_})
    except minirust.Panics as ex:
        ck.ob('E3-distinct', rk + '/no-panic', False, ck.site(rk), 'for admissible parameters some outcome of the random draws makes the generator panic: %s' % ex)
    except DECL as ex:
        ck.note('RandomCircuitBuilder::build: the evaluator declined (%s); zone-domain reading used' % ex)
        for i, (node, ok, why) in enumerate(distinct_sites(ck.fn(rk))):
            ck.ob3('E3-distinct', '%s/site-%d' % (rk, i), True if ok else None, ck.site(rk, node), 'build is not evaluable (%s) and the qubit arguments of `%s` could not be proved pairwise distinct and in range: %s' % (ex, hir.pp(node)[:60], why))
    try:
        r_, n_ = ev_hidden_shift_parts(facts)
        total_runs += n_
        for key, (ok, detail) in sorted(r_.items()):
            ck.ob('E3-distinct', '%s/distinct-in-range' % key, ok, ck.site(key), '%s explored over every outcome of its draws: %s' % (key.rsplit('::', 1)[1], detail))
    except minirust.Panics as ex:
        ck.ob('E3-distinct', hk + '/no-panic', False, ck.site(hk), 'for admissible parameters some outcome of the random draws makes the generator panic: %s' % ex)
    except DECL as ex:
        ck.note('hidden-shift layers: the evaluator declined (%s); zone-domain reading used' % ex)
        for key in ('generate::RandomHiddenShiftCircuitBuilder::random_clifford_layer', 'generate::RandomHiddenShiftCircuitBuilder::random_ccz'):
            for i, (node, ok, why) in enumerate(distinct_sites(ck.fn(key))):
                ck.ob3('E3-distinct', '%s/site-%d' % (key, i), True if ok else None, ck.site(key, node), '%s is not evaluable (%s) and the qubit arguments of `%s` could not be proved pairwise distinct and in range: %s' % (key, ex, hir.pp(node)[:60], why))
    try:
        r_, n_ = ev_hidden_shift(facts, ((1, 0), (0, 1)) if ck.tier != 'thorough' else ((1, 0), (0, 1), (2, 0), (1, 1)))
        total_runs += n_
        for name, (ok, detail) in sorted(r_.items()):
            ck.ob('R-STRUCT', '%s/%s' % (hk, name), ok, ck.site(hk), 'RandomHiddenShiftCircuitBuilder::build on 6 qubits explored over %d outcomes of its draws: %s' % (n_, detail), sample={'outcomes': n_})
    except minirust.Panics as ex:
        ck.ob('R-STRUCT', hk + '/no-panic', False, ck.site(hk), 'for admissible parameters some outcome of the random draws makes the generator panic: %s' % ex)
    except DECL as ex:
        ck.note('RandomHiddenShiftCircuitBuilder::build: the evaluator declined (%s); syntactic structure used' % ex)
        for name, ok, why in hidden_shift_structure(ck.fn(hk)):
            ck.ob3('R-STRUCT', hk + '/' + name, True if ok else None, ck.site(hk), 'build is not evaluable (%s) and not of the recognised structure: %s' % (ex, why))
    try:
        r_, n_ = ev_pauli_gadgets(facts)
        total_runs += n_
        for name, (ok, detail) in sorted(r_.items()):
            rule = {'distinct-in-range': 'R-IDIOM-pool', 'phase': 'R-RANGE-nonclifford'}.get(name, 'R-STRUCT')
            ck.ob(rule, '%s/%s' % (pk, name), ok, ck.site(pk), 'RandomPauliGadgetCircuitBuilder::build explored over %d outcomes of its draws: %s' % (n_, detail), sample={'outcomes': n_})
    except minirust.Panics as ex:
        ck.ob('R-STRUCT', pk + '/no-panic', False, ck.site(pk), 'for admissible parameters some outcome of the random draws makes the generator panic: %s' % ex)
    except DECL as ex:
        ck.note('RandomPauliGadgetCircuitBuilder::build: the evaluator declined (%s); syntactic readings used' % ex)
        pd = pool_draw(ck.fn(pk))
        for i, (ok, node) in enumerate(pd):
            ck.ob3('R-IDIOM-pool', '%s/draw-%d' % (pk, i), True if ok else None, ck.site(pk, node), 'build is not evaluable (%s) and the draw-without-replacement idiom was not recognised' % ex)
        ok, why, st = nonclifford_phase_rule(ck.fn(pk))
        ck.ob3('R-RANGE-nonclifford', pk + '/numerator', ok, ck.site(pk), why, sample=st)
        for name, ok, why in pauli_gadget_structure(ck.fn(pk)):
            ck.ob3('R-STRUCT', pk + '/' + name, True if ok else None, ck.site(pk), 'build is not evaluable (%s) and not of the recognised structure: %s' % (ex, why))
    try:
        (ok, detail), n_ = ev_stabiliser_state(facts)
        total_runs += n_
        ck.ob('R-STRUCT', gk + '/unit-vector-structure', ok, ck.site(gk), 'EquatorialStabilizerStateBuilder::build explored over %d outcomes of its draws: %s' % (n_, detail), sample={'outcomes': n_})
    except minirust.Panics as ex:
        ck.ob('R-STRUCT', gk + '/no-panic', False, ck.site(gk), 'for admissible parameters some outcome of the random draws makes the generator panic: %s' % ex)
    except DECL as ex:
        ck.note('EquatorialStabilizerStateBuilder::build: the evaluator declined (%s); syntactic structure used' % ex)
        for name, ok, why in graph_state_structure(ck.fn(gk)):
            ck.ob3('R-STRUCT', gk + '/' + name, True if ok else None, ck.site(gk), 'build is not evaluable (%s) and not of the recognised structure: %s' % (ex, why))
    ck.floor('E3-explored-outcomes', total_runs, 2000)
    ck.note('generators: %d outcomes of random draws explored' % total_runs)
    # positive controls
    fx = fixture()
    r, _d, _n = d1_det(fx, 'generate::RandomCircuitBuilder::build')
    ck.control('R-DET flags a foreign random source', any(not ok for ok, _f, _n2, _w in r))
    ds = distinct_sites(fx['fns']['generate::RandomCircuitBuilder::build'])
    ck.control('E3-distinct refutes the `>` mutant of the index shift', any(ok is False for _n2, ok, _w in ds))
    ck.control('R-RANGE-nonclifford refutes a guard that lets even denominators through', nonclifford_phase_rule(fx['fns']['generate::RandomPauliGadgetCircuitBuilder::build'])[0] is False)
    ck.control('R-SETTER flags a setter writing another field', setter_check(fx, None, 'generate::RandomCircuitBuilder::depth', 'depth') != [('depth', True)])
    ck.include('C15', 'the Pauli-gadget builder conjugates each parity-phase gate by a basis-change layer and ITS ADJOINT (Circuit::adjoint / Gate::adjoint): a wrong adjoint leaves the layer un-undone')
