"""C09 — both graph back ends agree and stay internally consistent (DESIGN 5/C09, Appendix A.3).

What is decided here is the *induction step* of the representation invariant, method by method and
path by path, through an abstraction map from each back end's concrete operations to neutral events:

  D1  counter / slot / half-edge pairing on every non-diverging path of every GraphLike method
  D2  total methods are total: bounds facts for direct slot indexing (length domain), no expect/unwrap
  D3  sibling agreement on neutral events, failure conditions, orientation filter, presence filter
  D4  pack is a consistent renaming (moves, vtab, payload, inputs, outputs, holes, truncation)
  D5  derive(Clone, PartialEq), owned data, private fields
  D6  accessor tables: coordinate overrides agree with the trait defaults; every field accessor of the
      trait and of both back ends touches the field of its name

Not decided: behaviour under whole histories (the induction "holds initially, preserved by every
method" is ours; its steps are D1/D2/D4), self-loops / parallel edges (invalid arguments).
"""
from .. import hir, paths
from ..controls import fixture

VEC = 'vec_graph::Graph'
HASH = 'hash_graph::Graph'
GL = 'graph::GraphLike'
COUNTERS = ('numv', 'nume')
REPR = {VEC: ('vdata', 'edata', 'holes', 'numv', 'nume'), HASH: ('vdata', 'edata', 'freshv', 'numv', 'nume')}


def mkey(be, m):
    return '<%s as %s>::%s' % (be, GL, m)


# ---------------------------------------------------------------- small syntactic helpers

def peel(e):
    """references / derefs / trivial blocks only (clone()/as_ref() are kept: they matter here)"""
    while e is not None:
        k = e.get('k')
        if k == 'AddrOf' or (k == 'Unary' and e['op'] == 'Deref'):
            e = e['e']
        elif k == 'Block' and not e['stmts'] and e['expr'] is not None:
            e = e['expr']
        else:
            break
    return e


def selffield(e):
    e = peel(e)
    if e is not None and e.get('k') == 'Field':
        b = peel(e['e'])
        if b is not None and b.get('k') == 'Path' and b['res'].get('k') == 'Local' and b['res'].get('name') == 'self':
            return e['name']
    return None


def is_some_of(e):
    a = hir.ctor_call(peel(e), 'Some') if peel(e) is not None and peel(e).get('k') == 'Call' else None
    return a[0] if a else None


def is_none(e):
    return hir.is_ctor_path(peel(e), 'None')


def is_empty_coll(e):
    e = peel(e)
    if hir.vec_literal(e) == []:
        return True
    if e.get('k') == 'Call' and not e['args']:
        c = hir.callee(e) or ''
        return c.endswith(('::new', 'Default>::default', '::default'))
    return False


def tuple_items(e):
    e = peel(e)
    return e['items'] if e is not None and e.get('k') == 'Tup' else None


def chain(e):
    """method chain from the root: (root expr, [MethodCall nodes outermost last])"""
    ms = []
    e = peel(e)
    while e is not None and e.get('k') == 'MethodCall':
        ms.append(e)
        e = peel(e['recv'])
    return e, list(reversed(ms))


class Ev:
    def __init__(self, kind, node, **kw):
        self.kind = kind
        self.node = node
        self.a = kw

    def __repr__(self):
        def t(x):
            return hir.pp(x)[:24] if isinstance(x, dict) else str(x)
        return '%s(%s)' % (self.kind, ', '.join('%s=%s' % (k, t(v)) for k, v in sorted(self.a.items()) if v is not None))


# ---------------------------------------------------------------- abstraction map

class Model:
    """per function: adjacency-borrow environment + classification of nodes into neutral events"""

    def __init__(self, facts, be, key, depth=0):
        self.facts = facts
        self.be = be
        self.key = key
        self.depth = depth
        self.f = facts['fns'][key]
        self.body = self.f['hir']
        self.nhd = {}      # local id -> source vertex expr of the adjacency it borrows
        self.vslot = {}    # local id -> vertex expr of the &mut Option<VData> / &mut VData it borrows
        self.alias = {}    # local id -> init expr (plain lets)
        self.adjcopy = {}  # local id -> vertex whose adjacency the local holds by value (taken / collected)
        self.posof = {}    # local id -> x   for  let h = self.holes.iter().position(|&h| h == x)
        self.move_rhs = set()   # `self.vdata[i].take()` on the right of `self.vdata[j] = ..`: part of a move, not an event of its own
        self._scan()
        self._cache = {}

    # --- environment
    def _edata_get(self, e):
        """`self.edata.get_mut(s)` / `.get(s)` (+ expect/unwrap) -> s"""
        root, ms = chain(e)
        if selffield(root) in ('edata', 'vdata') and ms and ms[0]['name'] in ('get_mut', 'get') and all(m['name'] in ('expect', 'unwrap', 'as_mut', 'as_ref', 'as_deref_mut') for m in ms[1:]):
            return selffield(root), peel(ms[0]['args'][0])
        if root is not None and root.get('k') == 'Index' and selffield(root['e']) in ('edata', 'vdata') and all(m['name'] in ('expect', 'unwrap', 'as_mut', 'as_ref') for m in ms):
            return selffield(root['e']), peel(root['i'])
        return None

    def _scan(self):
        for n in hir.nodes(self.body):
            k = n.get('k')
            if k == 'Assign':
                l = peel(n['l'])
                root, ms = chain(n['r'])
                if l.get('k') == 'Index' and selffield(l['e']) in ('vdata', 'edata') and root is not None and root.get('k') == 'Index' and selffield(root['e']) == selffield(l['e']) and [m['name'] for m in ms] == ['take']:
                    self.move_rhs.add(id(ms[0]))
            if k in ('Let', 'LetCond') and n.get('init') is not None:
                g = self._edata_get(n['init'])
                ids = [i for _nm, i in hir.bindings(n['pat'])]
                if g and len(ids) == 1:
                    (self.nhd if g[0] == 'edata' else self.vslot)[ids[0]] = g[1]
                elif k == 'Let' and n['pat'].get('k') == 'Bind':
                    self.alias[n['pat']['id']] = n['init']
                    i0 = peel(n['init'])
                    if i0.get('k') == 'MethodCall' and i0['name'] == 'len' and not i0['args'] and selffield(i0['recv']) in ('vdata', 'edata') and 'Mut' not in (n['pat'].get('mode') or ''):
                        _LEN_ALIAS[n['pat']['id']] = True
                    v = self._adj_value(n['init'])
                    if v is not None:
                        self.adjcopy[n['pat']['id']] = v
                    p = self._position_of(n['init'])
                    if p is not None:
                        self.posof[n['pat']['id']] = p
            if k == 'MethodCall' and n['name'] in ('map', 'and_then', 'for_each', 'inspect') and n['args']:
                cl = peel(n['args'][0])
                g = self._edata_get(n['recv'])
                if g and cl.get('k') == 'Closure':
                    ids = [i for p in cl['params'] for _nm, i in hir.bindings(p)]
                    if len(ids) == 1:
                        (self.nhd if g[0] == 'edata' else self.vslot)[ids[0]] = g[1]

    def _adj_value(self, e):
        """the adjacency of a vertex held by value: mem::take(&mut self.edata[v]).expect(..) | Vec::from_iter(self.neighbors(v)) | self.neighbor_vec(v) ..."""
        e0 = peel(e)
        root, ms = chain(e0)
        if root is not None and root.get('k') == 'Call' and (hir.callee(root) or '').endswith('mem::take') and all(m['name'] in ('expect', 'unwrap', 'unwrap_or_default') for m in ms):
            a = peel(root['args'][0])
            if a.get('k') == 'Index' and selffield(a['e']) == 'edata':
                return peel(a['i'])
        if root is not None and root.get('k') == 'Index' and selffield(root['e']) == 'edata' and ms and ms[0]['name'] == 'take':
            return peel(root['i'])
        for c in hir.calls(e0):
            if c.get('k') == 'MethodCall' and c['name'] in ('neighbors', 'neighbor_vec', 'incident_edges', 'incident_edge_vec') and hir.local(c['recv']) and hir.local(c['recv'])[0] == 'self':
                return peel(c['args'][0])
        return None

    def _position_of(self, e):
        root, ms = chain(e)
        if selffield(root) == 'holes' and [m['name'] for m in ms][-1:] == ['position'] and all(m['name'] in ('iter', 'position') for m in ms):
            cl = peel(ms[-1]['args'][0])
            if cl.get('k') == 'Closure':
                ids = [i for p in cl['params'] for _nm, i in hir.bindings(p)]
                b = peel(cl['body'])
                if b.get('k') == 'Binary' and b['op'] == 'Eq' and len(ids) == 1:
                    for x, y in ((b['l'], b['r']), (b['r'], b['l'])):
                        lx = hir.local(peel(x))
                        if lx and lx[1] == ids[0]:
                            return peel(y)
        return None

    def nhd_of(self, e):
        l = hir.local(peel(e))
        return self.nhd.get(l[1]) if l else None

    def index_target(self, e, nhd_src):
        """for `i` with  let i = Graph::index(nhd, t)[.expect()]  -> t"""
        e = peel(e)
        l = hir.local(e)
        seen = 0
        while l and l[1] in self.alias and seen < 4:
            e = peel(self.alias[l[1]])
            l = hir.local(e)
            seen += 1
        root, ms = chain(e)
        if root is not None and root.get('k') == 'Call' and (hir.callee(root) or '').endswith('vec_graph::Graph::index') and all(m['name'] in ('expect', 'unwrap') for m in ms):
            if self.nhd_of(root['args'][0]) is not None and hir.same_expr(self.nhd_of(root['args'][0]), nhd_src):
                return peel(root['args'][1])
        return None

    # --- classification
    def classify(self, n):
        r = self._cache.get(id(n))
        if r is None:
            r = self._classify(n) or []
            self._cache[id(n)] = r
        return r

    def _classify(self, n):
        k = n.get('k')
        if id(n) in self.move_rhs:
            return None
        if k == 'AssignOp':
            fld = selffield(n['l'])
            if fld in COUNTERS or fld == 'freshv':
                one = hir.lit_int(peel(n['r'])) == 1
                if n['op'] in ('AddAssign', 'SubAssign') and one:
                    if fld == 'freshv':
                        return [Ev('fresh+', n)] if n['op'] == 'AddAssign' else [Ev('unknown', n, what='freshv decremented')]
                    return [Ev(fld + ('+' if n['op'] == 'AddAssign' else '-'), n)]
                return [Ev('unknown', n, what='counter %s updated by something other than +-1' % fld)]
        if k == 'Assign':
            l = peel(n['l'])
            fld = selffield(l)
            if fld in COUNTERS:
                return [Ev('unknown', n, what='counter %s assigned' % fld)]
            if fld == 'freshv':
                return [Ev('fresh=', n, value=peel(n['r']))]
            if fld == 'holes':
                return [Ev('holes-clear', n)] if is_empty_coll(n['r']) else [Ev('unknown', n, what='holes assigned a non-empty value')]
            if fld in ('vdata', 'edata'):
                return [Ev('unknown', n, what='%s replaced wholesale' % fld)]
            if l.get('k') == 'Index' and selffield(l['e']) in ('vdata', 'edata'):
                fld = selffield(l['e'])
                x = peel(l['i'])
                s = is_some_of(n['r'])
                if s is not None:
                    if fld == 'edata' and not is_empty_coll(s):
                        return [Ev('unknown', n, what='new adjacency is not empty')]
                    return [Ev('slot+', n, fld=fld, at=x)]
                if is_none(n['r']):
                    return [Ev('slot-', n, fld=fld, at=x)]
                r = peel(n['r'])
                root, ms = chain(r)
                if root is not None and root.get('k') == 'Index' and selffield(root['e']) == fld and [m['name'] for m in ms] == ['take']:
                    return [Ev('move', n, fld=fld, to=x, frm=peel(root['i']))]
                return [Ev('unknown', n, what='%s[..] assigned an unrecognised value' % fld)]
            # nhd[i] = (t, ety)
            if l.get('k') == 'Index' and self.nhd_of(l['e']) is not None:
                s = self.nhd_of(l['e'])
                t = self.index_target(l['i'], s)
                it = tuple_items(n['r'])
                if t is not None and it and len(it) == 2 and hir.same_expr(it[0], t):
                    return [Ev('half=', n, s=s, t=t, ety=peel(it[1]))]
                return [Ev('unknown', n, what='adjacency entry overwritten with something other than (same neighbour, type) at the position of that neighbour')]
            # hash: *self.edata.get_mut(&s).expect().get_mut(&t).expect() = ety
            root, ms = chain(l)
            names = [m['name'] for m in ms]
            if selffield(root) == 'edata' and [x for x in names if x not in ('expect', 'unwrap')] == ['get_mut', 'get_mut']:
                gm = [m for m in ms if m['name'] == 'get_mut']
                return [Ev('half=', n, s=peel(gm[0]['args'][0]), t=peel(gm[1]['args'][0]), ety=peel(n['r']))]
            # writes through a borrowed vertex slot (vd: &mut Option<VData>) that change occupancy
            ll = hir.place(n['l'])
            if ll and ll[0] in self.vslot and not any(p[0] == 'f' for p in ll[2]):
                return [Ev('unknown', n, what='vertex slot overwritten through a borrow')]
        if k == 'Call':
            c = hir.callee(n) or ''
            if c.endswith('mem::take') or c.endswith('mem::replace') or c.endswith('mem::swap'):
                a = peel(n['args'][0])
                if a.get('k') == 'Index' and selffield(a['e']) in ('vdata', 'edata') and c.endswith('mem::take'):
                    return [Ev('slot-', n, fld=selffield(a['e']), at=peel(a['i']), taken=True)]
                if any(selffield(x) in REPR[self.be] for x in hir.nodes(n) if x.get('k') == 'Field'):
                    return [Ev('unknown', n, what='%s on a representation field' % c.split('::')[-1])]
        if k == 'MethodCall':
            nm = n['name']
            recv = peel(n['recv'])
            fld = selffield(recv)
            if n.get('callee', '').endswith('Graph::remove_half_edge') and hir.local(recv) and hir.local(recv)[0] == 'self':
                return [Ev('half-', n, s=peel(n['args'][0]), t=peel(n['args'][1]), via='remove_half_edge')]
            cal = n.get('callee') or ''
            if cal.startswith(self.be + '::') and cal in self.facts['fns'] and hir.local(recv) and hir.local(recv)[0] == 'self' and self.depth < 2:
                # a private helper of the back end: its events, with its parameters replaced by the arguments of this call
                hf = self.facts['fns'][cal]
                hm = Model(self.facts, self.be, cal, depth=self.depth + 1)
                hm.total = getattr(self, 'total', False)
                best = []
                for hp in paths.effect_paths(hir.stmts_of(hm.body), hm.is_event):
                    if hp.end == 'diverge':
                        continue
                    evs = [x for y in hp.events if not isinstance(y, tuple) for x in hm.classify(y)]
                    if any(isinstance(y, tuple) for y in hp.events):
                        evs.append(Ev('unknown', n, what='loop inside the helper %s' % cal.rsplit('::', 1)[1]))
                    if len(evs) > len(best):
                        best = evs
                prm = [p_['id'] for p_ in hf['params'] if p_.get('k') == 'Bind' and p_['name'] != 'self']
                sub = dict(zip(prm, n['args']))

                def subst(x):
                    if isinstance(x, dict):
                        l_ = hir.local(peel(x))
                        if l_ and l_[1] in sub:
                            return peel(sub[l_[1]])
                    return x
                out = [Ev(e_.kind, n, **{k_: subst(v_) for k_, v_ in e_.a.items()}) for e_ in best if e_.kind != 'borrow']
                if out:
                    return out
            if fld in ('vdata', 'edata'):
                if self.be == VEC:
                    if nm == 'push':
                        s = is_some_of(n['args'][0])
                        if s is not None:
                            if fld == 'edata' and not is_empty_coll(s):
                                return [Ev('unknown', n, what='new adjacency is not empty')]
                            return [Ev('slot+', n, fld=fld, at='len')]
                        if is_none(n['args'][0]):
                            return [Ev('nonepush', n, fld=fld)]
                        return [Ev('unknown', n, what='%s.push of an unrecognised value' % fld)]
                    if nm in ('truncate', 'resize', 'resize_with'):
                        return [Ev('len-op', n, fld=fld, op=nm, arg=peel(n['args'][0]))]
                    if nm in ('get_mut', 'iter_mut', 'as_mut_slice'):
                        return [Ev('borrow', n, fld=fld)]
                    if n.get('mutborrow') or recv.get('mutborrow') or peel(n['recv']).get('mutborrow'):
                        return [Ev('unknown', n, what='%s.%s' % (fld, nm))]
                else:
                    if nm == 'insert':
                        if fld == 'edata' and not is_empty_coll(n['args'][1]):
                            return [Ev('unknown', n, what='new adjacency is not empty')]
                        return [Ev('slot+', n, fld=fld, at=peel(n['args'][0]))]
                    if nm == 'remove':
                        return [Ev('slot-', n, fld=fld, at=peel(n['args'][0]))]
                    if nm in ('get_mut', 'iter_mut', 'values_mut'):
                        return [Ev('borrow', n, fld=fld)]
                    if nm in ('clear', 'retain', 'drain', 'entry', 'extend', 'remove_entry'):
                        return [Ev('unknown', n, what='%s.%s' % (fld, nm))]
            if fld == 'holes':
                if nm == 'push':
                    return [Ev('free', n, at=peel(n['args'][0]))]
                if nm == 'pop':
                    return [Ev('reuse', n, at='popped')]
                if nm in ('remove', 'swap_remove'):
                    a = peel(n['args'][0])
                    root, ms = chain(a)
                    l = hir.local(root)
                    if l and l[1] in self.posof and all(m['name'] in ('unwrap', 'expect') for m in ms):
                        return [Ev('reuse', n, at=self.posof[l[1]])]
                    return [Ev('unknown', n, what='holes.%s at an index not obtained from position(|h| h == v)' % nm)]
                if nm == 'clear':
                    return [Ev('holes-clear', n)]
                if nm in ('insert', 'retain', 'truncate', 'drain', 'extend', 'append', 'iter_mut', 'sort', 'dedup'):
                    return [Ev('unknown', n, what='holes.%s' % nm)]
            # adjacency operations through a borrowed adjacency
            s = self.nhd_of(recv)
            if s is not None:
                if self.be == VEC:
                    if nm == 'push':
                        it = tuple_items(n['args'][0])
                        if it and len(it) == 2:
                            return [Ev('half+', n, s=s, t=peel(it[0]), ety=peel(it[1]))]
                        return [Ev('unknown', n, what='adjacency push of a non-pair')]
                    if nm in ('swap_remove', 'remove'):
                        t = self.index_target(n['args'][0], s)
                        if t is not None:
                            return [Ev('half-', n, s=s, t=t)]
                        return [Ev('unknown', n, what='adjacency %s at an index not obtained from Graph::index(nhd, t)' % nm)]
                    if nm in ('clear', 'truncate', 'retain', 'insert', 'pop', 'drain', 'extend', 'dedup', 'sort', 'iter_mut'):
                        return [Ev('unknown', n, what='adjacency %s' % nm)]
                else:
                    if nm == 'insert':
                        return [Ev('half+', n, s=s, t=peel(n['args'][0]), ety=peel(n['args'][1]))]
                    if nm == 'remove':
                        return [Ev('half-', n, s=s, t=peel(n['args'][0]))]
                    if nm in ('clear', 'retain', 'drain', 'extend', 'entry', 'iter_mut', 'values_mut', 'get_mut'):
                        return [Ev('unknown', n, what='adjacency %s' % nm)]
            # hash: self.edata.get_mut(&s).expect(..).insert(t, ety) / .remove(&t)
            g = self._edata_get(n['recv'])
            mutrecv = bool(n['recv'].get('mutborrow') or peel(n['recv']).get('mutborrow'))
            if g and g[0] == 'edata' and fld is None:
                if self.be == HASH and nm == 'insert':
                    return [Ev('half+', n, s=g[1], t=peel(n['args'][0]), ety=peel(n['args'][1]))]
                if self.be == HASH and nm == 'remove':
                    return [Ev('half-', n, s=g[1], t=peel(n['args'][0]))]
                if mutrecv and nm not in ('expect', 'unwrap', 'get_mut', 'as_mut', 'map', 'and_then', 'iter', 'len', 'get', 'keys', 'values', 'contains_key', 'is_some', 'is_none'):
                    return [Ev('unknown', n, what='adjacency of `%s` updated by .%s()' % (_t(g[1]), nm))]
            if g and g[0] == 'vdata' and fld is None and self.be == VEC and nm in ('take', 'insert', 'replace', 'get_or_insert', 'get_or_insert_with', 'get_or_insert_default'):
                return [Ev('unknown', n, what='occupancy of slot `%s` changed by .%s() through a borrow' % (_t(g[1]), nm))]
            lv = hir.local(recv)
            if lv and lv[1] in self.vslot and self.be == VEC and nm in ('take', 'insert', 'replace', 'get_or_insert', 'get_or_insert_with', 'get_or_insert_default'):
                return [Ev('unknown', n, what='occupancy of slot `%s` changed by .%s() through a borrow' % (_t(self.vslot[lv[1]]), nm))]
            if s is not None and mutrecv and nm not in ('iter', 'len', 'get', 'contains_key', 'is_empty', 'keys', 'values', 'first', 'last'):
                return [Ev('unknown', n, what='adjacency of `%s` updated by .%s()' % (_t(s), nm))]
            # closure forms:  self.edata.get_mut(&s).map(|nhd| nhd.remove(&t))  /  Graph::index(nhd, t).map(|i| nhd.swap_remove(i))
            if nm in ('map', 'and_then', 'for_each', 'inspect') and n['args'] and peel(n['args'][0]).get('k') == 'Closure':
                cl = peel(n['args'][0])
                ids = [i for p in cl['params'] for _nm, i in hir.bindings(p)]
                root, ms = chain(recv)
                if root is not None and root.get('k') == 'Call' and (hir.callee(root) or '').endswith('vec_graph::Graph::index') and len(ids) == 1:
                    self.alias[ids[0]] = recv
                inner = []
                for x in hir.nodes(cl['body']):
                    inner += self.classify(x) if x is not cl['body'] or True else []
                if inner:
                    return [Ev(e.kind, n, **e.a) for e in inner]
        return None

    def is_event(self, n):
        return bool(self.classify(n))

    # --- completeness: every syntactic mutation rooted at a representation field is claimed by an event
    def unclaimed(self):
        claimed = set()
        for n in hir.nodes(self.body):
            if self.classify(n):
                for x in hir.nodes(n):
                    claimed.add(id(x))
        out = []
        for kind, pl, node in hir.mutations(self.body):
            if id(node) in claimed:
                continue
            p = hir.place(peel(pl)) if pl is not None else None
            if p is None:
                # method-call results (get_mut chains) are classified at the call
                root, ms = chain(pl)
                fld = selffield(root)
                rf = peel(root) if root is not None else None
                field_borrowed = bool(ms) and (ms[0]['recv'].get('mutborrow') or (rf is not None and rf.get('mutborrow')) or peel(ms[0]['recv']).get('mutborrow'))
                if fld in REPR[self.be] and field_borrowed and not any(self.classify(m) for m in ms):
                    out.append((node, 'write through %s' % hir.pp(pl)[:50]))
                continue
            rid, rname, proj = p
            if rname == 'self' and proj and proj[0][0] == 'f' and proj[0][1] in REPR[self.be]:
                out.append((node, '%s of self.%s' % (kind, proj[0][1])))
            elif rid in self.nhd and kind in ('assign', 'assignop'):
                out.append((node, '%s through a borrowed adjacency' % kind))
        return out


# ---------------------------------------------------------------- D1: pairing per path

def pop_failed(p, node):
    """is `node` (a holes.pop() call) the scrutinee of a Some-pattern that did NOT match on path p?"""
    for c in p.conds:
        if c[0] == 'nopat' and any(x is node for x in hir.nodes(c[2])):
            return True
    return False


def events_on(p, e, model):
    return [x for x in model.classify(e) if not (x.kind == 'reuse' and x.a.get('at') == 'popped' and pop_failed(p, x.node))]


def flatten(p, model):
    """(flat events of the path outside loops, loop events)"""
    out = []
    loops = []
    for e in p.events:
        if isinstance(e, tuple):
            loops.append(e)
        else:
            out += events_on(p, e, model)
    return out, loops


def same(a, b):
    if isinstance(a, str) or isinstance(b, str):
        return a == b
    return hir.same_expr(a, b)


def loop_over_adjacency(loopnode, model):
    """for (v1, _) in adj  /  for v1 in Vec::from_iter(self.neighbors(v))  ->  (vertex whose adjacency is iterated, loop var id) or None"""
    if loopnode.get('k') != 'For':
        return None
    it = peel(loopnode['iter'])
    ids = [i for _nm, i in hir.bindings(loopnode['pat'])]
    l = hir.local(it)
    v = None
    if l and l[1] in model.adjcopy:
        v = model.adjcopy[l[1]]
    else:
        v = model._adj_value(it)
    if v is None or not ids:
        return None
    return v, ids[0]


def check_events(evs, model, inloop=None):
    """invariants over the flat list of events of one path (or one loop iteration). Returns list of messages."""
    msgs = []
    by = {}
    for e in evs:
        by.setdefault(e.kind, []).append(e)
    for e in by.get('unknown', []):
        msgs.append('unrecognised representation update: %s' % e.a.get('what'))
    n_vp, n_vm = len(by.get('numv+', [])), len(by.get('numv-', []))
    sp = {f: [e for e in by.get('slot+', []) if e.a['fld'] == f] for f in ('vdata', 'edata')}
    sm = {f: [e for e in by.get('slot-', []) if e.a['fld'] == f] for f in ('vdata', 'edata')}
    # slots filled that were pushed as None on this very path do not count twice
    if n_vp - n_vm != len(sp['vdata']) - len(sm['vdata']):
        msgs.append('numv changes by %+d but the number of occupied vdata slots changes by %+d' % (n_vp - n_vm, len(sp['vdata']) - len(sm['vdata'])))
    for a, b, what in ((sp['vdata'], sp['edata'], 'filled'), (sm['vdata'], sm['edata'], 'emptied')):
        if len(a) != len(b):
            msgs.append('vdata and edata are not updated in lock-step: %d vdata slot(s) %s, %d edata slot(s) %s' % (len(a), what, len(b), what))
        else:
            for x, y in zip(a, b):
                if not same(x.a['at'], y.a['at']):
                    msgs.append('vdata and edata slots %s at different vertices (`%s` vs `%s`)' % (what, _t(x.a['at']), _t(y.a['at'])))
    # edges
    hp, hm, he = by.get('half+', []), by.get('half-', []), by.get('half=', [])
    n_ep, n_em = len(by.get('nume+', [])), len(by.get('nume-', []))
    if len(hp) != 2 * n_ep:
        msgs.append('nume is incremented %d time(s) but %d half-edge(s) are inserted (an edge is two half-edges)' % (n_ep, len(hp)))
    elif n_ep == 1:
        a, b = hp
        if not (same(a.a['s'], b.a['t']) and same(a.a['t'], b.a['s'])):
            msgs.append('the two inserted half-edges are not mirror images (%s->%s and %s->%s): adjacency would be asymmetric' % (_t(a.a['s']), _t(a.a['t']), _t(b.a['s']), _t(b.a['t'])))
        if not same(a.a['ety'], b.a['ety']):
            msgs.append('the two inserted half-edges carry different edge types')
    elif n_ep > 1:
        msgs.append('more than one edge inserted on one path (not a recognised shape)')
    if inloop is None:
        if len(hm) != 2 * n_em:
            msgs.append('nume is decremented %d time(s) but %d half-edge(s) are removed' % (n_em, len(hm)))
        elif n_em == 1:
            a, b = hm
            if not (same(a.a['s'], b.a['t']) and same(a.a['t'], b.a['s'])):
                msgs.append('the two removed half-edges are not mirror images (%s->%s and %s->%s)' % (_t(a.a['s']), _t(a.a['t']), _t(b.a['s']), _t(b.a['t'])))
        elif n_em > 1:
            msgs.append('more than one edge removed on one path (not a recognised shape)')
    else:
        v, lid = inloop
        # inside the loop over the adjacency of the vertex being removed: one decrement and the far half-edge per neighbour
        if n_em != 1 or len(hm) != 1:
            if n_em or hm:
                msgs.append('inside the loop over the removed vertex\'s adjacency: %d decrement(s) of nume and %d half-edge removal(s) per neighbour (expected 1 and 1)' % (n_em, len(hm)))
        else:
            h = hm[0]
            ls = hir.local(peel(h.a['s']))
            if not (ls and ls[1] == lid and same(h.a['t'], v)):
                msgs.append('the half-edge removed per neighbour is %s->%s, expected <neighbour>->%s' % (_t(h.a['s']), _t(h.a['t']), _t(v)))
    if len(he) % 2 or (he and len(he) != 2):
        msgs.append('edge type is rewritten on %d side(s) of the edge (must be both)' % len(he))
    elif len(he) == 2:
        a, b = he
        if not (same(a.a['s'], b.a['t']) and same(a.a['t'], b.a['s'])):
            msgs.append('the two edge-type writes are not mirror images')
        if not same(a.a['ety'], b.a['ety']):
            msgs.append('the two sides of the edge get different edge types')
    return msgs


def _t(x):
    return hir.pp(x)[:30] if isinstance(x, dict) else str(x)


def method_paths(model):
    return paths.effect_paths(hir.stmts_of(model.body), model.is_event)


def _popped_var(model, ev):
    """binding introduced by `if let Some(v) = self.holes.pop()` for the pop event"""
    for n in hir.nodes(model.body):
        if n.get('k') in ('LetCond', 'Let') and n.get('init') is not None and any(x is ev.node for x in hir.nodes(n['init'])):
            ids = [i for _nm, i in hir.bindings(n['pat'])]
            if len(ids) == 1:
                return ids[0]
    return None


def _lin(e):
    """expr -> (base expr or None, constant offset) for `x`, `x + c`, `c`"""
    e = peel(e)
    c = hir.lit_int(e)
    if c is not None:
        return None, c
    if e.get('k') == 'Binary' and e['op'] in ('Add', 'Sub'):
        c = hir.lit_int(peel(e['r']))
        if c is not None:
            b, o = _lin(e['l'])
            return b, o + (c if e['op'] == 'Add' else -c)
    return e, 0


_LEN_ALIAS = {}      # local id -> True for `let n = self.vdata.len()` (filled per Model; ids are unique per function)


def _is_len(e):
    e = peel(e)
    if e is None:
        return False
    l = hir.local(e)
    if l and _LEN_ALIAS.get(l[1]):
        return True
    return e.get('k') == 'MethodCall' and e['name'] == 'len' and not e['args'] and selffield(e['recv']) in ('vdata', 'edata')


def _cond_lt_len(conds, x):
    """polarity of a path condition equivalent to `x < self.vdata.len()` (True / False) or None"""
    for c in conds:
        if c[0] != 'cond':
            continue
        e = peel(c[1])
        if e.get('k') != 'Binary':
            continue
        op, l, r = e['op'], peel(e['l']), peel(e['r'])
        if op in ('Lt', 'Ge') and hir.same_expr(l, x) and _is_len(r):
            return c[2] if op == 'Lt' else not c[2]
        if op in ('Gt', 'Le') and hir.same_expr(r, x) and _is_len(l):
            return c[2] if op == 'Gt' else not c[2]
    return None


def vec_length_and_holes(p, model):
    """vector back end, one path: bounds of direct slot writes (D2, length domain) and hole accounting (D1).
    Returns (messages, n_index_writes_proved)."""
    msgs = []
    proved = 0
    length = ('L', None, 0)          # ('L', -, k): entry length + k ; ('E', base, k): exactly base + k
    pending = []                     # positions (kind, base, off) of None slots pushed on this path and not yet freed / filled
    reused = []                      # vertex exprs / binding ids obtained from holes on this path
    freed = []
    emptied = []
    filled = []

    def pos_now():
        return length

    def known_below_len(x):
        if any((isinstance(r, str) and hir.local(peel(x)) and hir.local(peel(x))[1] == r) or (isinstance(r, dict) and hir.same_expr(r, x)) for r in reused):
            return 'obtained from holes (every hole is an allocated slot)'
        b, o = _lin(x)
        if length[0] == 'E' and b is not None and hir.same_expr(b, length[1]) and o < length[2]:
            return 'length is exactly `%s`%+d after the resize' % (_t(length[1]), length[2])
        if length[0] == 'L' and _cond_lt_len(p.conds, x) is True:
            return 'dominated by `%s < len`' % _t(x)
        return None

    for e in p.events:
        if isinstance(e, tuple):
            _tag, node, inner = e
            inner = [q for q in inner if q.end != 'diverge']
            pushes = None
            for q in inner:
                evs = [x for y in q.events if not isinstance(y, tuple) for x in model.classify(y)]
                np_v = [x for x in evs if x.kind == 'nonepush' and x.a['fld'] == 'vdata']
                np_e = [x for x in evs if x.kind == 'nonepush' and x.a['fld'] == 'edata']
                fr = [x for x in evs if x.kind == 'free']
                sl = [x for x in evs if x.kind == 'slot+' and x.a['at'] == 'len']
                if not (np_v or np_e or sl):
                    continue
                if len(np_v) != len(np_e):
                    msgs.append('resize loop pushes %d empty vdata slot(s) but %d empty edata slot(s) per iteration' % (len(np_v), len(np_e)))
                if sl or len(np_v) != 1:
                    msgs.append('loop grows the slot tables in an unrecognised way (not one empty slot per iteration)')
                    pushes = 'unknown'
                    continue
                rb = hir.range_bounds(node['iter']) if node.get('k') == 'For' else None
                ids = [i for _nm, i in hir.bindings(node['pat'])] if node.get('k') == 'For' else []
                if not rb or rb[1] is None or not (_is_len(rb[0]) and length == ('L', None, 0)):
                    msgs.append('resize loop does not start at the current length (positions of the new empty slots are unknown)')
                    pushes = 'unknown'
                    continue
                # iteration i pushes the slot at position i: it must be recorded as a hole (or the loop must stop before the named vertex)
                if not (len(fr) == 1 and hir.local(peel(fr[0].a['at'])) and ids and hir.local(peel(fr[0].a['at']))[1] == ids[0]):
                    msgs.append('the empty slot pushed at position i by the resize loop is not recorded in holes as i: it could never be reused and the holes/None-slot correspondence breaks')
                pushes = rb
            if pushes == 'unknown':
                length = ('?', None, 0)
            elif pushes:
                lo, hi, incl = pushes
                b, o = _lin(hi)
                if incl:
                    o += 1
                # len = max(L, hi); equals hi when  not (b < L)  and o >= 0
                if b is not None and _cond_lt_len(p.conds, b) is False and o >= 0:
                    length = ('E', b, o)
                else:
                    length = ('?', None, 0)
            continue
        for x in events_on(p, e, model):
            if x.kind == 'reuse':
                if x.a['at'] == 'popped':
                    vid = _popped_var(model, x)
                    reused.append(vid if vid else 'unknown')
                else:
                    reused.append(x.a['at'])
            elif x.kind == 'free':
                freed.append(x.a['at'])
            elif x.kind == 'nonepush' and x.a['fld'] == 'vdata':
                pending.append(length)
                length = (length[0], length[1], length[2] + 1)
            elif x.kind == 'slot+' and x.a['fld'] == 'vdata':
                if x.a['at'] == 'len':
                    length = (length[0], length[1], length[2] + 1)
                else:
                    at = x.a['at']
                    filled.append(at)
                    why = known_below_len(at)
                    if model.total:
                        if why:
                            proved += 1
                        else:
                            msgs.append('D2: `self.vdata[%s] = Some(..)` is not proved in bounds on the path [%s]: %s' % (
                                _t(at), '; '.join(p.cond_texts())[:120],
                                ('after the resize the length is exactly `%s`%+d, so index `%s` is one past the end (panics; the hash back end succeeds)' % (_t(length[1]), length[2], _t(at))) if length[0] == 'E' else 'no bound fact'))
                    # hole accounting: a directly written slot is a reused hole or an empty slot created on this path
                    b, o = _lin(at)
                    hit = None
                    for pd in pending:
                        if pd[0] == 'E' and b is not None and hir.same_expr(pd[1], b) and pd[2] == o:
                            hit = pd
                    is_reused = any((isinstance(r, str) and hir.local(peel(at)) and hir.local(peel(at))[1] == r) or (isinstance(r, dict) and hir.same_expr(r, at)) for r in reused)
                    if hit:
                        pending.remove(hit)
                    elif not is_reused:
                        msgs.append('D1: slot `%s` is filled but it was neither taken out of holes nor created empty on this path (stale hole / overwritten vertex)' % _t(at))
            elif x.kind == 'slot-' and x.a['fld'] == 'vdata':
                emptied.append(x.a['at'])
    for pd in pending:
        msgs.append('D1: an empty slot is pushed that is neither recorded in holes nor filled on this path')
    for at in emptied:
        if not any(same(at, f) for f in freed):
            msgs.append('D1: slot `%s` is emptied but not recorded in holes (it would never be reused and pack/position logic treats it as live)' % _t(at))
    for at in freed:
        if not any(same(at, f) for f in emptied):
            msgs.append('D1: `%s` is recorded in holes but its slot is not emptied on this path' % _t(at))
    for r in reused:
        ok = any((isinstance(r, str) and hir.local(peel(f)) and hir.local(peel(f))[1] == r) or (isinstance(r, dict) and isinstance(f, dict) and hir.same_expr(r, f)) for f in filled)
        if not ok:
            msgs.append('D1: a hole is taken out of holes but its slot is not filled on this path')
    return msgs, proved


def hash_fresh(p, model):
    """hash back end, one path: every name given to a new vertex ends up below freshv (so add_vertex never reuses a live name)"""
    msgs = []
    evs = [x for y in p.events if not isinstance(y, tuple) for x in model.classify(y)]
    new = [x for x in evs if x.kind == 'slot+' and x.a['fld'] == 'vdata']
    bumps = [x for x in evs if x.kind in ('fresh+', 'fresh=')]
    for s in new:
        at = peel(s.a['at'])
        ok = None
        l = hir.local(at)
        init = peel(model.alias[l[1]]) if l and l[1] in model.alias else None
        if init is not None and selffield(init) == 'freshv':
            # let v = self.freshv; self.freshv += 1
            ok = any(b.kind == 'fresh+' for b in bumps)
            if not ok:
                msgs.append('a vertex is created under the name `self.freshv` but freshv is not advanced: the next add_vertex overwrites it')
            continue
        # named insertion: freshv := at + 1 under at >= freshv, nothing otherwise
        pol = None
        for c in p.conds:
            if c[0] != 'cond':
                continue
            e = peel(c[1])
            if e.get('k') == 'Binary':
                op, a, b = e['op'], peel(e['l']), peel(e['r'])
                if selffield(b) == 'freshv' and hir.same_expr(a, at) and op in ('Ge', 'Lt'):
                    pol = c[2] if op == 'Ge' else not c[2]
                elif selffield(a) == 'freshv' and hir.same_expr(b, at) and op in ('Le', 'Gt'):
                    pol = c[2] if op == 'Le' else not c[2]
        strict = any(c[0] == 'cond' and peel(c[1]).get('k') == 'Binary' and ((peel(c[1])['op'] == 'Gt' and hir.same_expr(peel(c[1])['l'], at) and selffield(peel(c[1])['r']) == 'freshv') or
                                                                               (peel(c[1])['op'] == 'Lt' and hir.same_expr(peel(c[1])['r'], at) and selffield(peel(c[1])['l']) == 'freshv')) for c in p.conds)
        if strict and pol is None:
            msgs.append('freshv is advanced only when `%s` > freshv: inserting the name freshv itself leaves freshv unchanged, so the next add_vertex hands out the same name and overwrites the vertex' % _t(at))
            continue
        mx = [b for b in bumps if b.kind == 'fresh=' and _is_max_form(b.a['value'], at)]
        if mx:
            continue
        if pol is True:
            good = [b for b in bumps if b.kind == 'fresh=' and _lin(b.a['value'])[1] == 1 and _lin(b.a['value'])[0] is not None and hir.same_expr(_lin(b.a['value'])[0], at)]
            if not good:
                msgs.append('named vertex `%s` >= freshv is inserted but freshv is not set to `%s + 1`: a later add_vertex can hand out the same name' % (_t(at), _t(at)))
        elif pol is False:
            if bumps:
                msgs.append('freshv is changed although `%s` < freshv' % _t(at))
        else:
            msgs.append('named vertex `%s` is inserted on a path that does not compare it with freshv (`%s >= self.freshv`): freshness of later names is not established' % (_t(at), _t(at)))
    return msgs


def _is_max_form(value, at):
    v = peel(value)
    if v.get('k') == 'MethodCall' and v['name'] == 'max':
        xs = [peel(v['recv']), peel(v['args'][0])]
        a = [x for x in xs if selffield(x) == 'freshv']
        b = [x for x in xs if _lin(x)[1] == 1 and _lin(x)[0] is not None and hir.same_expr(_lin(x)[0], at)]
        return bool(a and b)
    return False


TOTAL = ('vertex_data_opt', 'edge_type_opt', 'contains_vertex', 'add_named_vertex_with_data', 'get_scalar_factor', 'find_edge', 'find_vertex',
         'vertices', 'edges', 'num_vertices', 'num_edges', 'vindex', 'scalar_factors', 'pack')


def d1_method(ck, facts, be, m, stats):
    key = mkey(be, m) if '::' not in m else m
    model = Model(facts, be, key)
    model.total = m in TOTAL
    short = '%s::%s' % (be.split('::')[0], m.split('::')[-1])
    eps = method_paths(model)
    msgs = []
    shapes = set()
    n_paths = 0
    for p in eps:
        if p.end == 'diverge':
            continue
        n_paths += 1
        evs, loops = flatten(p, model)
        evs = [e for e in evs if e.kind != 'borrow']
        ms = check_events(evs, model)
        # failure => no change
        if p.end == 'return' and p.ret is not None and hir.ctor_call(peel(p.ret), 'Err') and (evs or loops):
            ms.append('the Err path performs representation updates before failing (a failed operation must leave the graph unchanged)')
        outer_minus = [e for e in evs if e.kind == 'slot-' and e.a['fld'] == 'edata']
        for (_tag, node, inner) in loops:
            adj = loop_over_adjacency(node, model)
            for q in inner:
                if q.end == 'diverge':
                    continue
                ievs, iloops = flatten(q, model)
                ievs = [e for e in ievs if e.kind != 'borrow']
                if iloops and any(model.classify(x) for (_a, _b, qq) in iloops for q2 in qq for x in q2.events if not isinstance(x, tuple)):
                    ms.append('representation updates in a nested loop (not a recognised shape)')
                if adj:
                    ms += ['in the loop over the adjacency of `%s`: %s' % (_t(adj[0]), x) for x in check_events(ievs, model, inloop=adj)]
                    if any(e.kind in ('nume-', 'half-') for e in ievs) and not any(same(o.a['at'], adj[0]) for o in outer_minus):
                        ms.append('edges of `%s` are removed neighbour by neighbour but its own adjacency slot is not dropped on this path' % _t(adj[0]))
                else:
                    ms += ['in loop: ' + x for x in check_events([e for e in ievs if e.kind not in ('nonepush', 'free')], model)]
        if be == VEC:
            m2, proved = vec_length_and_holes(p, model)
            ms += m2
            stats['index_proved'] += proved
        else:
            ms += hash_fresh(p, model)
        for x in ms:
            if x not in msgs:
                msgs.append(x)
        sh = sorted(repr(e) for e in evs)
        for (_tag, node, inner) in loops:
            for q in inner:
                ievs, _ = flatten(q, model)
                if ievs:
                    sh.append('loop{%s}' % ', '.join(sorted(repr(e) for e in ievs if e.kind != 'borrow')))
        if sh:
            shapes.add(' '.join(sh))
    unrec = []
    for node, what in model.unclaimed():
        unrec.append('unrecognised write to the representation: %s (line %d)' % (what, hir.line(node)))
    unrec += [x for x in msgs if 'unrecognised' in x or 'not a recognised shape' in x or 'unrecognised way' in x or 'positions of the new empty slots are unknown' in x]
    stats['methods'] += 1
    stats['paths'] += n_paths
    if shapes:
        stats['mutators'] += 1
    if unrec:
        # the abstraction map does not cover an operation of this method: the pairing counts are unreliable, nothing about it is decided
        ck.ob3('R-PAIR-repr', short, None, ck.site(key), 'the method updates the representation with an operation the abstraction map does not cover (%s); its pairing clauses are not decided' % '; '.join(unrec[:2]))
    else:
        ck.ob('R-PAIR-repr', short, not msgs, ck.site(key), '; '.join(msgs), sample={'paths': n_paths, 'events': sorted(shapes)[:4]} if shapes else None)
    return model, eps, shapes


def helper_half_edge(ck, facts, be):
    """the private remove_half_edge(s, t) removes exactly the half-edge s->t (or nothing when s is absent)"""
    key = '%s::remove_half_edge' % be
    model = Model(facts, be, key)
    model.total = False
    f = model.f
    ps = [p['id'] for p in f['params'] if p.get('k') == 'Bind' and p['name'] != 'self']
    msgs = []
    hits = 0
    for p in method_paths(model):
        if p.end == 'diverge':
            continue
        evs, loops = flatten(p, model)
        evs = [e for e in evs if e.kind != 'borrow']
        if loops:
            msgs.append('loop in remove_half_edge (not a recognised shape)')
        if not evs:
            continue
        if len(evs) != 1 or evs[0].kind != 'half-':
            msgs.append('remove_half_edge performs %s (expected exactly one half-edge removal)' % ', '.join(repr(e) for e in evs))
            continue
        ls, lt = hir.local(peel(evs[0].a['s'])), hir.local(peel(evs[0].a['t']))
        if not (len(ps) == 2 and ls and lt and ls[1] == ps[0] and lt[1] == ps[1]):
            msgs.append('remove_half_edge(s, t) removes %s->%s instead of s->t' % (_t(evs[0].a['s']), _t(evs[0].a['t'])))
        hits += 1
    if not hits:
        msgs.append('remove_half_edge removes nothing on any path')
    for node, what in model.unclaimed():
        msgs.append('unrecognised write to the representation: %s' % what)
    ck.ob('R-PAIR-repr', '%s::remove_half_edge' % be.split('::')[0], not msgs, ck.site(key), '; '.join(msgs))


# ---------------------------------------------------------------- D2: total methods are total

OPTIONAL = ('vertex_data_opt', 'edge_type_opt', 'contains_vertex', 'add_named_vertex_with_data', 'get_scalar_factor', 'find_edge', 'find_vertex',
            'vertices', 'edges', 'num_vertices', 'num_edges', 'vindex', 'scalar_factors')


def _bounded_index_var(idx, f, pm, node):
    """is `idx` (index into self.vdata / self.edata) a loop / closure variable ranging below the table length, or guarded by `idx < len`?"""
    l = hir.local(peel(idx))
    for c in paths.dominating_conds(node, pm):
        if c[0] == 'cond' and _cond_lt_len([c], peel(idx)) is True:
            return 'guarded by `%s < len`' % _t(idx)
    if not l:
        return None
    for n in hir.nodes(f['hir']):
        k = n.get('k')
        if k == 'For' and any(i == l[1] for _nm, i in hir.bindings(n['pat'])):
            rb = hir.range_bounds(n['iter'])
            if rb and rb[1] is not None and _is_len(rb[1]) and not rb[2]:
                return 'loop variable of `..len`'
            it = peel(n['iter'])
            if it.get('k') == 'MethodCall' and it['name'] == 'enumerate':
                root, _ms = chain(it)
                if selffield(root) in ('vdata', 'edata') and n['pat'].get('k') == 'Tuple' and hir.bindings(n['pat']['sub'][0]) and hir.bindings(n['pat']['sub'][0])[0][1] == l[1]:
                    return 'enumerate index'
        if k == 'MethodCall' and n['name'] in ('filter', 'map', 'filter_map', 'flat_map', 'for_each', 'find', 'position', 'any', 'all') and n['args']:
            cl = peel(n['args'][0])
            if cl.get('k') == 'Closure' and any(i == l[1] for p in cl['params'] for _nm, i in hir.bindings(p)):
                root, ms = chain(n['recv'])
                rb = hir.range_bounds(root) if root is not None else None
                if rb and rb[1] is not None and _is_len(rb[1]) and not rb[2] and all(m['name'] in ('filter', 'rev', 'into_iter') for m in ms):
                    return 'closure variable over `..len`'
    return None


def total_method(ck, facts, be, m, stats):
    key = mkey(be, m)
    f = facts['fns'][key]
    pm = hir.parent_map(f['hir'])
    msgs = []
    n_sites = 0
    for n in hir.nodes(f['hir']):
        k = n.get('k')
        if hir.from_macro(n) and k != 'Call':
            continue
        if k == 'MethodCall' and n['name'] in ('expect', 'unwrap') and not n.get('callee', '').startswith('graph::'):
            n_sites += 1
            r = peel(n['recv'])
            l = hir.local(r)
            ok = False
            if l:
                for c in paths.dominating_conds(n, pm):
                    if c[0] == 'cond':
                        e = peel(c[1])
                        if e.get('k') == 'MethodCall' and hir.local(peel(e['recv'])) and hir.local(peel(e['recv']))[1] == l[1]:
                            if (e['name'] == 'is_none' and c[2] is False) or (e['name'] == 'is_some' and c[2] is True):
                                ok = True
            if not ok:
                msgs.append('`%s` can panic: no dominating is_some / is_none test (the method is total in the other back end)' % hir.pp(n)[:50])
        elif k == 'Index':
            base = peel(n['e'])
            fld = selffield(base)
            par = pm.get(id(n))
            if fld in ('vdata', 'edata'):
                n_sites += 1
                if par and par[0].get('k') == 'Assign' and par[1] == 'l':
                    continue   # slot writes are discharged in the length domain (R-PAIR-repr / D2 message there)
                why = _bounded_index_var(n['i'], f, pm, n)
                if not why:
                    msgs.append('`%s` is indexed without a bound fact (panics for a vertex beyond the table; the hash back end answers)' % hir.pp(n)[:40])
            elif 'HashMap' in (base.get('ty') or '') or 'Vec<' in (base.get('ty') or '') or (base.get('ty') or '').startswith('['):
                n_sites += 1
                msgs.append('`%s`: unguarded indexing in a total method' % hir.pp(n)[:40])
        elif k in ('Call', 'MethodCall') and n.get('ty') == '!':
            n_sites += 1
            msgs.append('explicit panic in a total method (line %d)' % hir.line(n))
    stats['total_sites'] += n_sites
    ck.ob('R-BOUNDS-total', '%s::%s' % (be.split('::')[0], m), not msgs, ck.site(key), '; '.join(msgs), sample={'panicking_constructs_examined': n_sites} if n_sites else None)


# ---------------------------------------------------------------- D3: sibling agreement

def neutral(shapes_evs):
    """neutral projection of a path's events: what both back ends must agree on"""
    out = []
    for e in shapes_evs:
        if e.kind in ('free', 'reuse', 'nonepush', 'holes-clear', 'len-op', 'move', 'fresh+', 'fresh=', 'borrow'):
            continue
        if e.kind in ('slot+', 'slot-'):
            out.append('%s(%s)' % (e.kind, e.a['fld']))
        elif e.kind in ('half+', 'half-', 'half='):
            out.append('%s(%s->%s%s)' % (e.kind, _t(e.a['s']), _t(e.a['t']), (',' + _t(e.a['ety'])) if e.a.get('ety') is not None else ''))
        else:
            out.append(e.kind)
    return sorted(out)


def neutral_summary(facts, be, m):
    model = Model(facts, be, mkey(be, m))
    model.total = m in TOTAL
    res = set()
    for p in method_paths(model):
        if p.end == 'diverge':
            continue
        evs, loops = flatten(p, model)
        sh = neutral(evs)
        for (_tag, node, inner) in loops:
            for q in inner:
                if q.end == 'diverge':
                    continue
                ievs, _ = flatten(q, model)
                ne = neutral(ievs)
                if ne:
                    sh.append('loop{%s}' % ', '.join(_loopvar_norm(x, node) for x in ne))
        kind = 'err' if (p.end == 'return' and p.ret is not None and hir.ctor_call(peel(p.ret), 'Err')) else 'ok'
        res.add((kind, ' '.join(sh)))
    return res


def _loopvar_norm(text, node):
    ids = [nm for nm, _i in hir.bindings(node['pat'])] if node.get('k') == 'For' else []
    for nm in ids:
        if nm != '_':
            text = text.replace(nm, '<nb>')
    return text


def presence_on_err(facts, be):
    """add_named_vertex_with_data: every Err path is conditioned on `v is present`, recognised per back end; returns (ok, detail, n_err_paths)"""
    model = Model(facts, be, mkey(be, 'add_named_vertex_with_data'))
    f = model.f
    vid = [p['id'] for p in f['params'] if p.get('k') == 'Bind' and p['name'] != 'self'][0]
    bad = []
    n = 0

    def is_v(e):
        l = hir.local(peel(e))
        return bool(l and l[1] == vid)
    for p in method_paths(model):
        if not (p.end == 'return' and p.ret is not None and hir.ctor_call(peel(p.ret), 'Err')):
            continue
        n += 1
        present = False
        for c in p.conds:
            if c[0] != 'cond':
                continue
            e = peel(c[1])
            if e.get('k') != 'MethodCall':
                continue
            r = peel(e['recv'])
            if be == HASH and e['name'] == 'contains_key' and selffield(r) == 'vdata' and is_v(e['args'][0]) and c[2]:
                present = True
            if e['name'] == 'contains_vertex' and is_v(e['args'][0]) and c[2]:
                present = True
            if be == VEC:
                l = hir.local(r)
                if l and l[1] in model.posof and is_v(model.posof[l[1]]):
                    # v < len and v not among the holes
                    if ((e['name'] == 'is_none' and c[2]) or (e['name'] == 'is_some' and not c[2])) and _cond_lt_len(p.conds, model.posof[l[1]]) is True:
                        present = True
                if e['name'] == 'contains' and selffield(r) == 'holes' and is_v(e['args'][0]) and not c[2] and _cond_lt_len(p.conds, peel(e['args'][0])) is True:
                    present = True      # v < len and v is not a hole
                if e['name'] in ('is_some', 'is_none') and r.get('k') == 'Index' and selffield(r['e']) == 'vdata' and is_v(r['i']):
                    if (e['name'] == 'is_some') == bool(c[2]) and _cond_lt_len(p.conds, peel(r['i'])) is True:
                        present = True
        for c in p.conds:
            if c[0] == 'nopat' and be == VEC and all((hir.pat_ctor(q) or '').endswith('Some') for q in c[1]):
                # let Some(pos) = self.holes.iter().position(|h| h == v) else { return Err }   (v < len and v is not a hole)
                pv = model._position_of(c[2])
                if pv is not None and is_v(pv) and _cond_lt_len(p.conds, pv) is True:
                    present = True
        if not present:
            understood = all(c[0] == 'cond' and peel(c[1]).get('k') in ('Binary', 'MethodCall', 'Unary') for c in p.conds)
            bad.append(('Err is returned on the path [%s], which is not conditioned on the vertex being present' % '; '.join(p.cond_texts())[:140], understood))
    if bad and not all(u for _m, u in bad):
        return None, 'the condition under which Err is returned is written in a form the rule does not understand: ' + '; '.join(m for m, _u in bad), n
    return (not bad and n > 0), ('; '.join(m for m, _u in bad) if bad else ('no Err path' if n == 0 else '')), n


def orientation(facts, be, m):
    """edges / find_edge report each edge once, as (s, t) with s <= t.  Returns (ok, detail)."""
    key = mkey(be, m)
    f = facts['fns'][key]
    pm = hir.parent_map(f['hir'])

    def oriented(node, a, b):
        for c in paths.dominating_conds(node, pm):
            if c[0] == 'cond' and c[2]:
                e = peel(c[1])
                if e.get('k') == 'Binary':
                    if e['op'] in ('Le', 'Lt') and hir.same_expr(e['l'], a) and hir.same_expr(e['r'], b):
                        return True
                    if e['op'] in ('Ge', 'Gt') and hir.same_expr(e['l'], b) and hir.same_expr(e['r'], a):
                        return True
        return False
    if m == 'find_edge':
        fid = [p['id'] for p in f['params'] if p.get('k') == 'Bind' and p['name'] != 'self']
        calls = [c for c in hir.nodes(f['hir']) if c.get('k') == 'Call' and hir.local(peel(c['fun'])) and hir.local(peel(c['fun']))[1] in fid]
        if not calls:
            return None, 'the predicate is never called (anchor-missing)'
        for c in calls:
            if len(c['args']) < 2 or not oriented(c, c['args'][0], c['args'][1]):
                return False, ('the predicate is called as f(%s) without the orientation filter `%s <= %s`: every edge is visited in both directions, so the answer can be a reversed pair (t, s) '
                               'that the other back end never reports' % (', '.join(_t(a) for a in c['args']), _t(c['args'][0]), _t(c['args'][1])))
        return True, '%d predicate call(s) under the orientation filter' % len(calls)
    somes = [c for c in hir.nodes(f['hir']) if c.get('k') == 'Call' and hir.ctor_call(c, 'Some') and tuple_items(c['args'][0]) and len(tuple_items(c['args'][0])) == 3]
    if not somes:
        return None, 'no `Some((s, t, ety))` construction found (not-established-by-recognised-idiom)'
    for c in somes:
        it = tuple_items(c['args'][0])
        if not oriented(c, it[0], it[1]):
            return False, 'an edge (%s, %s, _) is produced without the orientation filter `%s <= %s`: every edge is enumerated twice' % (_t(it[0]), _t(it[1]), _t(it[0]), _t(it[1]))
    return True, '%d edge construction(s) under the orientation filter' % len(somes)


def presence_filter(facts, m):
    """vector back end: find_vertex / vertices skip empty slots"""
    key = mkey(VEC, m)
    f = facts['fns'][key]
    pm = hir.parent_map(f['hir'])

    def occupancy_test(e):
        e = peel(e)
        return e.get('k') == 'MethodCall' and e['name'] == 'is_some' and ('Option<graph::VData>' in (peel(e['recv']).get('ty') or ''))
    if m == 'find_vertex':
        fid = [p['id'] for p in f['params'] if p.get('k') == 'Bind' and p['name'] != 'self']
        calls = [c for c in hir.nodes(f['hir']) if c.get('k') == 'Call' and hir.local(peel(c['fun'])) and hir.local(peel(c['fun']))[1] in fid]
        if not calls:
            return None, 'the predicate is never called (anchor-missing)'
        for c in calls:
            ok = False
            for d in paths.dominating_conds(c, pm):
                if d[0] == 'cond' and d[2] and occupancy_test(d[1]):
                    ok = True
                if d[0] == 'pat' and (hir.pat_ctor(d[1]) or '').endswith('Some') and 'Option<graph::VData>' in (peel(d[2]).get('ty') or ''):
                    ok = True
            if not ok:
                return False, 'the predicate is called on slot indices without an occupancy test: empty slots (deleted vertices) are offered to it, the hash back end only offers live vertices'
        return True, ''
    tests = [n for n in hir.nodes(f['hir']) if occupancy_test(n)]
    pats = [n for n in hir.nodes(f['hir']) if n.get('k') in ('LetCond', 'Match') and 'Option<graph::VData>' in (peel(n.get('init') or n.get('scrut')).get('ty') or '')]
    fm = [n for n in hir.nodes(f['hir']) if n.get('k') == 'MethodCall' and n['name'] in ('filter_map', 'flatten')]
    if tests or pats or fm:
        return True, ''
    return False, 'vertices() enumerates slot indices without an occupancy test'


def count_accessors(facts, be):
    """num_vertices / num_edges / vindex return the cached counters (or an accepted equivalent)"""
    res = []
    want = {'num_vertices': ['numv'], 'num_edges': ['nume'], 'vindex': ['len(vdata)'] if be == VEC else ['freshv']}
    for m, acc in want.items():
        f = facts['fns'][mkey(be, m)]
        st = hir.stmts_of(f['hir'])
        e = peel(st[-1]) if len(st) == 1 else None
        got = None
        if e is not None:
            if selffield(e):
                got = selffield(e)
            elif _is_len(e):
                got = 'len(%s)' % selffield(e['recv'])
                if be == HASH and m == 'num_vertices' and got == 'len(vdata)':
                    got = 'numv'
            elif be == VEC and m == 'num_vertices' and e.get('k') == 'Binary' and e['op'] == 'Sub' and _is_len(e['l']) and peel(e['r']).get('k') == 'MethodCall' and peel(e['r'])['name'] == 'len' and selffield(peel(e['r'])['recv']) == 'holes':
                got = 'numv'
        res.append((m, got in acc or (got == 'len(edata)' and 'len(vdata)' in acc), 'returns `%s`, expected %s' % (hir.pp(e)[:40] if e is not None else 'a compound body', ' / '.join(acc))))
    return res


# ---------------------------------------------------------------- D4: pack is a consistent renaming

NOT_VERTEX_FIELDS = ('numv', 'nume')        # usize-typed counters: not vertex names


def _vtab_index(e, vtab_id):
    """`vtab[X]` -> X (peeled) or None"""
    e = peel(e)
    if e is not None and e.get('k') == 'Index':
        l = hir.local(peel(e['e']))
        if l and l[1] == vtab_id:
            return peel(e['i'])
    return None


def pack_rule(facts, be_key, adt):
    """Returns list of (slot, ok, message)."""
    f = facts['fns'][be_key]
    res = []
    model = Model(facts, VEC, be_key)
    model.total = True
    body = f['hir']
    # the compaction loop: the For whose body moves slots
    comp = None
    for n in hir.nodes(body):
        if n.get('k') == 'For' and any(e.kind == 'move' for x in hir.nodes(n['body']) for e in model.classify(x)):
            comp = n
            break
    moves_anywhere = [e for x in hir.nodes(body) for e in model.classify(x) if e.kind == 'move']
    if comp is None:
        if moves_anywhere:
            return [('compaction', False, 'slots are moved outside a loop (not a recognised shape)')]
        # a pack that moves nothing is the identity renaming: fine as long as it changes nothing else
        touched = [e for x in hir.nodes(body) for e in model.classify(x) if e.kind not in ('borrow',)]
        return [('compaction', not touched, 'pack moves no slot but updates the representation (%s)' % ', '.join(repr(e) for e in touched[:3]))]
    pm = hir.parent_map(body)
    # enclosing block (statement list) of the compaction loop
    blk = None
    for par, slot in hir.ancestors(comp, pm):
        if par.get('k') == 'Block':
            blk = par
            break
    st = hir.stmts_of(blk)

    def top_index(node):
        for i, s in enumerate(st):
            if any(x is node for x in hir.nodes(s)):
                return i
        return None
    ci = top_index(comp)
    rb = hir.range_bounds(comp['iter'])
    ivar = [i for _nm, i in hir.bindings(comp['pat'])]
    ok_range = bool(rb and hir.lit_int(peel(rb[0])) == 0 and rb[1] is not None and _is_len(rb[1]) and not rb[2] and len(ivar) == 1)
    res.append(('compaction/range', ok_range, 'the compaction loop does not run over `0..self.vdata.len()` in ascending order'))
    if not ok_range:
        return res
    i_id = ivar[0]
    # the moves, under the occupancy test of slot i
    mv = [(x, e) for x in hir.nodes(comp['body']) for e in model.classify(x) if e.kind == 'move' and x is e.node]
    mv_v = [e for _x, e in mv if e.a['fld'] == 'vdata']
    mv_e = [e for _x, e in mv if e.a['fld'] == 'edata']
    ok = len(mv_v) == 1 and len(mv_e) == 1
    msg = 'the compaction loop moves %d vdata and %d edata slot(s) per iteration (expected one each)' % (len(mv_v), len(mv_e))
    j_id = None
    if ok:
        a, b = mv_v[0], mv_e[0]
        lj = hir.local(peel(a.a['to']))
        li = hir.local(peel(a.a['frm']))
        if not (same(a.a['to'], b.a['to']) and same(a.a['frm'], b.a['frm'])):
            ok, msg = False, 'vdata is moved %s <- %s but edata %s <- %s: vertex data and adjacency end up under different names' % (_t(a.a['to']), _t(a.a['frm']), _t(b.a['to']), _t(b.a['frm']))
        elif not (li and li[1] == i_id and lj):
            ok, msg = False, 'slots are not moved from the loop index to a running target index'
        else:
            j_id = lj[1]
    res.append(('compaction/lock-step', ok, msg))
    if j_id is None:
        return res
    # occupancy guard
    guard_ok = False
    for d in paths.dominating_conds(mv_v[0].node, pm):
        if d[0] == 'cond' and d[2]:
            e = peel(d[1])
            if e.get('k') == 'MethodCall' and e['name'] == 'is_some':
                r = peel(e['recv'])
                if r.get('k') == 'Index' and selffield(r['e']) == 'vdata' and hir.local(peel(r['i'])) and hir.local(peel(r['i']))[1] == i_id:
                    guard_ok = True
    res.append(('compaction/occupancy', guard_ok, 'slots are moved without testing `self.vdata[i].is_some()`: empty slots would be kept and counted'))
    # j: starts at 0, advanced exactly once, after the moves and the vtab entry, in the same block as the moves
    j_init = None
    j_incs = []
    vt_assign = []
    for n in hir.nodes(body):
        if n.get('k') == 'Let' and n['pat'].get('k') == 'Bind' and n['pat']['id'] == j_id and n.get('init') is not None:
            j_init = hir.lit_int(peel(n['init']))
        if n.get('k') in ('AssignOp', 'Assign') and hir.local(peel(n['l'])) and hir.local(peel(n['l']))[1] == j_id:
            j_incs.append(n)
        if n.get('k') == 'Assign' and peel(n['l']).get('k') == 'Index' and hir.local(peel(peel(n['l'])['e'])) and hir.local(peel(n['r'])) and hir.local(peel(n['r']))[1] == j_id:
            vt_assign.append(n)
    mblk = pm[id(mv_v[0].node)][0]
    mst = hir.stmts_of(mblk) if mblk.get('k') == 'Block' else []

    def pos(n):
        for i, s in enumerate(mst):
            if s is n or peel(s) is n or any(x is n for x in hir.nodes(s)):
                return i
        return None
    ok = j_init == 0 and len(j_incs) == 1 and j_incs[0].get('k') == 'AssignOp' and j_incs[0]['op'] == 'AddAssign' and hir.lit_int(peel(j_incs[0]['r'])) == 1 and pos(j_incs[0]) is not None
    res.append(('compaction/target-index', ok, 'the running target index does not start at 0 / is not advanced by exactly one per kept vertex in the branch that moves it'))
    vtab_id = None
    ok = False
    msg = 'the renaming table is not filled as `vtab[i] = j` next to the move'
    if len(vt_assign) == 1 and pos(vt_assign[0]) is not None:
        l = peel(vt_assign[0]['l'])
        li = hir.local(peel(l['i']))
        if li and li[1] == i_id:
            vtab_id = hir.local(peel(l['e']))[1]
            ok = True
            if j_incs and pos(j_incs[0]) is not None and not (pos(vt_assign[0]) < pos(j_incs[0]) and pos(mv_v[0].node) < pos(j_incs[0]) and pos(mv_e[0].node) < pos(j_incs[0])):
                ok, msg = False, 'the target index is advanced before the move / the table entry: the table and the slots disagree by one'
    res.append(('compaction/table', ok, msg))
    if vtab_id is None:
        return res
    # truncation of both tables to the number of kept vertices
    tr = [e for s in st for x in hir.nodes(s) for e in model.classify(x) if e.kind == 'len-op' and e.a['op'] == 'truncate' and x is e.node]
    tv = [e for e in tr if e.a['fld'] == 'vdata']
    te = [e for e in tr if e.a['fld'] == 'edata']

    def is_count(e):
        e = peel(e)
        l = hir.local(e)
        if l and l[1] == j_id:
            return True
        if l and l[1] in model.alias:
            return is_count(model.alias[l[1]])
        if selffield(e) == 'numv':
            return True
        return e.get('k') == 'MethodCall' and e['name'] == 'num_vertices' and hir.local(peel(e['recv'])) and hir.local(peel(e['recv']))[0] == 'self'
    ok = len(tv) == 1 and len(te) == 1 and is_count(tv[0].a['arg']) and is_count(te[0].a['arg']) and top_index(tv[0].node) > ci and top_index(te[0].node) > ci
    res.append(('truncate', ok, 'vdata and edata are not both truncated to the number of kept vertices after the compaction loop'))
    hc = [e for s in st for x in hir.nodes(s) for e in model.classify(x) if e.kind == 'holes-clear']
    res.append(('holes', bool(hc), 'holes is not cleared although every empty slot is squeezed out: stale holes would be handed out by add_vertex and overwrite live vertices'))
    # payload renaming: every neighbour id stored in edata goes through vtab, the edge type is kept.  Recognised spellings (inside an iteration over self.edata):
    #   *pair = (vtab[pair.0], pair.1)      pair.0 = vtab[pair.0]      *w = vtab[*w]  with (w, _) bound from the pair
    pay = []
    for n in hir.nodes(body):
        if n.get('k') != 'Assign':
            continue
        over = None
        for par, slot in hir.ancestors(n, pm):
            if par.get('k') == 'For':
                root, ms = chain(par['iter'])
                if selffield(root) == 'edata':
                    over = par
                    break
        if over is None:
            continue
        lp = hir.place(n['l'])
        if not lp:
            continue
        rid = lp[0]
        projf = [p_ for p_ in lp[2] if p_[0] == 'f']
        it = tuple_items(n['r'])
        good = keep = None
        if it and len(it) == 2 and not projf:
            x = _vtab_index(it[0], vtab_id)
            good = x is not None and x.get('k') == 'Field' and x['name'] == '0' and hir.local(peel(x['e'])) and hir.local(peel(x['e']))[1] == rid
            k2 = peel(it[1])
            keep = k2.get('k') == 'Field' and k2['name'] == '1' and hir.local(peel(k2['e'])) and hir.local(peel(k2['e']))[1] == rid
        else:
            x = _vtab_index(n['r'], vtab_id)
            if x is None:
                continue          # not a renaming assignment
            if projf == [('f', '0')]:
                good = x.get('k') == 'Field' and x['name'] == '0' and hir.local(peel(x['e'])) and hir.local(peel(x['e']))[1] == rid
                keep = True
            elif not projf:
                # *w = vtab[*w] : w must be the FIRST component of the adjacency pair (bound by a tuple pattern from the element)
                lx = hir.local(x)
                good = bool(lx and lx[1] == rid)
                first = None
                for m2 in hir.nodes(body):
                    pat = m2.get('pat') if m2.get('k') in ('For', 'Let', 'LetCond') else None
                    pats = [pat] if pat else ([p2 for p2 in m2['params']] if m2.get('k') == 'Closure' else [])
                    for p2 in pats:
                        q = p2
                        while q and q.get('k') == 'Ref':
                            q = q['sub']
                        if q and q.get('k') == 'Tuple' and len(q['sub']) == 2:
                            b0 = [i for _n, i in hir.bindings(q['sub'][0])]
                            b1 = [i for _n, i in hir.bindings(q['sub'][1])]
                            if rid in b0:
                                first = True
                            elif rid in b1:
                                first = False
                if first is None:
                    good = None
                elif first is False:
                    good = False
                keep = True
        pay.append((n, good, keep, over))
    if not pay:
        res.append(('rename/edata', None if any(selffield(chain(x['iter'])[0]) == 'edata' for x in hir.find(body, 'For') if x is not comp) or 'edata' in hir.pp(body) else False,
                    'no rewrite of the neighbour ids stored in edata through the renaming table was recognised'))
    else:
        n, good, keep, over = pay[0]
        ti = top_index(n)
        if len(pay) != 1 or good is None:
            res.append(('rename/edata', None, 'the rewrite of the adjacency entries is not in a recognised form'))
        elif not (good and keep):
            res.append(('rename/edata', False, 'the adjacency entries are rewritten, but not as (vtab[old neighbour], same edge type)'))
        elif ti is None or ti <= ci:
            res.append(('rename/edata', False, 'the neighbour rewrite runs before the renaming table is complete'))
        else:
            cond_extra = [par for par, slot in hir.ancestors(n, pm) if par.get('k') == 'If' and peel(par['cond']).get('k') != 'LetCond' and any(x is par for x in hir.nodes(over['body']))]
            res.append(('rename/edata', not cond_extra, 'the neighbour rewrite is under an extra condition'))
    # inputs / outputs / any other vertex-bearing field: rewritten from itself through vtab, after the compaction loop
    fields = adt['variants'][0]['fields']
    for name, ty, _vis in fields:
        if name in ('vdata', 'edata', 'holes') or name in NOT_VERTEX_FIELDS or 'usize' not in ty:
            continue
        ok, msg = False, 'field `%s` holds vertex names (%s) but pack does not rewrite it through the renaming table: it keeps pointing at the old names' % (name, ty.replace('std::vec::', ''))
        for n in hir.nodes(body):
            if n.get('k') == 'Assign' and selffield(n['l']) == name:
                root, ms = chain(n['r'])
                names = [m['name'] for m in ms]
                src = selffield(root)
                mp = [m for m in ms if m['name'] == 'map']
                if src != name:
                    msg = '`self.%s` is rebuilt from `%s`, not from itself' % (name, hir.pp(root)[:30] if root is not None else '?')
                    continue
                if len(mp) == 1 and peel(mp[0]['args'][0]).get('k') == 'Closure' and names[-1:] == ['collect'] and all(x in ('iter', 'into_iter', 'map', 'collect', 'copied', 'cloned') for x in names):
                    cl = peel(mp[0]['args'][0])
                    ids = [i for p in cl['params'] for _nm, i in hir.bindings(p)]
                    x = _vtab_index(cl['body'], vtab_id)
                    if x is not None and hir.local(x) and hir.local(x)[1] in ids:
                        ti = top_index(n)
                        if ti is not None and ti > ci:
                            ok = True
                        else:
                            msg = '`self.%s` is renamed before the renaming table is complete' % name
                    else:
                        msg = '`self.%s` is rebuilt but its elements do not go through the renaming table' % name
            if n.get('k') == 'For':
                root, ms = chain(n['iter'])
                if selffield(root) == name and [m['name'] for m in ms] == ['iter_mut']:
                    ids = [i for _nm, i in hir.bindings(n['pat'])]
                    for a in hir.nodes(n['body']):
                        if a.get('k') == 'Assign' and hir.local(peel(a['l'])) and hir.local(peel(a['l']))[1] in ids:
                            x = _vtab_index(a['r'], vtab_id)
                            if x is not None and hir.local(x) and hir.local(x)[1] in ids and top_index(n) is not None and top_index(n) > ci:
                                ok = True
        res.append(('rename/%s' % name, ok, msg))
    return res


def _binding_type(body, lid):
    for n in hir.nodes(body):
        if n.get('k') == 'Closure':
            for p in n['params']:
                for x in _pat_binds(p):
                    if x['id'] == lid:
                        return x.get('ty')
        if n.get('k') in ('Let', 'LetCond', 'For'):
            for x in _pat_binds(n['pat']):
                if x['id'] == lid:
                    return x.get('ty')
    return None


def _pat_binds(p):
    out = []
    if not isinstance(p, dict):
        return out
    if p.get('k') == 'Bind':
        out.append(p)
    sub = p.get('sub')
    if isinstance(sub, dict):
        out += _pat_binds(sub)
    elif isinstance(sub, list):
        for s in sub:
            out += _pat_binds(s)
    for fp in p.get('fields') or []:
        if isinstance(fp, (list, tuple)) and len(fp) == 2:
            out += _pat_binds(fp[1])
        elif isinstance(fp, dict):
            out += _pat_binds(fp.get('pat') or fp)
    return out


# ---------------------------------------------------------------- D5: clone / equality / ownership

SHARED = ('Rc<', 'Arc<', 'Cell<', 'RefCell<', 'Mutex<', 'RwLock<', '*const', '*mut', '&', 'Atomic', 'OnceCell', 'Weak<')


def ownership(facts, be):
    res = []
    for tr, short in (('std::clone::Clone', 'clone'), ('std::cmp::PartialEq', 'eq')):
        k = '<%s as %s>::%s' % (be, tr, short)
        f = facts['fns'].get(k)
        res.append(('derive/' + short, bool(f and 'Derive' in (f.get('macro') or '')),
                    '%s for %s is %s: a hand-written impl can skip or share a field, so clone/equality is no longer field-wise by construction' % (tr.split('::')[-1], be, 'missing' if not f else 'hand-written')))
    adt = facts['adts'][be]
    for name, ty, vis in adt['variants'][0]['fields']:
        sh = [s for s in SHARED if s in ty]
        res.append(('owned/' + name, not sh, 'field `%s: %s` is shared or interior-mutable (%s): a clone is not independent' % (name, ty, ', '.join(sh))))
        res.append(('private/' + name, vis != 'Public', 'field `%s` is public: the counters / tables can be edited without the methods that keep them consistent' % name))
    return res


# ---------------------------------------------------------------- D6: accessor tables

VDATA = 'graph::VData'
# trait default accessor -> (fields of VData it may read, fields it may write, {written field: source})
ACCESSORS = {
    'set_phase': ((), ('phase',)), 'phase': (('phase',), ()), 'add_to_phase': (('phase',), ('phase',)),
    'set_vertex_type': ((), ('ty',)), 'vertex_type': (('ty',), ()), 'vertex_type_opt': (('ty',), ()),
    'set_qubit': ((), ('qubit',)), 'qubit': (('qubit',), ()), 'set_row': ((), ('row',)), 'row': (('row',), ()),
    'set_vars': ((), ('vars',)), 'vars': (('vars',), ()), 'add_to_vars': (('vars',), ('vars',)),
    'set_coord': ((), ('qubit', 'row')), 'coord': (('qubit', 'row'), ()), 'phase_and_vars': (('phase', 'vars'), ()),
}
OVERRIDES = ('set_coord', 'coord', 'set_qubit', 'qubit', 'set_row', 'row')


def vdata_access(f):
    """(fields of VData read, fields written, {written field: pretty source}, vertex argument uses)"""
    reads, writes, src = set(), set(), {}
    written_nodes = set()
    for n in hir.nodes(f['hir']):
        if n.get('k') in ('Assign', 'AssignOp'):
            l = peel(n['l'])
            if l.get('k') == 'Field' and VDATA in (l.get('ety') or ''):
                writes.add(l['name'])
                src[l['name']] = _src_text(n['r'])
                written_nodes.add(id(l))
                if n.get('k') == 'AssignOp':
                    reads.add(l['name'])
    for n in hir.nodes(f['hir']):
        if n.get('k') == 'Field' and VDATA in (n.get('ety') or '') and id(n) not in written_nodes:
            reads.add(n['name'])
    return reads, writes, src


def _src_text(e):
    """source of a written value, normalised: parameter names, `.into()` stripped, field paths kept"""
    e = peel(e)
    while e.get('k') == 'MethodCall' and e['name'] in ('into', 'clone') and not e['args']:
        e = peel(e['recv'])
    return hir.pp(e)[:60]


def coord_descriptor(f):
    """for coord(): the order of VData fields given to Coord::new / the Coord literal"""
    for c in hir.calls(f['hir']):
        if (hir.callee(c) or '').endswith('Coord::new') and len(c['args']) == 2:
            out = []
            for a in c['args']:
                a = peel(a)
                out.append(a['name'] if a.get('k') == 'Field' else '?')
            return tuple(out)
    return None


def which_field(f, field_names):
    """field of self returned / assigned by a one-line accessor"""
    got = set()
    for n in hir.nodes(f['hir']):
        s = selffield(n) if n.get('k') == 'Field' else None
        if s in field_names:
            got.add(s)
    return got


def scalar_factor_paths(f):
    """mul_scalar_factor(e, s): [(branch, [effects])] with branch in found / absent / any and effects in mul(s) / overwrite / insert(e,s) / insert(?)"""
    ps = [p['id'] for p in f['params'] if p.get('k') == 'Bind' and p['name'] != 'self']

    def is_ev(n):
        k = n.get('k')
        if k == 'AssignOp' or (k == 'Assign' and peel(n['l']) is not n['l']):
            return True
        return k == 'MethodCall' and n['name'] in ('insert', 'or_insert', 'or_insert_with', 'and_modify', 'remove', 'clear') and any(selffield(x) == 'scalar_factors' for x in hir.nodes(n['recv']) if x.get('k') == 'Field')
    out = []
    for p in paths.effect_paths(hir.stmts_of(f['hir']), is_ev):
        if p.end == 'diverge':
            continue
        branch = 'any'
        for c in p.conds:
            if c[0] in ('pat', 'nopat'):
                init = c[2]
                if any(x.get('k') == 'MethodCall' and x['name'] in ('get_mut', 'get') and selffield(x['recv']) == 'scalar_factors' for x in hir.nodes(init)):
                    branch = 'found' if c[0] == 'pat' and (hir.pat_ctor(c[1]) or '').endswith('Some') else 'absent'
            if c[0] == 'cond':
                e = peel(c[1])
                if e.get('k') == 'MethodCall' and e['name'] == 'contains_key' and selffield(e['recv']) == 'scalar_factors':
                    branch = 'found' if c[2] else 'absent'
        effs = []
        for n in p.events:
            if isinstance(n, tuple):
                effs.append('loop')
                continue
            k = n.get('k')
            if k == 'AssignOp':
                r = hir.local(peel(n['r']))
                effs.append('mul(s)' if n['op'] == 'MulAssign' and r and len(ps) == 2 and r[1] == ps[1] else '%s(?)' % n['op'])
            elif k == 'Assign':
                effs.append('overwrite')
            else:
                a = [hir.local(peel(x)) for x in n['args']]
                if n['name'] == 'insert' and len(a) == 2 and all(a) and len(ps) == 2 and a[0][1] == ps[0] and a[1][1] == ps[1]:
                    effs.append('insert(e,s)')
                else:
                    effs.append('%s(?)' % n['name'])
        out.append((branch, effs))
    return out


def scalar_factor_rule(f):
    got = sorted(set((b, tuple(e)) for b, e in scalar_factor_paths(f)))
    want = [('absent', ('insert(e,s)',)), ('found', ('mul(s)',))]
    return got == want, got


FIELD_ACCESSORS = {'inputs': 'inputs', 'inputs_mut': 'inputs', 'set_inputs': 'inputs', 'outputs': 'outputs', 'outputs_mut': 'outputs', 'set_outputs': 'outputs',
                   'scalar': 'scalar', 'scalar_mut': 'scalar', 'scalar_factors': 'scalar_factors', 'get_scalar_factor': 'scalar_factors', 'mul_scalar_factor': 'scalar_factors',
                   'num_vertices': 'numv', 'num_edges': 'nume'}


def accessor_rules(facts, where):
    """[(key, ok, msg)] for the trait defaults (where='trait') or the vector back end's overrides (where='vec')"""
    res = []
    for m, (rd, wr) in ACCESSORS.items():
        if where == 'vec' and m not in OVERRIDES:
            continue
        key = ('%s::%s' % (GL, m)) if where == 'trait' else mkey(VEC, m)
        f = facts['fns'].get(key)
        if f is None:
            if where == 'vec':
                continue          # not overridden any more: the default applies
            res.append((key, None, 'anchor-missing'))
            continue
        reads, writes, src = vdata_access(f)
        msgs = []
        if writes != set(wr):
            msgs.append('writes VData field(s) {%s}, the accessor\'s contract is {%s}' % (', '.join(sorted(writes)), ', '.join(wr)))
        if not reads <= set(rd) | set(wr) or (rd and not (set(rd) - set(wr)) <= reads):
            msgs.append('reads VData field(s) {%s}, the accessor\'s contract is {%s}' % (', '.join(sorted(reads)), ', '.join(rd)))
        # setters write from their own parameter
        ps = [p['name'] for p in f['params'] if p.get('k') == 'Bind' and p['name'] not in ('self', 'v')]
        if m in ('set_phase', 'set_vertex_type', 'set_qubit', 'set_row', 'set_vars') and wr and wr[0] in src and ps and src[wr[0]] != ps[0]:
            msgs.append('`%s` is set from `%s`, not from the parameter `%s`' % (wr[0], src[wr[0]], ps[0]))
        if m == 'set_coord' and writes == {'qubit', 'row'}:
            if not (src['qubit'].endswith('.y') and src['row'].endswith('.x')):
                msgs.append('set_coord must set qubit <- coord.y and row <- coord.x (documented contract), it sets qubit <- %s, row <- %s' % (src['qubit'], src['row']))
        if m == 'coord':
            d = coord_descriptor(f)
            if d != ('row', 'qubit'):
                msgs.append('coord must return Coord::new(row, qubit), it builds %s' % (d,))
        res.append((key, not msgs, '; '.join(msgs)))
    return res


def run(ck):
    facts = ck.facts
    ck.decided('D1 every GraphLike method of both back ends preserves the representation invariant on every non-diverging path: numv tracks occupied vdata slots, vdata/edata change in lock-step at the same vertex, '
               'every nume+-1 comes with the two mirror half-edges of one type, set_edge_type writes both sides, failed operations change nothing; vector: emptied slot <-> holes.push, hole taken <-> slot filled, '
               'empty slots pushed by a resize are holes or filled; hash: every new name ends up below freshv; no representation write outside the recognised operations',
               'D2 total methods (Option/Result/bool/iterator-returning) contain no unguarded expect/unwrap/index/panic; direct slot writes of the vector back end are proved in bounds in a length domain',
               'D3 the two back ends produce the same neutral events per method, fail under the same (presence) condition, apply the orientation filter s<=t in edges and find_edge, and the vector back end skips empty slots',
               'D4 pack moves vdata and edata together under the occupancy test, records vtab[i]=j before advancing j, truncates both tables, clears holes, rewrites every stored neighbour id and every vertex-bearing field through vtab after the table is complete',
               'D5 both Graph types derive Clone and PartialEq, own their data (no shared / interior-mutable field types) and keep every field private',
               'D6 every field accessor touches the field of its name (trait defaults over VData, both back ends\' inputs/outputs/scalar accessors); the vector back end\'s coordinate overrides agree with the defaults')
    ck.not_decided('behaviour under histories longer than the explored depth (the induction over D1/D2/D4 steps is ours)', 'self-loops and parallel edges (invalid arguments)', 'enumeration order', 'the default methods built on top (append_graph, subgraph, plug: decided where other properties anchor them)')
    # D0 (round 2): both back ends interpreted under every sequence of editing operations a small model graph admits (bounded differential exploration)
    from .. import graphsem, minirust as _mr
    try:
        plans = [('empty', 3, 3), ('hole-and-edges', 2, 4), ('named-beyond-the-end', 2, 4)] if ck.tier != 'thorough' else [('empty', 4, 3), ('hole-and-edges', 3, 4), ('named-beyond-the-end', 3, 4)]
        tot_states = tot_ops = 0
        first = None
        for seed, depth, mv in plans:
            mis, ns, no = graphsem.explore(facts, depth=depth, max_v=mv, seed=seed, limit=40000)
            tot_states += ns
            tot_ops += no
            if mis and first is None:
                first = '[from the %s graph] %s' % (seed, mis)
        ck.ob('E3-backends', 'agreement-under-operation-sequences', first is None, 'quizx/src/vec_graph.rs, quizx/src/hash_graph.rs',
              'the two back ends, the counts and the adjacency must stay consistent with the graph the operations describe: %s' % first, sample={'states': tot_states, 'operations': tot_ops})
        ck.floor('E3-backends-states', tot_states, 900)
        if first is None:
            why = 'the behaviour under operation sequences was decided by E3-backends in this run'
            ck.positive_only = dict((r, why) for r in ('R-PAIR-repr', 'R-SIB-events', 'R-SIB-failure', 'R-SIB-orientation', 'R-SIB-presence', 'R-PAIR-pack', 'R-TABLE-accessor', 'R-BOUNDS-total'))
        ck.note('back ends: %d distinct pairs of representations reached by %d operations (depth-bounded, from three seed graphs), every observable compared with a model after each' % (tot_states, tot_ops))
    except (_mr.NoEval, _mr.Proceed, TypeError, KeyError, IndexError, AttributeError, ValueError) as ex:
        ck.ob3('E3-backends', 'evaluable', None, 'quizx/src/vec_graph.rs, quizx/src/hash_graph.rs', 'the back ends are not evaluable by the interpreter (%s: %s): behaviour under operation sequences is not decided (the per-method rules below still are)' % (type(ex).__name__, ex))
    stats = {'methods': 0, 'paths': 0, 'mutators': 0, 'index_proved': 0, 'total_sites': 0}
    methods = {}
    for be in (VEC, HASH):
        ms = sorted(k.split('::')[-1] for k in facts['fns'] if k.startswith('<%s as %s>::' % (be, GL)))
        methods[be] = ms
        for m in ms:
            d1_method(ck, facts, be, m, stats)
        ck.fn('%s::remove_half_edge' % be)
        helper_half_edge(ck, facts, be)
    ck.floor('R-PAIR-repr methods', stats['methods'], 70)
    ck.floor('R-PAIR-repr mutating methods', stats['mutators'], 13)
    # inherent methods other than the helpers must not write the representation
    for be in (VEC, HASH):
        for k, f in facts['fns'].items():
            if k.startswith(be + '::') and not k.endswith('::remove_half_edge') and f.get('vis') == 'Public':
                model = Model(facts, be, k)
                model.total = False
                evs = [e for n in hir.nodes(f['hir']) for e in model.classify(n) if e.kind != 'borrow']
                un = model.unclaimed()
                ck.ob('R-PAIR-repr', k, not evs and not un, ck.site(k), 'a PUBLIC inherent method updates the representation outside the GraphLike methods the invariant argument covers (%s)' % ', '.join([repr(e) for e in evs[:3]] + [w for _n, w in un[:3]]))
    # D2
    for be in (VEC, HASH):
        for m in OPTIONAL:
            if m in methods[be]:
                total_method(ck, facts, be, m, stats)
            else:
                ck.violation('R-BOUNDS-total', '%s::%s' % (be.split('::')[0], m), '', 'anchor-missing: %s::%s' % (be, m))
    ck.floor('R-BOUNDS-total sites', stats['total_sites'], 4)
    # D3
    common = [m for m in methods[VEC] if m in methods[HASH] and m != 'pack']
    n_cmp = 0
    for m in common:
        a, b = neutral_summary(facts, VEC, m), neutral_summary(facts, HASH, m)
        if not a and not b:
            continue
        a = {x for x in a if x[1] or x[0] == 'err'}
        b = {x for x in b if x[1] or x[0] == 'err'}
        if not a and not b:
            continue
        n_cmp += 1
        if any('unknown' in x[1] for x in a | b):
            ck.ob3('R-SIB-events', m, None, ck.site(mkey(VEC, m)), 'one back end updates the representation with an operation the abstraction map does not cover')
            continue
        ck.ob('R-SIB-events', m, a == b, ck.site(mkey(VEC, m)), 'the back ends differ in what `%s` does to the abstract graph: vector %s, hash %s' % (m, sorted(a - b), sorted(b - a)), sample={'neutral': sorted(a)[:3]})
    ck.floor('R-SIB-events', n_cmp, 6)
    for be in (VEC, HASH):
        ok, detail, n = presence_on_err(facts, be)
        ck.ob3('R-SIB-failure', '%s::add_named_vertex_with_data' % be.split('::')[0], ok, ck.site(mkey(be, 'add_named_vertex_with_data')), detail, sample={'err_paths': n})
        for m in ('edges', 'find_edge'):
            ok, detail = orientation(facts, be, m)
            if ok is None:
                ck.violation('R-SIB-orientation', '%s::%s' % (be.split('::')[0], m), ck.site(mkey(be, m)), detail)
            else:
                ck.ob('R-SIB-orientation', '%s::%s' % (be.split('::')[0], m), ok, ck.site(mkey(be, m)), detail if not ok else '', sample={'established': detail})
        for m, ok, detail in count_accessors(facts, be):
            ck.ob('R-TABLE-accessor', '%s::%s' % (be.split('::')[0], m), ok, ck.site(mkey(be, m)), detail)
    for m in ('find_vertex', 'vertices'):
        ok, detail = presence_filter(facts, m)
        if ok is None:
            ck.violation('R-SIB-presence', 'vec_graph::%s' % m, ck.site(mkey(VEC, m)), detail)
        else:
            ck.ob('R-SIB-presence', 'vec_graph::%s' % m, ok, ck.site(mkey(VEC, m)), detail)
    # D4
    pk = mkey(VEC, 'pack')
    ck.fn(pk)
    pr = pack_rule(facts, pk, facts['adts'][VEC])
    for slot, ok, msg in pr:
        ck.ob3('R-PAIR-pack', 'vec_graph::pack/' + slot, ok, ck.site(pk), msg)
    ck.floor('R-PAIR-pack', len(pr), 10)
    hp = Model(facts, HASH, mkey(HASH, 'pack'))
    hp.total = True
    # D5
    for be in (VEC, HASH):
        for slot, ok, msg in ownership(facts, be):
            ck.ob('R-ENCAP-own', '%s/%s' % (be.split('::')[0], slot), ok, ck.site(mkey(be, 'new')), msg)
    # D6
    n_acc = 0
    for where in ('trait', 'vec'):
        for key, ok, msg in accessor_rules(facts, where):
            n_acc += 1
            if ok is None:
                ck.violation('R-TABLE-accessor', key, '', msg)
            else:
                ck.ob('R-TABLE-accessor', key, ok, ck.site(key), msg)
    for be in (VEC, HASH):
        names = set(FIELD_ACCESSORS.values())
        for m, fld in FIELD_ACCESSORS.items():
            f = ck.fn(mkey(be, m))
            got = which_field(f, names | set(REPR[be]))
            n_acc += 1
            ck.ob('R-TABLE-accessor', '%s::%s' % (be.split('::')[0], m), got == {fld}, ck.site(mkey(be, m)), '`%s` touches field(s) {%s}, expected only `%s`' % (m, ', '.join(sorted(got)), fld))
    for be in (VEC, HASH):
        f = ck.fn(mkey(be, 'mul_scalar_factor'))
        ok, got = scalar_factor_rule(f)
        ck.ob('R-SIB-scalar', '%s::mul_scalar_factor' % be.split('::')[0], ok, ck.site(mkey(be, 'mul_scalar_factor')),
              'mul_scalar_factor must multiply the stored factor by s when the expression already has one and insert (e, s) otherwise; it does %s — the back ends then answer get_scalar_factor differently' % (got,), sample={'paths': [list(x) for x in got]})
    ck.floor('R-TABLE-accessor', n_acc, 40)
    ck.note('methods analysed: %d, non-diverging paths: %d, mutating methods: %d, direct slot writes proved in bounds: %d' % (stats['methods'], stats['paths'], stats['mutators'], stats['index_proved']))
    controls(ck)


def controls(ck):
    fx = fixture()

    class Sink:
        def __init__(self):
            self.bad = {}

        def ob(self, rule, key, ok, site='', msg='', sample=None):
            if not ok:
                self.bad[key] = msg

        def ob3(self, rule, key, ok, site='', msg='', sample=None):
            if ok is False:
                self.bad[key] = msg
            elif ok is None:
                self.bad[key] = 'UNDECIDED ' + msg

        def site(self, *a):
            return ''
    s = Sink()
    st = {'methods': 0, 'paths': 0, 'mutators': 0, 'index_proved': 0, 'total_sites': 0}
    for be, ms in ((VEC, ('add_edge_with_type', 'remove_vertex', 'add_named_vertex_with_data', 'set_edge_type')), (HASH, ('add_named_vertex_with_data', 'remove_edge'))):
        for m in ms:
            d1_method(s, fx, be, m, st)
    ck.control('R-PAIR-repr flags an edge insertion with one half-edge', 'half-edge' in s.bad.get('vec_graph::add_edge_with_type', ''))
    ck.control('R-PAIR-repr flags an emptied slot that is not recorded in holes', 'not recorded in holes' in s.bad.get('vec_graph::remove_vertex', ''))
    ck.control('R-PAIR-repr/D2 flags the off-by-one resize', 'not proved in bounds' in s.bad.get('vec_graph::add_named_vertex_with_data', ''))
    ck.control('R-PAIR-repr flags a one-sided edge type write', 'side' in s.bad.get('vec_graph::set_edge_type', ''))
    ck.control('R-PAIR-repr flags a named insertion that does not advance freshv', 'freshv' in s.bad.get('hash_graph::add_named_vertex_with_data', ''))
    ck.control('R-PAIR-repr flags an unrecognised representation write', 'unrecognised' in s.bad.get('hash_graph::remove_edge', ''))
    total_method(s, fx, VEC, 'contains_vertex', st)
    ck.control('R-BOUNDS-total flags unguarded indexing', 'contains_vertex' in ''.join(k for k in s.bad if 'contains_vertex' in k))
    ck.control('R-SIB-orientation flags find_edge without the filter', orientation(fx, HASH, 'find_edge')[0] is False)
    ck.control('R-SIB-presence flags find_vertex over empty slots', presence_filter(fx, 'find_vertex')[0] is False)
    ck.control('R-SIB-failure flags an inverted presence test', presence_on_err(fx, HASH)[0] is False)
    pr = dict((slot, ok) for slot, ok, _m in pack_rule(fx, mkey(VEC, 'pack'), fx['adts'][VEC]))
    ck.control('R-PAIR-pack flags a field that is not renamed', pr.get('rename/outputs') is False and pr.get('rename/inputs') is True)
    ck.control('R-ENCAP-own flags a hand-written Clone', any(not ok for slot, ok, _m in ownership(fx, HASH) if slot == 'derive/clone'))
    acc = dict((k, ok) for k, ok, _m in accessor_rules(fx, 'trait'))
    ck.control('R-TABLE-accessor flags set_row writing qubit', acc.get(GL + '::set_row') is False)
    f = fx['fns'][mkey(HASH, 'outputs_mut')]
    ck.control('R-TABLE-accessor flags outputs_mut returning inputs', which_field(f, {'inputs', 'outputs'}) != {'outputs'})
    ck.control('R-SIB-scalar flags an overwriting mul_scalar_factor', scalar_factor_rule(fx['fns'][mkey(HASH, 'mul_scalar_factor')])[0] is False)
    a, b = neutral_summary(fx, VEC, 'add_vertex_with_data'), neutral_summary(fx, HASH, 'add_vertex_with_data')
    ck.control('R-SIB-events flags differing neutral events', a != b)
