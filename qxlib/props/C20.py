"""C20 — detection webs: inputs/outputs restored; node order keyed by boundary status."""
from .. import hir, paths
from ..controls import fixture

DW = 'detection_webs::detection_webs'
ON = 'detection_webs::ordered_nodes'
B = 'graph::VType::B'


def restore_rule(f):
    """on every path to a return, the last set_inputs / set_outputs writes back the value saved before the first setter.
    Returns one verdict per distinct (last set_inputs, last set_outputs) pair: [(ok, n_paths, why, sample)]"""
    gid = f['params'][0]['id'] if f['params'] and f['params'][0].get('k') == 'Bind' else None

    def is_setter(n):
        return n.get('k') == 'MethodCall' and n['name'] in ('set_inputs', 'set_outputs') and hir.local(n['recv']) and hir.local(n['recv'])[1] == gid
    # values saved at the top level of the body before the first statement that contains a setter
    saved = {}
    for s in hir.stmts_of(f['hir']):
        if any(is_setter(n) for n in hir.nodes(s)):
            break
        if s.get('k') == 'Let' and s.get('init') is not None and s['pat'].get('k') == 'Bind':
            kind = _saved_kind(s['init'], gid)
            if kind:
                saved[s['pat']['id']] = kind
    eps = paths.effect_paths(hir.stmts_of(f['hir']), is_setter)
    groups = {}
    for p in eps:
        if p.end == 'diverge':
            continue
        last = {}
        for e in p.events:
            if isinstance(e, tuple):
                for q in e[2]:
                    for x in q.events:
                        if isinstance(x, dict):
                            last[x['name']] = None   # set inside a loop: value unknown
                continue
            last[e['name']] = e
        if not last:
            continue
        key = tuple(id(last.get(k)) if last.get(k) is not None else None for k in ('set_inputs', 'set_outputs'))
        g = groups.setdefault(key, [last, 0])
        g[1] += 1
    res = []
    for key, (last, n) in groups.items():
        ok = True
        why = []
        for setter, kind in (('set_inputs', 'inputs'), ('set_outputs', 'outputs')):
            if setter not in last:
                continue
            e = last[setter]
            l = hir.local(e['args'][0]) if e is not None else None
            if not (l and saved.get(l[1]) == kind):
                ok = False
                why.append('the last %s before return does not write back the %s saved before the first setter (it writes `%s`)' % (setter, kind, hir.pp(e['args'][0])[:30] if e else 'a value set in a loop'))
        res.append((ok, n, '; '.join(why), {'paths': n, 'last_set_inputs': hir.pp(last['set_inputs'])[:40] if last.get('set_inputs') else None,
                                           'last_set_outputs': hir.pp(last['set_outputs'])[:40] if last.get('set_outputs') else None}))
    return res


def _saved_kind(init, gid):
    i = hir.strip(init)   # strips .clone()
    if i is not None and i.get('k') == 'MethodCall' and i['name'] in ('inputs', 'outputs') and hir.local(i['recv']) and hir.local(i['recv'])[1] == gid:
        return i['name']
    return None


def _cmp_type_b(e, var_ids):
    """comparison of vertex_type(v) with VType::B inside e: returns 'ne' / 'eq' / None (v one of var_ids; let-bound aliases followed)"""
    alias = set(var_ids)
    tvars = set()
    for n in hir.nodes(e):
        if n.get('k') == 'Let' and n.get('init') is not None and n['pat'].get('k') == 'Bind':
            i = hir.strip(n['init'])
            if i.get('k') == 'MethodCall' and i['name'] == 'vertex_type' and hir.local(i['args'][0]) and hir.local(i['args'][0])[1] in alias:
                tvars.add(n['pat']['id'])

    def is_ty(x):
        x = hir.strip(x)
        if x.get('k') == 'MethodCall' and x['name'] == 'vertex_type' and hir.local(x['args'][0]) and hir.local(x['args'][0])[1] in alias:
            return True
        l = hir.local(x)
        return bool(l and l[1] in tvars)
    out = []
    for n in hir.nodes(e):
        if n.get('k') == 'Binary' and n['op'] in ('Eq', 'Ne'):
            for a, b in ((n['l'], n['r']), (n['r'], n['l'])):
                if is_ty(a) and hir.def_path(b) == B:
                    out.append('ne' if n['op'] == 'Ne' else 'eq')
    return out


def must_conjuncts(e):
    """top-level conjuncts of a boolean closure body (through a trailing block expression)"""
    e = hir.strip(e)
    if e.get('k') == 'Block':
        st = hir.stmts_of(e)
        return must_conjuncts(st[-1]) if st else []
    if e.get('k') == 'Binary' and e['op'] == 'And':
        return must_conjuncts(e['l']) + must_conjuncts(e['r'])
    return [e]


def order_rule(f):
    """the returned node list has the boundary (B-typed) vertices first, whatever their ids:
    recognised idioms — (a) a stable sort of the list keyed by `vertex_type(v) != B` after which only non-B vertices are appended,
    (b) the first segment is produced by a filter that requires vertex_type(v) == B and later segments exclude B."""
    st = hir.stmts_of(f['hir'])
    tail = hir.strip(st[-1]) if st else None
    if tail is None or tail.get('k') != 'Tup' or not hir.local(tail['items'][0]):
        return None, 'ordered_nodes does not return (list, map) with a local list (anchor-missing)'
    vid = hir.local(tail['items'][0])[1]
    # provenance of the list: initial value + in-place operations, in order
    ops = []
    env = {}
    for s in st:
        if s.get('k') == 'Let' and s['pat'].get('k') == 'Bind' and s.get('init') is not None:
            env[s['pat']['id']] = s['init']
            if s['pat']['id'] == vid:
                ops.append(('init', s['init']))
        s0 = hir.strip(s)
        if s0.get('k') == 'MethodCall' and hir.local(s0['recv']) and hir.local(s0['recv'])[1] == vid:
            ops.append((s0['name'], s0))
    if not ops or ops[0][0] != 'init':
        return None, 'the node list is not built by `let mut vertices = ..; vertices.extend(..)` (not-established-by-recognised-idiom)'

    def filter_facts(expr):
        """for an iterator chain: list of 'eq'/'ne' facts about vertex_type(v) vs B required by its filters"""
        facts = []
        for c in hir.calls(expr):
            if c.get('k') == 'MethodCall' and c['name'] == 'filter' and c['args'] and hir.strip(c['args'][0]).get('k') == 'Closure':
                cl = hir.strip(c['args'][0])
                ids = [i for p in cl['params'] for _n, i in hir.bindings(p)]
                for conj in must_conjuncts(cl['body']):
                    for x in _cmp_type_b(conj, ids) or []:
                        if hir.strip(conj).get('k') == 'Binary' and hir.strip(conj)['op'] in ('Eq', 'Ne'):
                            facts.append(x)
                # comparisons on let-bound type variables inside the closure block
                body = hir.strip(cl['body'])
                if body.get('k') == 'Block':
                    last = hir.stmts_of(body)[-1]
                    for conj in must_conjuncts(last):
                        c0 = hir.strip(conj)
                        if c0.get('k') == 'Binary' and c0['op'] in ('Eq', 'Ne'):
                            r = _cmp_type_b(body, ids)
                            # restrict to this conjunct
                            rr = [('ne' if c0['op'] == 'Ne' else 'eq')] if r and (hir.def_path(c0['r']) == B or hir.def_path(c0['l']) == B) else []
                            facts += rr
        return facts
    # follow a plain local initialiser (let mut vertices = outputs.clone())
    init = ops[0][1]
    seen = 0
    while hir.local(init) and hir.local(init)[1] in env and seen < 5:
        init = env[hir.local(init)[1]]
        seen += 1
    first_b_only = 'eq' in filter_facts(init)
    sorted_b_first = False
    ok = first_b_only
    for name, node in ops[1:]:
        if name in ('sort_by_key', 'sort_by_cached_key'):
            cl = hir.strip(node['args'][0])
            if cl.get('k') == 'Closure':
                ids = [i for p in cl['params'] for _n, i in hir.bindings(p)]
                body = hir.strip(cl['body'])
                st2 = hir.stmts_of(body) if body.get('k') == 'Block' else [body]
                key = hir.strip(st2[-1])
                # primary key: `vertex_type(v) != B` (false sorts first, the sort is stable); also as first element of a tuple key
                if key.get('k') == 'Tup' and key['items']:
                    key = hir.strip(key['items'][0])
                r = _cmp_type_b(key, ids) if key.get('k') == 'Binary' else []
                if r == ['ne']:
                    sorted_b_first = True
                    ok = True
        elif name in ('extend', 'append', 'push', 'extend_from_slice', 'insert'):
            # anything appended after the B-first point must exclude B vertices
            if ok and 'ne' not in filter_facts(node):
                ok = False
        elif name in ('sort', 'sort_unstable', 'sort_unstable_by_key', 'reverse', 'dedup', 'retain', 'swap', 'rotate_left', 'rotate_right'):
            if name != 'retain' and name != 'dedup':
                ok = False
                sorted_b_first = False
    how = 'first segment filtered on vertex_type == B' if first_b_only and ok else ('stable sort keyed by vertex_type != B' if sorted_b_first and ok else None)
    if ok:
        return True, how
    return False, ('the first block of the node list is not keyed by boundary status: it is %s — boundary vertices are first only if their ids happen to be the smallest, '
                   'but detection_webs() couples the identity block and the no-output rows to the first `outs` positions' % hir.pp(init)[:80])


# ---------------------------------------------------------------- D6: make_bipartite replaces an edge, never deletes one; bare wires

MB = 'graph::GraphLike::make_bipartite'


def bipartite_rule(f, facts_fns=()):
    """[(slot, ok, msg)]: every edge that make_bipartite removes is replaced by a two-edge path through a fresh spider of the opposite colour, on every path;
    only same-typed pairs are split; the fresh spider is phase-free."""
    res = []

    def is_ev(n):
        return n.get('k') == 'MethodCall' and n['name'] in ('remove_edge', 'add_edge', 'add_edge_with_type', 'add_edge_smart', 'add_vertex_with_data', 'add_vertex', 'add_vertex_with_phase') and hir.local_name(n['recv']) == 'self'
    loops = [n for n in hir.find(f['hir'], 'For') if any(is_ev(x) and x['name'] == 'remove_edge' for x in hir.nodes(n['body']))]
    if len(loops) != 1:
        return [('shape', None, 'the loop over the edges that removes and re-routes same-coloured edges was not found (not-established-by-recognised-idiom)')]
    body = hir.stmts_of(loops[0]['body'])
    eps = paths.effect_paths(body, is_ev)
    n_rm = 0
    bad = None
    for p in eps:
        names = [e['name'] for e in p.events if isinstance(e, dict)]
        if 'remove_edge' not in names:
            continue
        n_rm += 1
        rm = [e for e in p.events if isinstance(e, dict) and e['name'] == 'remove_edge'][0]
        after = p.events[p.events.index(rm) + 1:]
        adds = [e for e in after if isinstance(e, dict) and e['name'].startswith('add_edge')]
        newv = [e for e in p.events if isinstance(e, dict) and e['name'].startswith('add_vertex')]
        a, b = rm['args'][0], rm['args'][1]
        ok = len(adds) == 2 and len(newv) == 1 and p.end in ('end',)
        if ok:
            # the two new edges join a and b to the fresh vertex
            ends = []
            for e in adds:
                for x in e['args'][:2]:
                    if hir.same_expr(x, a):
                        ends.append('a')
                    elif hir.same_expr(x, b):
                        ends.append('b')
            ok = sorted(ends) == ['a', 'b']
        if not ok and bad is None:
            bad = ('on the path [%s] the edge (%s, %s) is removed and %s: the edge is deleted from the diagram (a wire between two boundaries disappears)' % (
                '; '.join(p.cond_texts())[:120], hir.pp(a)[:12], hir.pp(b)[:12],
                'the iteration is left (%s) before it is re-routed' % p.end if p.end != 'end' else 'not replaced by the two-edge path through one fresh vertex (found %d new edges, %d new vertices)' % (len(adds), len(newv))))
    res.append(('every-removed-edge-is-rerouted', n_rm >= 1 and bad is None, bad or 'no path removes an edge'))
    # only same-typed pairs; opposite colour; phase-free
    pm = hir.parent_map(f['hir'])
    rms = [n for n in hir.nodes(loops[0]['body']) if is_ev(n) and n['name'] == 'remove_edge']
    same = None
    opaque = False
    for c in paths.dominating_conds(rms[0], pm):
        if c[0] == 'cond':
            e = hir.strip(c[1])
            if e.get('k') == 'Binary' and e['op'] in ('Eq', 'Ne') and 'type' in hir.pp(e):
                if (e['op'] == 'Eq') == bool(c[2]):
                    same = True
            elif any((hir.callee(x) or '') in facts_fns for x in hir.calls(e)):
                opaque = True
    if same is None and not opaque:
        same = False
    res.append(('only-same-coloured-neighbours', same, 'an edge may be split only when both ends have the same type'))
    tbl = {}
    for m in hir.find(loops[0]['body'], 'Match'):
        for arm in m['arms']:
            pc = hir.pat_ctor(arm['pat']) or (hir.def_path({'k': 'Path', 'res': arm['pat'].get('res', {})}) if arm['pat'].get('k') == 'Path' else None) or ''
            bd = hir.def_path(hir.strip(arm['body'])) or ''
            if pc.startswith('graph::VType::') and bd.startswith('graph::VType::'):
                tbl[pc[-1]] = bd[-1]
    res.append(('opposite-colour', tbl == {'X': 'Z', 'Z': 'X'}, 'the inserted spider must have the opposite colour of the two it separates (X<->Z); found %s' % tbl))
    nv = [n for n in hir.nodes(loops[0]['body']) if is_ev(n) and n['name'] == 'add_vertex_with_data']
    phase_free = False
    if len(nv) == 1:
        st = hir.strip(nv[0]['args'][0])
        if st.get('k') == 'Struct':
            d = dict(st['fields'])
            phase_free = 'phase' in d and (hir.callee(hir.strip(d['phase'])) or '').endswith('zero') and 'vars' in d and (hir.callee(hir.strip(d['vars'])) or '').endswith('default')
    elif any(is_ev(n) and n['name'] == 'add_vertex' for n in hir.nodes(loops[0]['body'])):
        phase_free = True
    res.append(('phase-free-identity-spider', phase_free, 'the inserted spider must carry phase 0 and no parameters (it is an identity)'))
    return res


def _type_vs_b(fns):
    """all comparisons of a vertex type with VType::B in the given function bodies: list of 'eq' / 'ne' (effective, i.e. `!(t == B)` is 'ne' only syntactically: both spellings are listed as written)"""
    out = []
    for g in fns:
        for n in hir.nodes(g['hir']):
            if n.get('k') == 'Binary' and n['op'] in ('Eq', 'Ne'):
                for a, b in ((n['l'], n['r']), (n['r'], n['l'])):
                    if hir.def_path(hir.strip(b)) == B and ('vertex_type' in hir.pp(a) or 'Type' in (hir.strip(a).get('ty') or '')):
                        out.append('ne' if n['op'] == 'Ne' else 'eq')
            if n.get('k') == 'Match' and 'VType' in (hir.strip(n['scrut']).get('ty') or ''):
                for a in n['arms']:
                    if (hir.pat_ctor(a['pat']) or hir.pp_pat(a['pat'])).endswith('::B') or hir.pp_pat(a['pat']) == 'B':
                        out.append('eq')
    return out


def bare_wire_rule(facts, fdw, fon):
    """boundaries that are not attached to a spider take no part: only spiders are collected as boundary-adjacent, and such boundaries are left out of the node order.
    Presence rules, evaluated over the function and the local helpers it calls."""
    from .. import hfacts
    res = []
    cmps = _type_vs_b([fdw] + hfacts.local_callees(facts, fdw))
    # one comparison selects the boundaries (== B), another one must exclude boundaries among their neighbours (!= B, or == B negated/else-branch)
    ok = len(cmps) >= 2 and 'ne' in cmps or cmps.count('eq') >= 2
    res.append(('boundary-adjacent-are-spiders', bool(ok), 'the vertices collected as boundary-adjacent must be spiders (a second type test against B, on the neighbour): with a bare wire the far boundary is counted as a spider, the block sizes no longer add up (subtraction overflow); type tests found: %s' % cmps))
    excl = False
    for g in [fon] + hfacts.local_callees(facts, fon):
        for n in hir.nodes(g['hir']):
            if n.get('k') == 'MethodCall' and n['name'] in ('any', 'all') and 'neighbors' in hir.pp(n['recv']) and _type_vs_b([{'hir': n}]):
                excl = True
            if n.get('k') == 'For' and 'neighbors' in hir.pp(n['iter']) and _type_vs_b([{'hir': n['body']}]):
                excl = True
    res.append(('bare-boundaries-left-out', excl, 'a boundary whose neighbours are all boundaries must be left out of the node order (it would occupy a row of the identity block without a column)'))
    return res


def _d0(ck):
    """the statement itself on small Pauli diagrams (qxlib/zxsem.py)"""
    from .. import zxsem, minirust
    ck.decided('D0 (evaluation, small scope) detection_webs, ordered_nodes, pw, make_bipartite, adjacency_matrix and the vector back end interpreted from their HIR (bitgauss::BitMatrix as a host) on 18 small Pauli diagrams '
               '(closed and open, same-colour neighbours, up to 7 spiders) in three vertex numberings (boundaries first, last, interleaved) with and without pi phases: every returned web leaves the boundary edges unmarked and '
               'satisfies the spider constraints everywhere, the webs are linearly independent, their number equals the dimension of the space of all valid webs (brute-force enumeration of every edge marking), it does not depend '
               'on the numbering, and inputs and outputs are restored')
    try:
        st, bad, declined = zxsem.run_webs(ck.facts)
    except (minirust.NoEval, minirust.Proceed) as ex:
        ck.ob3('E3-webs', 'evaluation', None, ck.site(DW), 'the evaluator declined (%s: %s)' % (type(ex).__name__, ex))
        return
    clauses = [('no-panic', lambda w: w.startswith('panics')), ('inputs-outputs-restored', lambda w: w.startswith('the inputs / outputs are')),
               ('webs-valid', lambda w: w.startswith(('a returned web is not valid', 'a web marks'))), ('webs-independent', lambda w: 'linearly dependent' in w),
               ('webs-complete', lambda w: 'valid webs, the' in w), ('numbering-independent', lambda w: w.startswith('the number of webs depends'))]
    for name, pred in clauses:
        hit = [b for b in bad if pred(b[1])]
        if hit:
            ck.ob('E3-webs', name, False, ck.site(DW), 'on the diagram with %s: %s [%d such cases in this run]' % (hit[0][0], hit[0][1][:700], len(hit)))
        else:
            ck.ob('E3-webs', name, True, ck.site(DW), '', sample={'clause': name, 'cases': st['cases'], 'webs_returned_in_total': st['webs']} if name == 'webs-valid' else None)
    other = [b for b in bad if not any(pred(b[1]) for _n, pred in clauses)]
    if other:
        ck.ob('E3-webs', 'other', False, ck.site(DW), '%s: %s' % other[0])
    ck.floor('E3-webs-cases', st['cases'], 100)
    ck.floor('E3-webs-cases-with-webs', st['with_webs'], 30)
    if st['declined'] * 10 > max(1, st['cases']):
        k0 = sorted(declined)[0]
        ck.ob3('E3-webs', 'declined', None, ck.site(DW), 'the evaluator declined %d cases, e.g. %s on %s' % (st['declined'], k0, declined[k0]))
    ck.note('E3-webs: %d cases, %d webs returned in total, %d cases with at least one web, %d declined' % (st['cases'], st['webs'], st['with_webs'], st['declined']))


def run(ck):
    ck.decided('D6 make_bipartite re-routes every edge it removes through one fresh phase-free spider of the opposite colour on every path (it never deletes an edge), splits only same-coloured pairs, and runs first; boundaries not attached to a spider (bare wires) are not counted as boundary-adjacent spiders and are left out of the node order',
               'D3 the column offset pw() recomputes (g.inputs().len() + g.outputs().len()) is the width of the identity block: the width is the length of the very vector installed with set_outputs, unmodified in between, inputs emptied, nothing changes them before pw() runs; pw() looks nodes up as index_map[col - n_outs] over all columns',
               'D4 the matrix whose null space is taken has the block structure [[I_outs;0 | N],[I_2outs | 0]] (symbolic shapes, every vstack/hstack dimension-consistent)',
               'D5 pw(): Z spiders and X spiders mark two different edge sets over all incident edges; both -> Y, X only -> Z, Z only -> X; every basis vector becomes one returned web; set_edge/edge share the (min,max) key',
               'D1 inputs and outputs are restored: on every path to return the last set_inputs/set_outputs writes back the value saved before the first setter, each to its own setter',
               'D2 the node order handed to the block-matrix construction has the boundary vertices first whatever their ids (necessary for numbering independence: the [I|N] block and the no-output rows are positional)')
    ck.not_decided('validity, independence, completeness and numbering independence beyond the evaluated small scope')
    _d0(ck)
    f = ck.fn(DW)
    res = restore_rule(f)
    for i, (ok, n, why, sample) in enumerate(res):
        ck.ob('R-PAIR-restore', DW + '/exit-%d' % i, ok, ck.site(DW), why, sample=sample)
    ck.floor('R-PAIR-restore', len(res), 1)
    setters = [c for c in hir.calls(f['hir']) if c.get('k') == 'MethodCall' and c['name'] in ('set_inputs', 'set_outputs')]
    ck.floor('R-PAIR-restore-setters', len(setters), 4)
    # the order produced by ordered_nodes is the one used for the adjacency matrix and for the index map
    on = ck.fn(ON)
    ok, how = order_rule(on)
    if ok is None:
        ck.violation('R-MATCH-order', ON + '/boundary-first', ck.site(ON), how)
    else:
        ck.ob('R-MATCH-order', ON + '/boundary-first', ok, ck.site(ON), how if not ok else '', sample={'established_by': how})
    calls = hir.calls_to(f['hir'], ON)
    used = False
    if len(calls) == 1:
        for n in hir.nodes(f['hir']):
            if n.get('k') == 'Let' and n.get('init') is not None and hir.strip(n['init']) is calls[0] and n['pat'].get('k') == 'Tuple':
                lid = hir.bindings(n['pat']['sub'][0])
                am = [c for c in hir.calls(f['hir']) if c.get('k') == 'MethodCall' and c['name'] == 'adjacency_matrix']
                used = bool(lid and am and any(hir.local(x) and hir.local(x)[1] == lid[0][1] for x in hir.nodes(am[0]) if x.get('k') == 'Path'))
    ck.ob('R-MATCH-order', DW + '/order-used-for-adjacency', used, ck.site(DW), 'the adjacency matrix is not built in the node order returned by ordered_nodes')
    # D3: offset agreement between detection_webs and pw
    fpw = ck.fn(PW)
    for slot, ok, msg in offset_rule(f, fpw):
        if ok is None:
            ck.violation('R-DATAFLOW-offset', DW + '/' + slot, ck.site(DW), msg)
        else:
            ck.ob('R-DATAFLOW-offset', DW + '/' + slot, ok, ck.site(DW if not slot.startswith('pw/') else PW), msg)
    # D4: block structure
    ok, msg, sample = block_rule(f)
    if ok is None:
        ck.violation('R-SHAPE-blocks', DW + '/constraint-matrix', ck.site(DW), msg + ' (not-established-by-recognised-idiom)')
    else:
        ck.ob('R-SHAPE-blocks', DW + '/constraint-matrix', ok, ck.site(DW), msg, sample=sample)
    # D5: tables of pw
    for slot, ok, msg in web_tables(fpw):
        ck.ob3('R-TABLE-web', PW + '/' + slot, ok, ck.site(PW), msg)
    ok, msg = collect_rule(f)
    if ok is None:
        ck.violation('R-PAIR-collect', DW + '/every-basis-vector', ck.site(DW), msg)
    else:
        ck.ob('R-PAIR-collect', DW + '/every-basis-vector', ok, ck.site(DW), msg)
    # D6: make_bipartite (graph.rs, the first thing detection_webs does) and bare wires
    fmb = ck.fn(MB)
    for slot, ok, msg in bipartite_rule(fmb, ck.facts['fns']):
        if ok is None:
            ck.violation('R-PAIR-reroute', MB + '/' + slot, ck.site(MB), msg)
        else:
            ck.ob3('R-PAIR-reroute', MB + '/' + slot, ok, ck.site(MB), msg)
    ck.ob('R-PAIR-reroute', DW + '/bipartite-first', bool(hir.stmts_of(f['hir'])) and any(c.get('k') == 'MethodCall' and c['name'] == 'make_bipartite' for s0 in hir.stmts_of(f['hir'])[:2] for c in hir.calls(s0)), ck.site(DW),
          'detection_webs must convert the diagram to bipartite form before anything else (the firing model needs every edge to join different colours)')
    for slot, ok, msg in bare_wire_rule(ck.facts, f, on):
        ck.ob('R-DOMAIN-bare-wire', DW + '/' + slot, ok, ck.site(DW), msg)
    # key normalisation of PauliWeb: set_edge and edge use the same (min, max) key
    keys = {}
    for m in ('set_edge', 'edge'):
        fm = ck.fn('detection_webs::PauliWeb::' + m)
        tups = [t for t in hir.find(fm['hir'], 'Tup') if len(t['items']) == 2]
        keys[m] = sorted(hir.strip(x)['name'] for t in tups for x in t['items'] if hir.strip(x).get('k') == 'MethodCall' and hir.strip(x)['name'] in ('min', 'max'))
    ck.ob('R-SIB-key', 'PauliWeb/set_edge~edge', keys['set_edge'] == ['max', 'min'] and keys['edge'] == ['max', 'min'], ck.site('detection_webs::PauliWeb::set_edge'),
          'set_edge and edge must both key the map by (min(from,to), max(from,to)); found %s' % keys)
    # positive controls
    fx = fixture()
    ck.control('R-DATAFLOW-offset flags a width taken before the outputs are deduplicated', any(ok is False for _s, ok, _m in offset_rule(fx['fns'][DW], fx['fns'][PW])))
    ck.control('R-SHAPE-blocks flags a no-output block of the wrong size', block_rule(fx['fns'][DW])[0] is False)
    ck.control('R-TABLE-web flags swapped Pauli letters', any(ok is False for _s, ok, _m in web_tables(fx['fns'][PW])))
    ck.control('R-PAIR-restore flags swapped restores', any(not r[0] for r in restore_rule(fx['fns'][DW])))
    ck.control('R-MATCH-order flags an id-sorted first block', order_rule(fx['fns'][ON])[0] is False)
    ck.include('C09', 'detection_webs edits the diagram it is given (make_bipartite inserts spiders, edges are removed and re-added): on either back end that rests on fresh-vertex allocation and edge bookkeeping')



# ---------------------------------------------------------------- D3: the column offset used by pw() is the width of the left block

PW = 'detection_webs::pw'


def _top_lets(f):
    """local id -> (index of the top-level statement, init expr) for plain `let x = init;` at the top level of the body"""
    out = {}
    for i, s in enumerate(hir.stmts_of(f['hir'])):
        if s.get('k') == 'Let' and s.get('init') is not None:
            for nm, lid in hir.bindings(s['pat']):
                out[lid] = (i, s['init'], nm)
    return out


def _mutates_local(stmt, lid):
    """does the statement mutate (or move out of / re-borrow mutably) the local?"""
    for kind, pl, node in hir.mutations(stmt):
        p = hir.place(pl) if pl is not None else None
        if p and p[0] == lid:
            return True
        if p is None and pl is not None:
            for x in hir.nodes(pl):
                l = hir.local(x) if x.get('k') == 'Path' else None
                if l and l[1] == lid and x.get('mutborrow'):
                    return True
    for n in hir.nodes(stmt):
        if n.get('k') == 'MethodCall' and hir.local(n['recv']) and hir.local(n['recv'])[1] == lid and (n['recv'].get('mutborrow') or hir.strip(n['recv']).get('mutborrow')):
            return True
    return False


def offset_rule(f, fpw):
    """[(slot, ok, msg)]"""
    res = []
    gid = f['params'][0]['id']
    lets = _top_lets(f)
    st = hir.stmts_of(f['hir'])
    # the vector installed as outputs, and the first setter pair
    so = si = None
    for i, s in enumerate(st):
        s0 = hir.strip(s)
        if s0.get('k') == 'MethodCall' and hir.local(s0['recv']) and hir.local(s0['recv'])[1] == gid:
            if s0['name'] == 'set_outputs' and so is None:
                so = (i, s0)
            if s0['name'] == 'set_inputs' and si is None:
                si = (i, s0)
    if so is None or si is None:
        return [('shape', None, 'detection_webs no longer installs its own inputs/outputs with set_inputs/set_outputs at the top level (not-established-by-recognised-idiom)')]
    xo = hir.local(so[1]['args'][0])
    # left-block width symbol: the local used as BitMatrix::identity(<w>) whose init is <X>.len()
    width = None
    for lid, (i, init, nm) in lets.items():
        i0 = hir.strip(init)
        if i0.get('k') == 'MethodCall' and i0['name'] == 'len' and not i0['args'] and hir.local(i0['recv']):
            used = [c for c in hir.calls(f['hir']) if (hir.callee(c) or '').endswith('BitMatrix::identity') and hir.local(c['args'][0]) and hir.local(c['args'][0])[1] == lid]
            if used:
                width = (lid, i, hir.local(i0['recv']), nm)
    if width is None:
        return [('width', None, 'the width of the identity block is no longer `let outs = <vec>.len()` (not-established-by-recognised-idiom)')]
    wl, wi, wsrc, wname = width
    ok = bool(xo) and wsrc[1] == xo[1]
    res.append(('width-is-installed-outputs', ok, 'the identity block is `%s` = `%s.len()` wide, but the vector installed with set_outputs is `%s`: pw() derives its column offset from g.outputs().len(), so every firing column is mapped to the wrong spider'
                % (wname, wsrc[0], xo[0] if xo else hir.pp(so[1]['args'][0])[:30])))
    if ok:
        mid = [s for s in st[wi + 1:so[0]] if _mutates_local(s, xo[1])]
        res.append(('outputs-unchanged-between', not mid, 'the outputs vector is modified between `%s = %s.len()` and `set_outputs(%s)` (%s): the block width and the offset pw() recomputes from g.outputs().len() disagree'
                    % (wname, wsrc[0], xo[0], hir.pp(mid[0])[:50] if mid else '')))
        before = wi < so[0]
        late = [s for s in st[so[0] + 1:] if _mutates_local(s, xo[1])] if not before else []
        res.append(('width-read-before-move', before or not late, 'the width is read after the vector was handed to set_outputs'))
    a = hir.strip(si[1]['args'][0])
    empty = hir.vec_literal(a) == [] or (a.get('k') == 'Call' and (hir.callee(a) or '').endswith(('Vec::<T>::new', '::new')) and not a['args'])
    res.append(('inputs-emptied', empty, 'set_inputs must install the empty list (every boundary counts as an output here): pw() adds g.inputs().len() to its column offset'))
    # no other setter / inputs_mut / outputs_mut between the installation and the last pw() call
    pwcalls = [c for c in hir.calls(f['hir']) if hir.callee(c) == PW]
    if not pwcalls:
        res.append(('pw-called', None, 'pw() is no longer called from detection_webs (anchor-missing)'))
        return res
    last_pw = max(i for i, s in enumerate(st) if any(x is c for c in pwcalls for x in hir.nodes(s)))
    first = max(so[0], si[0])
    clobber = []
    for s in st[first + 1:last_pw + 1]:
        for c in hir.calls(s):
            if c.get('k') == 'MethodCall' and c['name'] in ('set_inputs', 'set_outputs', 'inputs_mut', 'outputs_mut', 'plug_output', 'plug_input', 'plug_inputs', 'plug_outputs') and hir.local(c['recv']) and hir.local(c['recv'])[1] == gid:
                clobber.append(c)
    res.append(('io-stable-until-pw', not clobber, 'inputs/outputs are changed again (%s) before pw() reads their lengths' % (hir.pp(clobber[0])[:40] if clobber else '')))
    # pw side: n_outs = inputs.len + outputs.len, and the node of column col is index_map[col - n_outs]
    g2 = [p for p in fpw['params'] if p.get('k') == 'Bind' and 'Graph' in (p.get('ty') or '')]
    nl = None
    for n in hir.nodes(fpw['hir']):
        if n.get('k') == 'Let' and n.get('init') is not None and n['pat'].get('k') == 'Bind':
            i0 = hir.strip(n['init'])
            if i0.get('k') == 'Binary' and i0['op'] == 'Add':
                parts = sorted(_len_of_io(x) or '?' for x in (i0['l'], i0['r']))
                if parts == ['inputs', 'outputs']:
                    nl = n['pat']['id']
            elif _len_of_io(i0) == 'outputs':
                nl = n['pat']['id']      # equivalent here: detection_webs empties the inputs before pw() runs (clause inputs-emptied)
    res.append(('pw/offset-is-io-count', nl is not None, 'pw() no longer computes its column offset from the number of installed outputs (g.inputs().len() + g.outputs().len())'))
    if nl is not None:
        gets = [c for c in hir.calls(fpw['hir']) if c.get('k') == 'MethodCall' and c['name'] in ('get', 'get_mut') and hir.local_name(c['recv']) == fpw['params'][0].get('name')]
        idx = [n for n in hir.nodes(fpw['hir']) if n.get('k') == 'Index' and hir.local_name(n['e']) == fpw['params'][0].get('name')]
        look = [hir.strip(c['args'][0]) for c in gets] + [hir.strip(n['i']) for n in idx]
        good = [e for e in look if e.get('k') == 'Binary' and e['op'] == 'Sub' and hir.local(e['r']) and hir.local(e['r'])[1] == nl and hir.local(e['l'])]
        res.append(('pw/lookup-col-minus-offset', bool(look) and len(good) == len(look), 'pw() must translate a firing column with index_map[col - n_outs]; found %s' % ([hir.pp(e)[:30] for e in look] or 'no lookup')))
        # col ranges over the columns of the firing vector and only set bits are used
        ok = None
        for n in hir.nodes(fpw['hir']):
            if n.get('k') == 'For' and good and hir.bindings(n['pat']) and hir.bindings(n['pat'])[0][1] == hir.local(good[0]['l'])[1]:
                it_ = hir.strip(n['iter'])
                while it_.get('k') == 'MethodCall' and it_['name'] in ('filter', 'into_iter', 'iter', 'copied'):
                    it_ = hir.strip(it_['recv'])      # `(0..cols).filter(set bits)` visits the same columns and uses the set ones
                rb = hir.range_bounds(it_)
                if rb and hir.lit_int(hir.strip(rb[0])) == 0 and rb[1] is not None and hir.strip(rb[1]).get('k') == 'MethodCall' and hir.strip(rb[1])['name'] == 'cols' and not rb[2]:
                    ok = True
                elif rb and rb[0] is not None and rb[1] is not None:
                    ok = False            # a range with other bounds: columns are skipped
                elif ok is not True:
                    ok = None
        if good:
            res.append(('pw/all-columns', ok, 'pw() must visit every column `0..v.cols()` of the firing vector'))
    return res


def _len_of_io(e):
    e = hir.strip(e)
    if e.get('k') == 'MethodCall' and e['name'] == 'len':
        r = hir.strip(e['recv'])
        if r.get('k') == 'MethodCall' and r['name'] in ('inputs', 'outputs'):
            return r['name']
    return None


# ---------------------------------------------------------------- D4: block structure of the constraint matrix

def _lf_add(a, b, s=1):
    out = dict(a)
    for k, v in b.items():
        out[k] = out.get(k, 0) + s * v
    return {k: v for k, v in out.items() if v}


def _lf_txt(a):
    return ' + '.join('%s%s' % ('' if v == 1 or k == '1' else '%d*' % v, k if k != '1' else str(v)) for k, v in sorted(a.items())) or '0'


class _Blocks(Exception):
    pass


class _Mismatch(_Blocks):
    pass


def block_matrix(f):
    """normal form of the matrix whose nullspace is taken: (rows, cols, {(kind, row-offset, col-offset, size)}) in linear forms over outs / n.
    kinds: I (identity of given size) and N (the adjacency matrix); zero blocks are implicit."""
    lets = _top_lets(f)
    width = None

    def key(lf):
        return tuple(sorted(lf.items()))

    def resolve(e):
        e = hir.strip(e)
        l = hir.local(e)
        if l and l[1] in lets:
            return resolve(lets[l[1]][1]) if not _is_dim_symbol(l[1]) else e
        return e

    dimsym = {}

    def _is_dim_symbol(lid):
        i0 = hir.strip(lets[lid][1])
        if i0.get('k') == 'MethodCall' and i0['name'] == 'len' and hir.local(i0['recv']):
            dimsym[lid] = lets[lid][2]
            return True
        return False

    def lin(e):
        e = hir.strip(e)
        v = hir.lit_int(e)
        if v is not None:
            return {'1': v} if v else {}
        l = hir.local(e)
        if l and l[1] in lets:
            if _is_dim_symbol(l[1]):
                return {lets[l[1]][2]: 1}
            return lin(lets[l[1]][1])
        if e.get('k') == 'Binary' and e['op'] in ('Add', 'Sub'):
            return _lf_add(lin(e['l']), lin(e['r']), 1 if e['op'] == 'Add' else -1)
        if e.get('k') == 'Binary' and e['op'] == 'Mul':
            a, b = lin(e['l']), lin(e['r'])
            for x, y in ((a, b), (b, a)):
                if set(x) <= {'1'}:
                    c = x.get('1', 0)
                    return {k: v * c for k, v in y.items() if v * c}
            raise _Blocks('non-linear dimension')
        if e.get('k') == 'MethodCall' and e['name'] in ('rows', 'cols') and not e['args']:
            r, c, _b = mat(e['recv'])
            return r if e['name'] == 'rows' else c
        raise _Blocks('dimension `%s` is not a linear form in outs / n' % hir.pp(e)[:30])

    def mat(e):
        e = resolve(e)
        k = e.get('k')
        c = hir.callee(e) or ''
        if k == 'Call' and c.endswith('BitMatrix::identity'):
            n = lin(e['args'][0])
            return n, n, [('I', {}, {}, n)]
        if k == 'Call' and c.endswith('BitMatrix::zeros'):
            return lin(e['args'][0]), lin(e['args'][1]), []
        if k == 'MethodCall' and e['name'] == 'adjacency_matrix':
            return {'n': 1}, {'n': 1}, [('N', {}, {}, {'n': 1})]
        if k == 'MethodCall' and e['name'] in ('vstack', 'hstack') and len(e['args']) == 1:
            r1, c1, b1 = mat(e['recv'])
            r2, c2, b2 = mat(e['args'][0])
            if e['name'] == 'vstack':
                if key(c1) != key(c2):
                    raise _Mismatch('vstack of blocks with %s and %s columns' % (_lf_txt(c1), _lf_txt(c2)))
                return _lf_add(r1, r2), c1, b1 + [(kd, _lf_add(ro, r1), co, sz) for kd, ro, co, sz in b2]
            if key(r1) != key(r2):
                raise _Mismatch('hstack of blocks with %s and %s rows' % (_lf_txt(r1), _lf_txt(r2)))
            return r1, _lf_add(c1, c2), b1 + [(kd, ro, _lf_add(co, c1), sz) for kd, ro, co, sz in b2]
        if k == 'MethodCall' and e['name'] in ('clone', 'to_owned'):
            return mat(e['recv'])
        raise _Blocks('matrix expression `%s` is not built from identity / zeros / adjacency_matrix / vstack / hstack' % hir.pp(e)[:40])

    ns = [c for c in hir.calls(f['hir']) if c.get('k') == 'MethodCall' and c['name'] == 'nullspace']
    if len(ns) != 1:
        raise _Blocks('expected exactly one nullspace() call, found %d' % len(ns))
    r, c, bl = mat(ns[0]['recv'])
    syms = sorted(set(dimsym.values()))
    return r, c, sorted((kd, key(ro), key(co), key(sz)) for kd, ro, co, sz in bl), syms, ns[0]


def block_rule(f):
    try:
        r, c, bl, syms, nsnode = block_matrix(f)
    except _Mismatch as ex:
        return False, 'the constraint matrix is assembled from blocks whose dimensions do not fit: %s' % ex, None
    except _Blocks as ex:
        return None, str(ex), None
    if len(syms) != 1:
        return None, 'expected one width symbol (outs), found %s' % syms, None
    o = syms[0]

    def key(lf):
        return tuple(sorted(lf.items()))
    want = sorted([('I', key({}), key({}), key({o: 1})),                 # [ I_outs | N ]   rows 0..n
                   ('N', key({}), key({o: 1}), key({'n': 1})),          # [ 0      |   ]
                   ('I', key({'n': 1}), key({}), key({o: 2}))])         # [ I_2outs | 0 ]  rows n..n+2 outs
    ok = bl == want and key(r) == key({'n': 1, o: 2}) and key(c) == key({'n': 1, o: 1})
    got = '%s x %s with blocks %s' % (_lf_txt(r), _lf_txt(c), ['%s(%s)@(%s,%s)' % (kd, _lf_txt(dict(sz)), _lf_txt(dict(ro)), _lf_txt(dict(co))) for kd, ro, co, sz in bl])
    return ok, ('the matrix whose null space is taken must be [[I_outs ; 0 | N], [I_2outs | 0]] ((n + 2 outs) x (n + outs)): boundary rows get an identity column each, '
                'the last 2 outs rows forbid firing on boundary and boundary-adjacent positions; found %s' % got), {'matrix': got}


# ---------------------------------------------------------------- D5: pw() colour and Pauli tables

def web_tables(fpw):
    """[(slot, ok, msg)]: Z spiders fire into one edge set, X spiders into the other; both -> Y, X-only -> Z, Z-only -> X.  ok None: shape not recognised."""
    from .. import hfacts
    res = []
    role = {}
    pm = hir.parent_map(fpw['hir'])
    for n in hir.nodes(fpw['hir']):
        if n.get('k') == 'MethodCall' and n['name'] == 'insert' and hir.local(n['recv']):
            for expr, consts, member in hfacts.membership(n, pm):
                if member and len(consts) == 1:
                    c = next(iter(consts))
                    if c in ('graph::VType::Z', 'graph::VType::X'):
                        role.setdefault(c[-1], set()).add(hir.local(n['recv'])[1])
    if not role:
        return [('colour-sets', None, 'how firing Z / X spiders mark their edges was not recognised (no `set.insert(edge)` under a test of the spider colour)')]
    ok = set(role) == {'Z', 'X'} and all(len(v) == 1 for v in role.values()) and role['Z'] != role['X']
    res.append(('colour-sets', ok, 'edges at a firing Z spider and at a firing X spider must be collected in two different sets (found %s)' % {k: len(v) for k, v in role.items()}))
    if not ok:
        return res
    zs, xs = list(role['Z'])[0], list(role['X'])[0]
    # incident-edge test: some && / || of two comparisons of the node with edge.0 and edge.1
    inc_ok = None
    for n in hir.nodes(fpw['hir']):
        if n.get('k') == 'Binary' and n['op'] in ('Or', 'And'):
            parts = []
            ops = set()
            for x in (n['l'], n['r']):
                x = hir.strip(x)
                if x.get('k') == 'Binary' and x['op'] in ('Eq', 'Ne'):
                    ops.add(x['op'])
                    parts += [y['name'] for y in (hir.strip(x['l']), hir.strip(x['r'])) if y.get('k') == 'Field']
            if sorted(parts) == ['0', '1'] and ((n['op'] == 'Or' and ops == {'Eq'}) or (n['op'] == 'And' and ops == {'Ne'})):
                inc_ok = True
            elif sorted(parts) in (['0', '0'], ['1', '1']) and inc_ok is None:
                inc_ok = False
    res.append(('incident-edges', inc_ok, 'a firing spider must mark every edge it is an endpoint of (`node == edge.0 || node == edge.1`)'))
    # Pauli table: entries (in Z-set, in X-set) -> letter, from every set_edge call (the letter may be a local defined by an if-expression)
    table = {}
    unknown = False
    lets = {x['pat']['id']: x['init'] for x in hir.nodes(fpw['hir']) if x.get('k') == 'Let' and x['pat'].get('k') == 'Bind' and x.get('init') is not None}

    def contains_fact(e, evar):
        e = hir.strip(e)
        if e.get('k') == 'MethodCall' and e['name'] == 'contains' and hir.local(e['recv']) and hir.local(e['recv'])[1] in (zs, xs):
            a = hir.local(hir.strip(e['args'][0]))
            if a and a[1] == evar:
                return hir.local(e['recv'])[1]
        return None
    for n in hir.nodes(fpw['hir']):
        if not (n.get('k') == 'MethodCall' and n['name'] == 'set_edge' and len(n['args']) == 3):
            continue
        mem = {zs: None, xs: None}
        evar = None
        for c in paths.dominating_conds(n, pm):
            if c[0] == 'loop' and c[1].get('k') == 'For':
                it = hir.strip(c[1]['iter'])
                while it.get('k') == 'MethodCall' and it['name'] in ('iter', 'into_iter'):
                    it = hir.strip(it['recv'])
                l = hir.local(it)
                if l and l[1] in mem and evar is None:
                    mem[l[1]] = True
                    evar = hir.bindings(c[1]['pat'])[0][1] if hir.bindings(c[1]['pat']) else None
        for c in paths.dominating_conds(n, pm):
            if c[0] == 'cond':
                w = contains_fact(c[1], evar)
                if w is not None:
                    mem[w] = bool(c[2])
        arg = hir.strip(n['args'][2])
        variants = []
        d = hir.def_path(arg)
        if d and arg.get('k') == 'Path' and arg['res'].get('k') != 'Local':
            variants.append((dict(mem), d.rsplit('::', 1)[-1]))
        elif hir.local(arg) and hir.local(arg)[1] in lets and hir.strip(lets[hir.local(arg)[1]]).get('k') == 'If':
            iff = hir.strip(lets[hir.local(arg)[1]])
            w = contains_fact(iff['cond'], evar)
            tv = hir.def_path(hir.strip(hir.stmts_of(iff['then'])[-1])) if hir.stmts_of(iff['then']) else None
            ev_ = hir.def_path(hir.strip(hir.stmts_of(iff['else'])[-1])) if iff.get('else') and hir.stmts_of(iff['else']) else None
            if w is not None and tv and ev_:
                m1 = dict(mem)
                m1[w] = True
                m2 = dict(mem)
                m2[w] = False
                variants += [(m1, tv.rsplit('::', 1)[-1]), (m2, ev_.rsplit('::', 1)[-1])]
            else:
                unknown = True
        else:
            unknown = True
        for m_, letter in variants:
            table.setdefault((m_[zs], m_[xs]), set()).add(letter)
    want = {(True, True): {'Y'}, (False, True): {'Z'}, (True, False): {'X'}}
    if unknown or not table or any(None in k for k in table):
        # a letter whose membership conditions are not fully known cannot be judged
        definite_bad = any(table.get(k) and table[k] != v for k, v in want.items() if k in table)
        res.append(('pauli-table', False if definite_bad else None, 'edge operators must be: marked by Z and X spiders -> Y, by X spiders only -> Z, by Z spiders only -> X; found %s (key = (in Z-set, in X-set), None = not tested)' % {k: sorted(v) for k, v in table.items()}))
    else:
        res.append(('pauli-table', table == want, 'edge operators must be: marked by Z and X spiders -> Y, by X spiders only -> Z, by Z spiders only -> X; found %s (key = (in Z-set, in X-set))' % {k: sorted(v) for k, v in table.items()}))
    return res


def collect_rule(f):
    """every null-space basis vector is turned into a web with the same index map and graph, and all webs are returned"""
    ns = [c for c in hir.calls(f['hir']) if c.get('k') == 'MethodCall' and c['name'] == 'nullspace']
    if len(ns) != 1:
        return None, 'anchor-missing: nullspace()'
    lets = _top_lets(f)
    nsl = [lid for lid, (i, init, nm) in lets.items() if hir.strip(init) is ns[0]]
    st = hir.stmts_of(f['hir'])
    tail = hir.local(st[-1]) if st else None
    for n in hir.nodes(f['hir']):
        if n.get('k') == 'For':
            it = hir.strip(n['iter'])
            while it.get('k') == 'MethodCall' and it['name'] in ('iter', 'into_iter'):
                it = hir.strip(it['recv'])
            l = hir.local(it)
            if l and nsl and l[1] == nsl[0]:
                pm = hir.parent_map(n['body'])
                calls = [c for c in hir.calls(n['body']) if hir.callee(c) == PW]
                pushes = [c for c in hir.calls(n['body']) if c.get('k') == 'MethodCall' and c['name'] == 'push' and tail and hir.local(c['recv']) and hir.local(c['recv'])[1] == tail[1]]
                bv = hir.bindings(n['pat'])
                conditional = any(x.get('k') in ('If', 'Match', 'Break', 'Continue', 'Ret') for x in hir.nodes(n['body']))
                if len(calls) == 1 and len(pushes) == 1 and bv and not conditional:
                    a = hir.local(hir.strip(calls[0]['args'][1]))
                    if a and a[1] == bv[0][1]:
                        return True, ''
                return False, 'the loop over the null-space basis does not turn every vector into exactly one returned web'
    return False, 'the null-space basis is not iterated (or the webs are not what is returned)'
