"""C20 — detection webs: inputs/outputs restored; node order keyed by boundary status."""
from .. import hir, paths
from ..controls import fixture

DW = 'detection_webs::detection_webs'
ON = 'detection_webs::ordered_nodes'
B = 'graph::VType::B'


def restore_rule(f):
    """on every path to a return, the last set_inputs / set_outputs writes back the value saved before the first setter.
    Returns one verdict per distinct (last set_inputs, last set_outputs) pair: [(ok, n_paths, why, sample)]"""
    gid = f['params'][0]['id'] if f['params'] and f['params'][0].get('k') == 'Bind' else None

    def is_setter(n):
        return n.get('k') == 'MethodCall' and n['name'] in ('set_inputs', 'set_outputs') and hir.local(n['recv']) and hir.local(n['recv'])[1] == gid
    # values saved at the top level of the body before the first statement that contains a setter
    saved = {}
    for s in hir.stmts_of(f['hir']):
        if any(is_setter(n) for n in hir.nodes(s)):
            break
        if s.get('k') == 'Let' and s.get('init') is not None and s['pat'].get('k') == 'Bind':
            kind = _saved_kind(s['init'], gid)
            if kind:
                saved[s['pat']['id']] = kind
    eps = paths.effect_paths(hir.stmts_of(f['hir']), is_setter)
    groups = {}
    for p in eps:
        if p.end == 'diverge':
            continue
        last = {}
        for e in p.events:
            if isinstance(e, tuple):
                for q in e[2]:
                    for x in q.events:
                        if isinstance(x, dict):
                            last[x['name']] = None   # set inside a loop: value unknown
                continue
            last[e['name']] = e
        if not last:
            continue
        key = tuple(id(last.get(k)) if last.get(k) is not None else None for k in ('set_inputs', 'set_outputs'))
        g = groups.setdefault(key, [last, 0])
        g[1] += 1
    res = []
    for key, (last, n) in groups.items():
        ok = True
        why = []
        for setter, kind in (('set_inputs', 'inputs'), ('set_outputs', 'outputs')):
            if setter not in last:
                continue
            e = last[setter]
            l = hir.local(e['args'][0]) if e is not None else None
            if not (l and saved.get(l[1]) == kind):
                ok = False
                why.append('the last %s before return does not write back the %s saved before the first setter (it writes `%s`)' % (setter, kind, hir.pp(e['args'][0])[:30] if e else 'a value set in a loop'))
        res.append((ok, n, '; '.join(why), {'paths': n, 'last_set_inputs': hir.pp(last['set_inputs'])[:40] if last.get('set_inputs') else None,
                                           'last_set_outputs': hir.pp(last['set_outputs'])[:40] if last.get('set_outputs') else None}))
    return res


def _saved_kind(init, gid):
    i = hir.strip(init)   # strips .clone()
    if i is not None and i.get('k') == 'MethodCall' and i['name'] in ('inputs', 'outputs') and hir.local(i['recv']) and hir.local(i['recv'])[1] == gid:
        return i['name']
    return None


def _cmp_type_b(e, var_ids):
    """comparison of vertex_type(v) with VType::B inside e: returns 'ne' / 'eq' / None (v one of var_ids; let-bound aliases followed)"""
    alias = set(var_ids)
    tvars = set()
    for n in hir.nodes(e):
        if n.get('k') == 'Let' and n.get('init') is not None and n['pat'].get('k') == 'Bind':
            i = hir.strip(n['init'])
            if i.get('k') == 'MethodCall' and i['name'] == 'vertex_type' and hir.local(i['args'][0]) and hir.local(i['args'][0])[1] in alias:
                tvars.add(n['pat']['id'])

    def is_ty(x):
        x = hir.strip(x)
        if x.get('k') == 'MethodCall' and x['name'] == 'vertex_type' and hir.local(x['args'][0]) and hir.local(x['args'][0])[1] in alias:
            return True
        l = hir.local(x)
        return bool(l and l[1] in tvars)
    out = []
    for n in hir.nodes(e):
        if n.get('k') == 'Binary' and n['op'] in ('Eq', 'Ne'):
            for a, b in ((n['l'], n['r']), (n['r'], n['l'])):
                if is_ty(a) and hir.def_path(b) == B:
                    out.append('ne' if n['op'] == 'Ne' else 'eq')
    return out


def must_conjuncts(e):
    """top-level conjuncts of a boolean closure body (through a trailing block expression)"""
    e = hir.strip(e)
    if e.get('k') == 'Block':
        st = hir.stmts_of(e)
        return must_conjuncts(st[-1]) if st else []
    if e.get('k') == 'Binary' and e['op'] == 'And':
        return must_conjuncts(e['l']) + must_conjuncts(e['r'])
    return [e]


def order_rule(f):
    """the returned node list has the boundary (B-typed) vertices first, whatever their ids:
    recognised idioms — (a) a stable sort of the list keyed by `vertex_type(v) != B` after which only non-B vertices are appended,
    (b) the first segment is produced by a filter that requires vertex_type(v) == B and later segments exclude B."""
    st = hir.stmts_of(f['hir'])
    tail = hir.strip(st[-1]) if st else None
    if tail is None or tail.get('k') != 'Tup' or not hir.local(tail['items'][0]):
        return None, 'ordered_nodes does not return (list, map) with a local list (anchor-missing)'
    vid = hir.local(tail['items'][0])[1]
    # provenance of the list: initial value + in-place operations, in order
    ops = []
    env = {}
    for s in st:
        if s.get('k') == 'Let' and s['pat'].get('k') == 'Bind' and s.get('init') is not None:
            env[s['pat']['id']] = s['init']
            if s['pat']['id'] == vid:
                ops.append(('init', s['init']))
        s0 = hir.strip(s)
        if s0.get('k') == 'MethodCall' and hir.local(s0['recv']) and hir.local(s0['recv'])[1] == vid:
            ops.append((s0['name'], s0))
    if not ops or ops[0][0] != 'init':
        return None, 'the node list is not built by `let mut vertices = ..; vertices.extend(..)` (not-established-by-recognised-idiom)'

    def filter_facts(expr):
        """for an iterator chain: list of 'eq'/'ne' facts about vertex_type(v) vs B required by its filters"""
        facts = []
        for c in hir.calls(expr):
            if c.get('k') == 'MethodCall' and c['name'] == 'filter' and c['args'] and hir.strip(c['args'][0]).get('k') == 'Closure':
                cl = hir.strip(c['args'][0])
                ids = [i for p in cl['params'] for _n, i in hir.bindings(p)]
                for conj in must_conjuncts(cl['body']):
                    for x in _cmp_type_b(conj, ids) or []:
                        if hir.strip(conj).get('k') == 'Binary' and hir.strip(conj)['op'] in ('Eq', 'Ne'):
                            facts.append(x)
                # comparisons on let-bound type variables inside the closure block
                body = hir.strip(cl['body'])
                if body.get('k') == 'Block':
                    last = hir.stmts_of(body)[-1]
                    for conj in must_conjuncts(last):
                        c0 = hir.strip(conj)
                        if c0.get('k') == 'Binary' and c0['op'] in ('Eq', 'Ne'):
                            r = _cmp_type_b(body, ids)
                            # restrict to this conjunct
                            rr = [('ne' if c0['op'] == 'Ne' else 'eq')] if r and (hir.def_path(c0['r']) == B or hir.def_path(c0['l']) == B) else []
                            facts += rr
        return facts
    # follow a plain local initialiser (let mut vertices = outputs.clone())
    init = ops[0][1]
    seen = 0
    while hir.local(init) and hir.local(init)[1] in env and seen < 5:
        init = env[hir.local(init)[1]]
        seen += 1
    first_b_only = 'eq' in filter_facts(init)
    sorted_b_first = False
    ok = first_b_only
    for name, node in ops[1:]:
        if name in ('sort_by_key', 'sort_by_cached_key'):
            cl = hir.strip(node['args'][0])
            if cl.get('k') == 'Closure':
                ids = [i for p in cl['params'] for _n, i in hir.bindings(p)]
                body = hir.strip(cl['body'])
                st2 = hir.stmts_of(body) if body.get('k') == 'Block' else [body]
                key = hir.strip(st2[-1])
                # primary key: `vertex_type(v) != B` (false sorts first, the sort is stable); also as first element of a tuple key
                if key.get('k') == 'Tup' and key['items']:
                    key = hir.strip(key['items'][0])
                r = _cmp_type_b(key, ids) if key.get('k') == 'Binary' else []
                if r == ['ne']:
                    sorted_b_first = True
                    ok = True
        elif name in ('extend', 'append', 'push', 'extend_from_slice', 'insert'):
            # anything appended after the B-first point must exclude B vertices
            if ok and 'ne' not in filter_facts(node):
                ok = False
        elif name in ('sort', 'sort_unstable', 'sort_unstable_by_key', 'reverse', 'dedup', 'retain', 'swap', 'rotate_left', 'rotate_right'):
            if name != 'retain' and name != 'dedup':
                ok = False
                sorted_b_first = False
    how = 'first segment filtered on vertex_type == B' if first_b_only and ok else ('stable sort keyed by vertex_type != B' if sorted_b_first and ok else None)
    if ok:
        return True, how
    return False, ('the first block of the node list is not keyed by boundary status: it is %s — boundary vertices are first only if their ids happen to be the smallest, '
                   'but detection_webs() couples the identity block and the no-output rows to the first `outs` positions' % hir.pp(init)[:80])


def run(ck):
    ck.decided('D1 inputs and outputs are restored: on every path to return the last set_inputs/set_outputs writes back the value saved before the first setter, each to its own setter',
               'D2 the node order handed to the block-matrix construction has the boundary vertices first whatever their ids (necessary for numbering independence: the [I|N] block and the no-output rows are positional)')
    ck.not_decided('validity of the returned webs at every spider', 'linear independence and completeness', 'numbering independence beyond the necessary condition D2')
    f = ck.fn(DW)
    res = restore_rule(f)
    for i, (ok, n, why, sample) in enumerate(res):
        ck.ob('R-PAIR-restore', DW + '/exit-%d' % i, ok, ck.site(DW), why, sample=sample)
    ck.floor('R-PAIR-restore', len(res), 1)
    setters = [c for c in hir.calls(f['hir']) if c.get('k') == 'MethodCall' and c['name'] in ('set_inputs', 'set_outputs')]
    ck.floor('R-PAIR-restore-setters', len(setters), 4)
    # the order produced by ordered_nodes is the one used for the adjacency matrix and for the index map
    on = ck.fn(ON)
    ok, how = order_rule(on)
    if ok is None:
        ck.violation('R-MATCH-order', ON + '/boundary-first', ck.site(ON), how)
    else:
        ck.ob('R-MATCH-order', ON + '/boundary-first', ok, ck.site(ON), how if not ok else '', sample={'established_by': how})
    calls = hir.calls_to(f['hir'], ON)
    used = False
    if len(calls) == 1:
        for n in hir.nodes(f['hir']):
            if n.get('k') == 'Let' and n.get('init') is not None and hir.strip(n['init']) is calls[0] and n['pat'].get('k') == 'Tuple':
                lid = hir.bindings(n['pat']['sub'][0])
                am = [c for c in hir.calls(f['hir']) if c.get('k') == 'MethodCall' and c['name'] == 'adjacency_matrix']
                used = bool(lid and am and any(hir.local(x) and hir.local(x)[1] == lid[0][1] for x in hir.nodes(am[0]) if x.get('k') == 'Path'))
    ck.ob('R-MATCH-order', DW + '/order-used-for-adjacency', used, ck.site(DW), 'the adjacency matrix is not built in the node order returned by ordered_nodes')
    # positive controls
    fx = fixture()
    ck.control('R-PAIR-restore flags swapped restores', any(not r[0] for r in restore_rule(fx['fns'][DW])))
    ck.control('R-MATCH-order flags an id-sorted first block', order_rule(fx['fns'][ON])[0] is False)
