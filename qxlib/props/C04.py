"""C04 — a rewrite rule is sound when its matcher accepts and a no-op when it rejects.

D1 matcher |= precondition (R-MATCH against refs/rules_req.py), D2 existence typestate of every
matcher and helper predicate, D3 rejection is a no-op (checked wrappers; matchers cannot mutate).
"""
import os
import sys

from .. import hir, rmatch
from ..controls import fixture

sys.path.insert(0, os.path.dirname(os.path.dirname(os.path.dirname(os.path.abspath(__file__)))))
from refs import rules_req as R  # noqa: E402

HELPERS = ['basic_rules::is_interior_pauli', 'basic_rules::is_boundary_pauli', 'basic_rules::is_boundary_pauli_with_h', 'basic_rules::is_boundary_proper_clifford']


def matcher_report(facts, key, contract):
    """(missing conjuncts, existence violations, opaque atoms, n disjuncts)"""
    eng = rmatch.Engine(facts)
    f, ds, cx = eng.matcher(key)
    if ds is None:
        return None, sorted(set(cx.exist_viol)), cx.opaque, 0
    missing = []
    closed = [rmatch.closure_lits(d) for d in ds]
    for name, pred in contract or []:
        bad = [i for i, fs in enumerate(closed) if not pred(fs)]
        if bad:
            # a conjunct is REFUTED only where the engine understood the whole accepting path; where the path contains atoms it could not interpret
            # (an extracted helper, an unfamiliar iterator form) the conjunct may be hidden in them: undecided
            foreign = [a for i in bad for a in rmatch.foreign_atoms(ds[i])]
            missing.append((name, len(bad), len(ds), foreign))
    return missing, sorted(set(cx.exist_viol)), cx.opaque, len(ds)


def wrapper_shape(facts, key, check, unchecked):
    """checked wrapper: `if check(g, args) { unchecked(g, args); true } else { false }` — mutation only under the accepting branch"""
    f = facts['fns'][key]
    st = hir.stmts_of(f['hir'])
    if len(st) != 1 or hir.strip(st[0]).get('k') != 'If':
        return False, 'wrapper is not a single if/else'
    iff = hir.strip(st[0])
    c = hir.strip(iff['cond'])
    params = [p['id'] for p in f['params'] if p.get('k') == 'Bind']
    if not (c.get('k') == 'Call' and hir.callee(c) == check and [hir.local(a)[1] if hir.local(a) else None for a in c['args']] == params):
        return False, 'condition is not %s(g, <the wrapper\'s own arguments in order>)' % check
    tb = hir.stmts_of(iff['then'])
    eb = hir.stmts_of(iff['else']) if iff.get('else') else []
    if not (len(tb) == 2 and hir.strip(tb[0]).get('k') == 'Call' and hir.callee(hir.strip(tb[0])) == unchecked
            and [hir.local(a)[1] if hir.local(a) else None for a in hir.strip(tb[0])['args']] == params and hir.lit_bool(tb[1]) is True):
        return False, 'accepting branch is not `%s(g, same arguments); true`' % unchecked
    if not (len(eb) == 1 and hir.lit_bool(eb[0]) is False):
        return False, 'rejecting branch is not just `false`'
    return True, ''


def graph_mutating_calls(facts, key):
    """calls inside a function that take the graph parameter mutably (a matcher must have none; type-level: &impl GraphLike)"""
    f = facts['fns'][key]
    return f['inputs'][0] if f['inputs'] else ''


RULES_QUICK = [('one-core', 'vec_graph::Graph', 11), ('gadgets', 'vec_graph::Graph', 11), ('two-cores', 'vec_graph::Graph', 97), ('boundary', 'vec_graph::Graph', 7),
               ('one-core', 'hash_graph::Graph', 97), ('gadgets', 'hash_graph::Graph', 47), ('boundary', 'hash_graph::Graph', 47)]
RULES_THOROUGH = [('one-core', 'vec_graph::Graph', 1), ('gadgets', 'vec_graph::Graph', 1), ('two-cores', 'vec_graph::Graph', 1), ('boundary', 'vec_graph::Graph', 1),
                  ('one-core', 'hash_graph::Graph', 3), ('gadgets', 'hash_graph::Graph', 3), ('two-cores', 'hash_graph::Graph', 7), ('boundary', 'hash_graph::Graph', 3)]


def ev_rules(ck, plan=None, vars_only=False, rule_name='E3-rules'):
    """the statement itself on a finite family of small diagrams (qxlib/zxsem.py): every checked rule of basic_rules, every argument tuple —
    accepted => the rewritten diagram denotes the same map (scalar included, every assignment of the boolean variables); rejected => returns false
    and the diagram is untouched; never a panic.  -> True when every rule was decided and held"""
    from .. import zxsem, minirust
    facts = ck.facts
    plan = plan or (RULES_THOROUGH if ck.tier == 'thorough' else RULES_QUICK)
    try:
        tot, bad, declined = zxsem.run_all(facts, plan, procs=16 if ck.tier == 'thorough' else 8, vars_only=vars_only)
    except (minirust.NoEval, minirust.Proceed) as ex:
        ck.ob3(rule_name, 'evaluation', None, ck.site('basic_rules::check_spider_fusion'), 'the evaluator declined (%s: %s)' % (type(ex).__name__, ex))
        return False
    rules = zxsem.rule_table(facts)
    by_rule = {}
    for fam, ty, rule, dia, args, what in bad:
        by_rule.setdefault(rule, []).append((fam, ty, dia, args, what))
    all_ok = True
    for rule in sorted(rules):
        ck.fn(rule)
        fs = by_rule.get(rule, [])
        for clause, pred in (('sound-when-accepted', lambda w: not w.startswith(('panics', 'the rule returns false'))),
                             ('no-op-when-rejected', lambda w: w.startswith('the rule returns false')), ('no-panic', lambda w: w.startswith('panics'))):
            hit = [f for f in fs if pred(f[4])]
            if hit:
                all_ok = False
                fam, ty, dia, args, what = hit[0]
                ck.ob(rule_name, '%s/%s' % (rule, clause), False, ck.site(rule),
                      'on the diagram %s (%s) %s%s: %s [%d such cases in this run]' % (dia, ty.split('::')[0], rule.rsplit('::', 1)[-1], tuple(args), what, len(hit)))
            else:
                ck.ob(rule_name, '%s/%s' % (rule, clause), True, ck.site(rule), '', sample={'rule': rule, 'accepted_in_this_run': tot['per_rule_accepted'].get(rule, 0)} if clause == 'sound-when-accepted' else None)
    never = sorted(r for r in rules if not tot['per_rule_accepted'].get(r))
    if not vars_only:
        ck.floor(rule_name + '-rules', len(rules), 14)
        ck.floor(rule_name + '-rules-accepted-somewhere', len(rules) - len(never), 14)
        ck.floor(rule_name + '-applications', tot['applications'], 900000 if ck.tier == 'thorough' else 80000)
    else:
        ck.floor(rule_name + '-applications', tot['applications'], 300000 if ck.tier == 'thorough' else 30000)
    if tot['declined'] * 50 > tot['applications']:
        k0 = sorted(declined)[0]
        ck.ob3(rule_name, 'declined', None, ck.site(declined[k0][0]) if declined[k0][0] in facts['fns'] else '', 'the evaluator declined %d of %d applications, e.g. %s on %s' % (tot['declined'], tot['applications'], k0, declined[k0][1]))
        all_ok = False
    _c1, _c2 = zxsem.oracle_controls()
    ck.control(rule_name + ' oracle: the fast contraction agrees with the reference contraction on a fixed sample of every family', _c1)
    ck.control(rule_name + ' oracle: accepts a true identity and tells apart a wrong phase, a flipped edge type, a negated scalar and a dropped variable', _c2)
    ck.note('%s: %d diagrams, %d rule applications (%d accepted, %d rejected, %d declined), %d rules; accepted per rule: %s'
            % (rule_name, tot['diagrams'], tot['applications'], tot['accepted'], tot['rejected'], tot['declined'], tot['rules'],
               ', '.join('%s %d' % (r.rsplit('::', 1)[-1], n) for r, n in sorted(tot['per_rule_accepted'].items()))))
    return all_ok and not never


def _run_own(ck):
    facts = ck.facts
    ck.decided('D0 (evaluation, small scope) the statement itself: basic_rules.rs, phase.rs, params.rs and both graph back ends interpreted from their HIR on a finite family of small diagrams (one or two core spiders of either colour '
               'with phases in multiples of pi/4, with and without boolean variables, 0..3 neighbours, boundaries, phase gadgets); for every checked rule and every argument tuple an accepted application leaves the denoted '
               'linear map unchanged, scalar included, under every assignment of the variables (brute-force contraction over exact numbers in Q(e^{i pi/4}), independent of tensor.rs), a rejected one returns false and leaves the diagram untouched, and none panics')
    ev_rules(ck)
    ck.decided('D1 every matcher establishes, on every accepting path, the conjuncts of its rule\'s precondition that are necessary for soundness or for not panicking (must-fact extraction over the resolved HIR against refs/rules_req.py)',
               'D2 existence typestate: in all 17 matchers and 4 helper predicates every panicking accessor on a vertex parameter is dominated by a fact that implies the vertex exists',
               'D3 rejection is a no-op: matchers take the graph by shared reference and neither back end has interior mutability; each checked wrapper mutates only under the accepting branch, with its own arguments, and returns false otherwise')
    ck.not_decided('sufficiency of the preconditions (that is the calculus: C01 schemas)', 'panics from arithmetic overflow', 'pi-copy leg condition (colour/edge-type coupling through a derived colour is not expressed as a contract)')
    matchers = sorted(k for k in facts['fns'] if k.startswith('basic_rules::check_'))
    ck.floor('R-MATCH-matchers', len(matchers), 17)
    n_contract = 0
    for key in matchers:
        ck.fn(key)
        contract = R.CONTRACTS.get(key)
        missing, ev, opaque, nd = matcher_report(facts, key, contract)
        if missing is None:
            ck.violation('R-MATCH', key + '/analysable', ck.site(key), 'accepting condition too large to analyse (not-established-by-recognised-idiom)')
            continue
        if contract:
            n_contract += 1
            for name, pred in contract:
                m = [x for x in missing if x[0] == name]
                if m and m[0][3]:
                    ck.ob3('R-MATCH', '%s/%s' % (key, name), None, ck.site(key),
                           '`%s` is not visible on %d of %d accepting paths, but those paths contain conditions the engine cannot interpret (%s): not decided' % (name, m[0][1], m[0][2], str(m[0][3][0])[:80]))
                    continue
                ck.ob('R-MATCH', '%s/%s' % (key, name), not m, ck.site(key),
                      'matcher accepts without establishing `%s` (missing on %d of %d accepting paths): the rule it guards is unsound or panics there' % ((name,) + (m[0][1:3] if m else (0, nd))),
                      sample={'conjunct': name, 'accepting_disjuncts': nd})
        for (fn, v, m, line) in ev:
            ck.ob('R-EXIST', '%s/%s/%s' % (key, v, m), False, ck.site(key) + ' line %s' % line,
                  'panicking accessor `%s(%s)` is reached (via %s) without a fact implying that vertex %s exists: the matcher panics on a missing vertex instead of rejecting' % (m, v, fn, v))
        if not ev:
            ck.ob('R-EXIST', key, True, ck.site(key), '', sample={'opaque_atoms': len(opaque)})
    ck.floor('R-MATCH-contracts', n_contract, 14)
    # helpers are private predicates used after a guard; their existence obligations are discharged at the call sites (inlined above).
    for key in HELPERS:
        ck.fn(key)
    # D3
    nw = 0
    for key, (check, unchecked) in sorted(R.WRAPPERS.items()):
        ck.fn(key)
        ok, why = wrapper_shape(facts, key, check, unchecked)
        nw += 1
        ck.ob('R-WRAP', key, ok, ck.site(key), why, sample={'check': check, 'rule': unchecked})
    ck.floor('R-WRAP', nw, 14)
    for key in matchers + HELPERS:
        t = facts['fns'][key]['inputs'][0] if facts['fns'][key]['inputs'] else ''
        ck.ob('R-NOMUT', key, t.startswith('&') and not t.startswith('&mut'), ck.site(key), 'matcher takes the graph as `%s`: it could mutate the diagram when it rejects' % t)
    for adt in ('vec_graph::Graph', 'hash_graph::Graph'):
        flds = [fl for v in facts['adts'][adt]['variants'] for fl in v['fields']]
        bad = [fl[0] for fl in flds if any(x in fl[1] for x in ('Cell<', 'RefCell<', 'Mutex<', 'RwLock<', 'Atomic', 'UnsafeCell'))]
        ck.ob('R-NOMUT', adt + '/no-interior-mutability', not bad, adt, 'graph fields with interior mutability: %s' % bad)
    # positive controls
    fx = fixture()
    m, ev, _o, _n = matcher_report(fx, 'basic_rules::check_remove_id', R.CONTRACTS['basic_rules::check_remove_id'])
    ck.control('R-MATCH flags a matcher with a dropped conjunct', bool(m))
    ck.control('R-EXIST flags an accessor before the existence test', bool(ev))
    ck.control('R-WRAP flags a wrapper that applies the rule before checking', not wrapper_shape(fx, 'basic_rules::remove_id', 'basic_rules::check_remove_id', 'basic_rules::remove_id_unchecked')[0])


def run(ck, **kw):
    _run_own(ck)
    ck.include('C01', 'a rule is sound when its matcher accepts only if its body has the effect of the rule schema, including every arm of add_edge_smart it relies on', parts=['D3', 'D4'])
