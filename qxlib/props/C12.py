"""C12 — equality checkers never give a wrong definite answer: decision structure and data flow."""
import itertools

from .. import hir, paths, minirust
from ..controls import fixture

EQ = 'equality::equal_graph_with_options'


def decision_structure(f):
    ps = [p['name'] for p in f['params'] if p.get('k') == 'Bind']
    g1, g2, flag = ps[0], ps[1], ps[2]
    res = {}
    st = hir.stmts_of(f['hir'])
    # data flow: g = g1.to_adjoint(); g.plug(g2); full_simp(&mut g)
    gname = None
    order = []
    for s in st:
        if s.get('k') == 'Let' and s['pat'].get('k') == 'Bind' and s.get('init') is not None:
            i = hir.strip(s['init'])
            if i.get('k') == 'MethodCall' and i['name'] in ('to_adjoint',) and hir.local_name(i['recv']) in (g1, g2):
                gname = s['pat']['name']
                order.append(('adjoint-of', hir.local_name(i['recv'])))
        s0 = hir.strip(s)
        if s0.get('k') == 'MethodCall' and s0['name'] == 'plug' and hir.local_name(s0['recv']) == gname:
            order.append(('plug', hir.local_name(s0['args'][0])))
        if s0.get('k') == 'Call' and (hir.callee(s0) or '').startswith('simplify::') and hir.local_name(s0['args'][0]) == gname:
            order.append(('simp', hir.callee(s0).rsplit('::', 1)[1]))
    ok_flow = len(order) == 3 and order[0][0] == 'adjoint-of' and order[1][0] == 'plug' and order[2][0] == 'simp' and {order[0][1], order[1][1]} == {g1, g2}
    res['composes the adjoint of one argument with the OTHER argument, then simplifies'] = ok_flow
    res['simplifier is full_simp'] = bool(order) and order[-1] == ('simp', 'full_simp')
    rows = []
    for p in paths.return_paths(f):
        r = hir.strip(p.ret) if p.ret is not None else None
        conds = []
        for c in p.conds:
            if c[0] == 'cond':
                e = hir.strip(c[1])
                if e.get('k') == 'Call' and hir.callee(e) == 'equality::equal_graph_dim':
                    a = [hir.local_name(x) for x in e['args']]
                    conds.append(('dims-equal(%s)' % ','.join(sorted(a)), c[2]))
                elif e.get('k') == 'MethodCall' and e['name'] == 'is_identity' and hir.local_name(e['recv']) == gname:
                    conds.append(('identity', c[2]))
                elif hir.local_name(e) == flag:
                    conds.append(('up-to-phase', c[2]))
                else:
                    conds.append((hir.pp(e)[:30], c[2]))
        val = None
        if r is not None:
            a = hir.ctor_call(r, 'Some')
            if a is not None:
                b = hir.lit_bool(a[0])
                val = 'Some(%s)' % ('true' if b else 'false') if b is not None else 'Some(<scalar-argument-test>)' if any('arg' == x.get('name') for x in hir.nodes(a[0]) if x.get('k') == 'MethodCall') else 'Some(?)'
            elif hir.is_ctor_path(r, 'None'):
                val = 'None'
        rows.append((tuple(conds), val))
    dims = 'dims-equal(%s)' % ','.join(sorted([g1, g2]))
    want = [(((dims, False),), 'Some(false)'),
            (((dims, True), ('identity', True), ('up-to-phase', False)), 'Some(<scalar-argument-test>)'),
            (((dims, True), ('identity', True), ('up-to-phase', True)), 'Some(true)'),
            (((dims, True), ('identity', False)), 'None')]
    res['decision table'] = sorted(rows, key=str) == sorted(want, key=str)
    res['_rows'] = rows
    # the scalar whose argument is tested is that of the composed, simplified graph
    sc = [c for c in hir.calls(f['hir']) if c.get('k') == 'MethodCall' and c['name'] == 'scalar']
    res['argument test reads the scalar of the composed graph'] = len(sc) == 1 and hir.local_name(sc[0]['recv']) == gname
    return res


# ---------------------------------------------------------------- decision functions evaluated over a symbolic host (round 2)

class _G(minirust.Obj):
    """a diagram as an expression over the two arguments: ('arg', i) | ('adj', e) | ('comp', e1, e2) | ('simp', fn, e)"""

    def __init__(self, expr, world):
        self.expr, self.world = expr, world
        w = world
        minirust.Obj.__init__(self, 'graph', {
            'to_adjoint': lambda a: _G(('adj', self.expr), w), 'clone': lambda a: _G(self.expr, w), 'to_owned': lambda a: _G(self.expr, w),
            'adjoint': lambda a: self._set(('adj', self.expr)), 'plug': lambda a: self._set(('comp', self.expr, _gexpr(a[0]))),
            'is_identity': lambda a: self._ask_identity(), 'scalar': lambda a: _S(self.expr, w),
            'to_tensor4': lambda a: _T(self.expr, w), 'to_tensorf': lambda a: _T(self.expr, w),
        }, strict=False)

    def _set(self, e):
        self.expr = e
        return None

    def _ask_identity(self):
        self.world['identity_asked_on'].append(self.expr)
        return self.world['identity']


def _gexpr(x):
    if isinstance(x, _G):
        return x.expr
    raise minirust.NoEval('a diagram was expected, found %r' % (x,))


class _S(minirust.Obj):
    def __init__(self, expr, w):
        self.expr = expr
        minirust.Obj.__init__(self, 'scalar', {'complex_value': lambda a: _Cx(expr, w), 'clone': lambda a: self}, strict=False)


class _Cx(minirust.Obj):
    def __init__(self, expr, w):
        self.expr = expr
        minirust.Obj.__init__(self, 'complex', {'arg': self._arg}, strict=False)
        self.w = w

    def _arg(self, a):
        # the argument of the scalar of a diagram: the world says what it is (a concrete angle); reading it is recorded
        self.w['arg_tested_on'].append(self.expr)
        return float(self.w['argval'])


class _T:
    """the tensor of a diagram; comparing two asks the world"""

    def __init__(self, expr, w):
        self.expr, self.w = expr, w

    def __eq__(self, o):
        if isinstance(o, _T):
            self.w['tensors_compared'].append((self.expr, o.expr))
            return self.w['teq']
        raise minirust.NoEval('a tensor is compared with %r' % (o,))

    def __ne__(self, o):
        return not self == o
    __hash__ = None


def _strip_simp(e):
    if e[0] == 'simp':
        return _strip_simp(e[2])
    if e[0] == 'adj':
        return ('adj', _strip_simp(e[1]))
    if e[0] == 'comp':
        return ('comp', _strip_simp(e[1]), _strip_simp(e[2]))
    return e


def _is_composition(e):
    """adjoint of one argument composed with the OTHER argument (either order of composition)"""
    e = _strip_simp(e)
    if e[0] != 'comp':
        return False
    for a, b in ((e[1], e[2]), (e[2], e[1])):
        if a[0] == 'adj' and a[1][0] == 'arg' and b[0] == 'arg' and {a[1][1], b[1]} == {1, 2}:
            return True
    return False


def _world(**kw):
    w = dict(identity_asked_on=[], arg_tested_on=[], tensors_compared=[], dims_asked=[], simp=[], delegated=[])
    w.update(kw)
    return w


def _interp(w, simplifiers, delegate=None):
    it = minirust.Interp(fuel=3000)

    def host_call(c, e, args):
        if c == 'equality::equal_graph_dim':
            a = args()
            w['dims_asked'].append(tuple(_gexpr(x) for x in a))
            return w['dims']
        if c.startswith('simplify::') and len(e['args']) == 1:
            a = args()
            if c not in simplifiers:
                raise minirust.NoEval('%s is not one of the simplifiers covered by C01' % c)
            g = a[0]
            g._set(('simp', c, _gexpr(g)))
            w['simp'].append(c)
            return True
        if c.endswith('Default::default') and 'AbsDiff' in (e.get('ty') or ''):
            # approx::AbsDiff<f64>: |a - b| <= epsilon, default epsilon f64::EPSILON
            st = {'eps': 2.220446049250313e-16}

            def eq(a):
                if len(a) == 2 and all(isinstance(x, (int, float)) and not isinstance(x, bool) for x in a):
                    return abs(float(a[0]) - float(a[1])) <= st['eps']
                raise minirust.NoEval('abs_diff_eq on %r' % (a,))

            def eps(a):
                if not (isinstance(a[0], (int, float)) and not isinstance(a[0], bool)):
                    raise minirust.NoEval('epsilon(%r)' % (a[0],))
                st['eps'] = float(a[0])
                return o
            o = minirust.Obj('absdiff', {'eq': eq, 'ne': lambda a: not eq(a), 'epsilon': eps}, strict=True)
            return o
        if delegate and c in delegate:
            a = args()
            w['delegated'].append((c, a))
            return ('delegated', c)
        return NotImplemented
    it.host_call = host_call
    return it


SIMPLIFIERS = ('simplify::full_simp', 'simplify::clifford_simp', 'simplify::interior_clifford_simp', 'simplify::flow_simp', 'simplify::spider_simp', 'simplify::id_simp',
               'simplify::pivot_simp', 'simplify::local_comp_simp', 'simplify::gen_pivot_simp', 'simplify::fuse_gadgets', 'simplify::pi_copy_simp', 'simplify::basic_simp',
               'simplify::to_gh')


def _run_fn(f, it, env):
    try:
        return it.ev(f['hir'], env)
    except minirust._Return as ex:
        return ex.v


def decision_semantics(f, facts):
    """equal_graph_with_options evaluated over every world (dims equal?, composed diagram is the identity?, up-to-phase flag, scalar argument zero?).
    Soundness table: Some(true) only when dims agree, the identity test was put to `adjoint of one argument composed with the other` (simplified by
    rules C01 covers) and answered yes, and either the flag allows a phase or the scalar argument of THAT diagram is zero; Some(false) only on a
    dimension mismatch or (identity, exact mode, non-zero argument); None is always allowed.  -> {name: (ok, counterexample)}; raises NoEval."""
    ps = [p for p in f['params'] if p.get('k') == 'Bind']
    if len(ps) != 3:
        raise minirust.NoEval('three parameters expected')
    simp = [k for k in facts['fns'] if k.startswith('simplify::')]
    res = {'answers "equal" only for the identity of (adjoint of one argument composed with the OTHER argument)': [True, None],
           'exact mode answers "equal" only when the scalar argument of the composed diagram is zero': [True, None],
           'answers "not equal" only on a dimension mismatch or a non-zero scalar argument of an identity': [True, None]}
    n = 0
    import math
    # the angle of the leftover scalar: zero; float noise (either answer is tolerated); a genuine small phase (pi / 2^22, a QFT-scale rotation); larger ones
    ANGLES = (0.0, 1e-13, math.pi / (1 << 22), 1e-3, math.pi, -math.pi / 2)
    for dims, ident, upto, argval in itertools.product((True, False), (True, False), (True, False), ANGLES):
        argzero = abs(argval) <= 1e-9
        w = _world(dims=dims, identity=ident, argval=argval)
        it = _interp(w, set(simp))
        g1, g2 = _G(('arg', 1), w), _G(('arg', 2), w)
        got = _run_fn(f, it, {ps[0]['id']: g1, ps[1]['id']: g2, ps[2]['id']: upto})
        n += 1
        desc = 'dimensions %s, composed diagram %s the identity, up_to_global_phase=%s, scalar argument %s' % (
            'agree' if dims else 'differ', 'is' if ident else 'is not', str(upto).lower(), '%.3g rad' % argval)
        if got == minirust.NONE:
            continue
        if not (isinstance(got, tuple) and len(got) == 2 and got[0] == 'Some' and isinstance(got[1], bool)):
            raise minirust.NoEval('result %r' % (got,))
        asked = w['identity_asked_on']
        comp_ok = bool(asked) and all(_is_composition(e) for e in asked)
        dims_ok = (not w['dims_asked']) or all(set(a) == {('arg', 1), ('arg', 2)} for a in w['dims_asked'])
        if not dims_ok:
            raise minirust.NoEval('dimension test on %r' % (w['dims_asked'],))
        dims_known_equal = bool(w['dims_asked']) and dims
        if got[1]:
            r = res['answers "equal" only for the identity of (adjoint of one argument composed with the OTHER argument)']
            if not (comp_ok and ident) and r[0]:
                r[0], r[1] = False, 'answers Some(true) when %s; identity test put to %s' % (desc, [str(_strip_simp(e)) for e in asked] or 'nothing')
            r = res['exact mode answers "equal" only when the scalar argument of the composed diagram is zero']
            arg_ok = bool(w['arg_tested_on']) and all(e in asked for e in w['arg_tested_on']) and argzero
            if not upto and not arg_ok and r[0]:
                r[0], r[1] = False, 'answers Some(true) when %s; scalar argument read from %s' % (desc, [str(_strip_simp(e)) for e in w['arg_tested_on']] or 'nothing')
        else:
            r = res['answers "not equal" only on a dimension mismatch or a non-zero scalar argument of an identity']
            mismatch = bool(w['dims_asked']) and not dims
            nonzero = comp_ok and ident and not upto and bool(w['arg_tested_on']) and all(e in asked for e in w['arg_tested_on']) and argval != 0.0
            if not (mismatch or nonzero) and r[0]:
                r[0], r[1] = False, 'answers Some(false) when %s' % desc
    return dict((k, tuple(v)) for k, v in res.items()), n


def tensor_semantics(f):
    """equal_graph_tensor over the feasible worlds (dims equal?, tensors equal?): must answer exactly `tensors equal` comparing the tensors of its two arguments"""
    ps = [p for p in f['params'] if p.get('k') == 'Bind']
    if len(ps) != 2:
        raise minirust.NoEval('two parameters expected')
    for dims, teq in ((True, True), (True, False), (False, False)):
        w = _world(dims=dims, teq=teq)
        it = _interp(w, set())
        got = _run_fn(f, it, {ps[0]['id']: _G(('arg', 1), w), ps[1]['id']: _G(('arg', 2), w)})
        if not isinstance(got, bool):
            raise minirust.NoEval('result %r' % (got,))
        if got != teq:
            return False, 'answers %s when the dimensions %s and the tensors %s' % (str(got).lower(), 'agree' if dims else 'differ', 'are equal' if teq else 'differ')
        if any(set(p_) != {('arg', 1), ('arg', 2)} for p_ in w['tensors_compared']):
            return False, 'compares the tensors of %s' % (w['tensors_compared'],)
        if got and not w['tensors_compared']:
            return False, 'answers true without comparing the tensors'
    return True, None


def _run_own(ck):
    facts = ck.facts
    ck.decided('D1 decision structure of equal_graph_with_options: Some(true) only under is_identity of (adjoint of one argument plugged with the OTHER argument, fully simplified), with the scalar-argument test in exact mode; Some(false) only on a dimension mismatch or (identity, exact mode, non-zero argument); None otherwise',
               'D2 equal_graph_tensor: false on dimension mismatch, otherwise exactly to_tensor4() == to_tensor4() of the two different arguments; equal_graph_dim compares both input and output counts; wrappers pass their arguments through in order',
               'D3 the pieces the definite answers are built from: is_identity contract, adjoint / plug / append_graph effect schemas, the seam edge-type merge table (same rules as C11); soundness of the simplifier is C01')
    ck.not_decided('agreement with ground truth (values)', 'that |scalar| = 1 in exact mode for non-circuit diagrams')
    f = ck.fn(EQ)
    try:
        sem, nworlds = decision_semantics(f, facts)
        for name, (ok, cex) in sem.items():
            ck.ob('R-PATH', EQ + '/' + name, ok, ck.site(EQ), 'equal_graph_with_options, evaluated over %d worlds (dims, identity, flag, scalar argument): %s' % (nworlds, cex), sample={'worlds': nworlds})
        ck.floor('R-PATH-worlds', nworlds, 16)
        ck.note('equal_graph_with_options: decided by evaluation over a symbolic host')
    except (minirust.NoEval, minirust.Proceed, TypeError, KeyError, IndexError, AttributeError) as ex:
        ck.note('equal_graph_with_options: the evaluator declined (%s); syntactic decision structure used' % ex)
        res = decision_structure(f)
        rows = res.pop('_rows')
        for name, ok in res.items():
            ck.ob3('R-PATH', EQ + '/' + name, True if ok else None, ck.site(EQ), 'equal_graph_with_options is neither evaluable (%s) nor of the known decision structure: `%s`; return table: %s' % (ex, name, rows), sample={'rows': str(rows)[:300]})
    # D2
    tk = 'equality::equal_graph_tensor'
    tf = ck.fn(tk)
    try:
        ok, cex = tensor_semantics(tf)
        ck.ob('R-PATH', tk, ok, ck.site(tk), 'equal_graph_tensor must answer true exactly when the tensors of its two arguments are equal: %s' % cex)
    except (minirust.NoEval, minirust.Proceed, TypeError, KeyError, IndexError, AttributeError) as ex:
        ps = [p['name'] for p in tf['params'] if p.get('k') == 'Bind']
        rp = paths.return_paths(tf)
        early = [p for p in rp if p.kind == 'return' and hir.lit_bool(p.ret) is False and any(c[0] == 'cond' and not c[2] and hir.callee(hir.strip(c[1])) == 'equality::equal_graph_dim' for c in p.conds)]
        tails = [p for p in rp if p.kind == 'tail']
        ok = False
        if len(tails) == 1 and tails[0].ret is not None:
            e = hir.strip(tails[0].ret)
            if e.get('k') == 'Binary' and e['op'] == 'Eq':
                l, r = hir.strip(e['l']), hir.strip(e['r'])
                ok = all(x.get('k') == 'MethodCall' and x['name'] == 'to_tensor4' for x in (l, r)) and sorted([hir.local_name(l['recv']), hir.local_name(r['recv'])]) == sorted(ps)
        ck.ob3('R-PATH', tk, True if (len(early) == 1 and ok and len(rp) == 2) else None, ck.site(tk), 'equal_graph_tensor is neither evaluable (%s) nor of the form: dims differ -> false, otherwise to_tensor4(g1) == to_tensor4(g2)' % ex)
    dk = 'equality::equal_graph_dim'
    df = ck.fn(dk)
    cmps = []
    for n in hir.nodes(df['hir']):
        if n.get('k') == 'Binary' and n['op'] in ('Ne', 'Eq'):
            l, r = hir.strip(n['l']), hir.strip(n['r'])
            if l.get('k') == 'MethodCall' and l['name'] == 'len' and r.get('k') == 'MethodCall' and r['name'] == 'len':
                a, b = hir.strip(l['recv']), hir.strip(r['recv'])
                if a.get('k') == 'MethodCall' and b.get('k') == 'MethodCall' and a['name'] == b['name'] and hir.local_name(a['recv']) != hir.local_name(b['recv']):
                    cmps.append(a['name'])
    ck.ob('R-PATH', dk, sorted(cmps) == ['inputs', 'outputs'], ck.site(dk), 'equal_graph_dim must compare both the input counts and the output counts of its two arguments (compares: %s)' % cmps)
    for key, callee, extra in (('equality::equal_graph', EQ, 'true'), ('equality::equal_circuit', 'equality::equal_circuit_with_options', 'true')):
        fk = ck.fn(key)
        cs = hir.calls_to(fk['hir'], callee)
        ps = [p['name'] for p in fk['params'] if p.get('k') == 'Bind']
        ok = len(cs) == 1 and [hir.local_name(a) for a in cs[0]['args'][:2]] == ps[:2] and hir.lit_bool(cs[0]['args'][2]) is True
        ck.ob('R-PATH', key, ok, ck.site(key), '%s must pass its two arguments in order with up_to_global_phase = true' % key)
    for key, callee in (('equality::equal_circuit_with_options', EQ), ('equality::equal_circuit_tensor', 'equality::equal_graph_tensor'), ('equality::equal_circuit_dim', 'equality::equal_graph_dim')):
        fk = ck.fn(key)
        ps = [p['name'] for p in fk['params'] if p.get('k') == 'Bind']
        env = {}
        for s in hir.stmts_of(fk['hir']):
            if s.get('k') == 'Let' and s['pat'].get('k') == 'Bind' and s.get('init') is not None:
                i = hir.strip(s['init'])
                if i.get('k') == 'MethodCall' and i['name'] == 'to_graph':
                    env[s['pat']['name']] = hir.local_name(i['recv'])
        cs = hir.calls_to(fk['hir'], callee)
        ok = len(cs) == 1 and [env.get(hir.local_name(a)) for a in cs[0]['args'][:2]] == ps[:2]
        if ok and len(cs[0]['args']) == 3:
            ok = hir.local_name(cs[0]['args'][2]) == ps[2]
        ck.ob('R-PATH', key, ok, ck.site(key), '%s must translate its first and second circuit and pass the two graphs on in that order' % key)
    # D3: the pieces of graph.rs the definite answers are built from (same rules as C11, evaluated here because a wrong "equal" follows from any of them)
    import os, sys
    sys.path.insert(0, os.path.dirname(os.path.dirname(os.path.dirname(os.path.abspath(__file__)))))
    from refs import effects_ref as E
    from .. import reffect, enumeval
    from .C11 import is_identity_obligations
    is_identity_obligations(ck, facts, ' (the test behind every "equal" answer)')
    from .C11 import graph_function_obligations, composition_obligations
    composition_obligations(ck, facts)
    graph_function_obligations(ck, facts, ['graph::GraphLike::adjoint', 'graph::GraphLike::to_adjoint', 'graph::GraphLike::plug', 'graph::GraphLike::append_graph'], E.C11_SCHEMAS)
    ET = 'graph::EType::'
    mg = enumeval.table(facts, 'graph::EType::merge', [[ET + 'N', ET + 'H'], [ET + 'N', ET + 'H']])
    wantm = {(ET + 'N', ET + 'N'): ET + 'N', (ET + 'N', ET + 'H'): ET + 'H', (ET + 'H', ET + 'N'): ET + 'H', (ET + 'H', ET + 'H'): ET + 'N'}
    ck.ob('R-TABLE-basis', 'EType::merge', mg == wantm, ck.site('graph::EType::merge'), 'seam edge types must merge as the parity of their Hadamards; table is %s' % {tuple(x.rsplit('::', 1)[1] for x in k): str(v).rsplit('::', 1)[-1] for k, v in mg.items()})
    ck.note('the definite answer "equal" rests on C11-D1 (is_identity requires plain wires; fixed in aa6cb9f) and on C01 (simplifier soundness)')
    # positive control
    fx = fixture()
    try:
        r2, _n = decision_semantics(fx['fns']['equality::equal_graph_with_options'], fx)
        fired = not r2['answers "equal" only for the identity of (adjoint of one argument composed with the OTHER argument)'][0]
    except (minirust.NoEval, minirust.Proceed) as ex:
        fired = False
    ck.control('R-PATH flags a comparison of a graph with itself', fired)

def run(ck, **kw):
    _run_own(ck)
    ck.include('C01', 'a definite answer is read off the simplified diagram: rule applications in simplify.rs must be guarded', parts=['D1', 'D2'])
