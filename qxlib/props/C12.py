"""C12 — equality checkers never give a wrong definite answer: decision structure and data flow."""
from .. import hir, paths
from ..controls import fixture

EQ = 'equality::equal_graph_with_options'


def decision_structure(f):
    ps = [p['name'] for p in f['params'] if p.get('k') == 'Bind']
    g1, g2, flag = ps[0], ps[1], ps[2]
    res = {}
    st = hir.stmts_of(f['hir'])
    # data flow: g = g1.to_adjoint(); g.plug(g2); full_simp(&mut g)
    gname = None
    order = []
    for s in st:
        if s.get('k') == 'Let' and s['pat'].get('k') == 'Bind' and s.get('init') is not None:
            i = hir.strip(s['init'])
            if i.get('k') == 'MethodCall' and i['name'] in ('to_adjoint',) and hir.local_name(i['recv']) in (g1, g2):
                gname = s['pat']['name']
                order.append(('adjoint-of', hir.local_name(i['recv'])))
        s0 = hir.strip(s)
        if s0.get('k') == 'MethodCall' and s0['name'] == 'plug' and hir.local_name(s0['recv']) == gname:
            order.append(('plug', hir.local_name(s0['args'][0])))
        if s0.get('k') == 'Call' and (hir.callee(s0) or '').startswith('simplify::') and hir.local_name(s0['args'][0]) == gname:
            order.append(('simp', hir.callee(s0).rsplit('::', 1)[1]))
    ok_flow = len(order) == 3 and order[0][0] == 'adjoint-of' and order[1][0] == 'plug' and order[2][0] == 'simp' and {order[0][1], order[1][1]} == {g1, g2}
    res['composes the adjoint of one argument with the OTHER argument, then simplifies'] = ok_flow
    res['simplifier is full_simp'] = bool(order) and order[-1] == ('simp', 'full_simp')
    rows = []
    for p in paths.return_paths(f):
        r = hir.strip(p.ret) if p.ret is not None else None
        conds = []
        for c in p.conds:
            if c[0] == 'cond':
                e = hir.strip(c[1])
                if e.get('k') == 'Call' and hir.callee(e) == 'equality::equal_graph_dim':
                    a = [hir.local_name(x) for x in e['args']]
                    conds.append(('dims-equal(%s)' % ','.join(sorted(a)), c[2]))
                elif e.get('k') == 'MethodCall' and e['name'] == 'is_identity' and hir.local_name(e['recv']) == gname:
                    conds.append(('identity', c[2]))
                elif hir.local_name(e) == flag:
                    conds.append(('up-to-phase', c[2]))
                else:
                    conds.append((hir.pp(e)[:30], c[2]))
        val = None
        if r is not None:
            a = hir.ctor_call(r, 'Some')
            if a is not None:
                b = hir.lit_bool(a[0])
                val = 'Some(%s)' % ('true' if b else 'false') if b is not None else 'Some(<scalar-argument-test>)' if any('arg' == x.get('name') for x in hir.nodes(a[0]) if x.get('k') == 'MethodCall') else 'Some(?)'
            elif hir.is_ctor_path(r, 'None'):
                val = 'None'
        rows.append((tuple(conds), val))
    dims = 'dims-equal(%s)' % ','.join(sorted([g1, g2]))
    want = [(((dims, False),), 'Some(false)'),
            (((dims, True), ('identity', True), ('up-to-phase', False)), 'Some(<scalar-argument-test>)'),
            (((dims, True), ('identity', True), ('up-to-phase', True)), 'Some(true)'),
            (((dims, True), ('identity', False)), 'None')]
    res['decision table'] = sorted(rows, key=str) == sorted(want, key=str)
    res['_rows'] = rows
    # the scalar whose argument is tested is that of the composed, simplified graph
    sc = [c for c in hir.calls(f['hir']) if c.get('k') == 'MethodCall' and c['name'] == 'scalar']
    res['argument test reads the scalar of the composed graph'] = len(sc) == 1 and hir.local_name(sc[0]['recv']) == gname
    return res


def _run_own(ck):
    facts = ck.facts
    ck.decided('D1 decision structure of equal_graph_with_options: Some(true) only under is_identity of (adjoint of one argument plugged with the OTHER argument, fully simplified), with the scalar-argument test in exact mode; Some(false) only on a dimension mismatch or (identity, exact mode, non-zero argument); None otherwise',
               'D2 equal_graph_tensor: false on dimension mismatch, otherwise exactly to_tensor4() == to_tensor4() of the two different arguments; equal_graph_dim compares both input and output counts; wrappers pass their arguments through in order',
               'D3 the pieces the definite answers are built from: is_identity contract, adjoint / plug / append_graph effect schemas, the seam edge-type merge table (same rules as C11); soundness of the simplifier is C01')
    ck.not_decided('agreement with ground truth (values)', 'that |scalar| = 1 in exact mode for non-circuit diagrams')
    f = ck.fn(EQ)
    res = decision_structure(f)
    rows = res.pop('_rows')
    for name, ok in res.items():
        ck.ob('R-PATH', EQ + '/' + name, ok, ck.site(EQ), 'equal_graph_with_options: `%s` does not hold; return table: %s' % (name, rows), sample={'rows': str(rows)[:300]})
    ck.floor('R-PATH-returns', len(rows), 4)
    # D2
    tk = 'equality::equal_graph_tensor'
    tf = ck.fn(tk)
    ps = [p['name'] for p in tf['params'] if p.get('k') == 'Bind']
    rp = paths.return_paths(tf)
    early = [p for p in rp if p.kind == 'return' and hir.lit_bool(p.ret) is False and any(c[0] == 'cond' and not c[2] and hir.callee(hir.strip(c[1])) == 'equality::equal_graph_dim' for c in p.conds)]
    tails = [p for p in rp if p.kind == 'tail']
    ok = False
    if len(tails) == 1 and tails[0].ret is not None:
        e = hir.strip(tails[0].ret)
        if e.get('k') == 'Binary' and e['op'] == 'Eq':
            l, r = hir.strip(e['l']), hir.strip(e['r'])
            ok = all(x.get('k') == 'MethodCall' and x['name'] == 'to_tensor4' for x in (l, r)) and sorted([hir.local_name(l['recv']), hir.local_name(r['recv'])]) == sorted(ps)
    ck.ob('R-PATH', tk, len(early) == 1 and ok and len(rp) == 2, ck.site(tk), 'equal_graph_tensor must be: dims differ -> false, otherwise to_tensor4(g1) == to_tensor4(g2)')
    dk = 'equality::equal_graph_dim'
    df = ck.fn(dk)
    cmps = []
    for n in hir.nodes(df['hir']):
        if n.get('k') == 'Binary' and n['op'] in ('Ne', 'Eq'):
            l, r = hir.strip(n['l']), hir.strip(n['r'])
            if l.get('k') == 'MethodCall' and l['name'] == 'len' and r.get('k') == 'MethodCall' and r['name'] == 'len':
                a, b = hir.strip(l['recv']), hir.strip(r['recv'])
                if a.get('k') == 'MethodCall' and b.get('k') == 'MethodCall' and a['name'] == b['name'] and hir.local_name(a['recv']) != hir.local_name(b['recv']):
                    cmps.append(a['name'])
    ck.ob('R-PATH', dk, sorted(cmps) == ['inputs', 'outputs'], ck.site(dk), 'equal_graph_dim must compare both the input counts and the output counts of its two arguments (compares: %s)' % cmps)
    for key, callee, extra in (('equality::equal_graph', EQ, 'true'), ('equality::equal_circuit', 'equality::equal_circuit_with_options', 'true')):
        fk = ck.fn(key)
        cs = hir.calls_to(fk['hir'], callee)
        ps = [p['name'] for p in fk['params'] if p.get('k') == 'Bind']
        ok = len(cs) == 1 and [hir.local_name(a) for a in cs[0]['args'][:2]] == ps[:2] and hir.lit_bool(cs[0]['args'][2]) is True
        ck.ob('R-PATH', key, ok, ck.site(key), '%s must pass its two arguments in order with up_to_global_phase = true' % key)
    for key, callee in (('equality::equal_circuit_with_options', EQ), ('equality::equal_circuit_tensor', 'equality::equal_graph_tensor'), ('equality::equal_circuit_dim', 'equality::equal_graph_dim')):
        fk = ck.fn(key)
        ps = [p['name'] for p in fk['params'] if p.get('k') == 'Bind']
        env = {}
        for s in hir.stmts_of(fk['hir']):
            if s.get('k') == 'Let' and s['pat'].get('k') == 'Bind' and s.get('init') is not None:
                i = hir.strip(s['init'])
                if i.get('k') == 'MethodCall' and i['name'] == 'to_graph':
                    env[s['pat']['name']] = hir.local_name(i['recv'])
        cs = hir.calls_to(fk['hir'], callee)
        ok = len(cs) == 1 and [env.get(hir.local_name(a)) for a in cs[0]['args'][:2]] == ps[:2]
        if ok and len(cs[0]['args']) == 3:
            ok = hir.local_name(cs[0]['args'][2]) == ps[2]
        ck.ob('R-PATH', key, ok, ck.site(key), '%s must translate its first and second circuit and pass the two graphs on in that order' % key)
    # D3: the pieces of graph.rs the definite answers are built from (same rules as C11, evaluated here because a wrong "equal" follows from any of them)
    import os, sys
    sys.path.insert(0, os.path.dirname(os.path.dirname(os.path.dirname(os.path.abspath(__file__)))))
    from refs import effects_ref as E
    from .. import reffect, enumeval
    from .C11 import is_identity_obligations
    is_identity_obligations(ck, facts, ' (the test behind every "equal" answer)')
    for key in ('graph::GraphLike::adjoint', 'graph::GraphLike::to_adjoint', 'graph::GraphLike::plug', 'graph::GraphLike::append_graph'):
        reffect.check_schema(ck, 'R-EFFECT', key, E.C11_SCHEMAS[key], no_vars=False)
    ET = 'graph::EType::'
    mg = enumeval.table(facts, 'graph::EType::merge', [[ET + 'N', ET + 'H'], [ET + 'N', ET + 'H']])
    wantm = {(ET + 'N', ET + 'N'): ET + 'N', (ET + 'N', ET + 'H'): ET + 'H', (ET + 'H', ET + 'N'): ET + 'H', (ET + 'H', ET + 'H'): ET + 'N'}
    ck.ob('R-TABLE-basis', 'EType::merge', mg == wantm, ck.site('graph::EType::merge'), 'seam edge types must merge as the parity of their Hadamards; table is %s' % {tuple(x.rsplit('::', 1)[1] for x in k): str(v).rsplit('::', 1)[-1] for k, v in mg.items()})
    ck.note('the definite answer "equal" rests on C11-D1 (is_identity requires plain wires; fixed in aa6cb9f) and on C01 (simplifier soundness)')
    # positive control
    fx = fixture()
    r2 = decision_structure(fx['fns']['equality::equal_graph_with_options'])
    ck.control('R-PATH flags a comparison of a graph with itself', not r2['composes the adjoint of one argument with the OTHER argument, then simplifies'])


def run(ck, **kw):
    _run_own(ck)
    ck.include('C01', 'a definite answer is read off the simplified diagram: rule applications in simplify.rs must be guarded', parts=['D1', 'D2'])
