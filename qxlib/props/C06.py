"""C06 — simulator CLI: conditional sampling, validation before use, what is printed, Pauli insertion table, dispatch tables."""
from .. import hir, paths, rtable, redge
from ..controls import fixture

SIM = 'cli::sim::'


def marginal_slices(f):
    """D1: the Bernoulli parameter of each bit must combine TWO marginals (current decomp_graph result and a loop-carried numeric prefix
    probability, or a second decomp_graph result) through a division (or multiplication by a reciprocal)."""
    fors = [n for n in hir.find(f['hir'], 'For') if any(hir.callee(c) == SIM + 'decomp_graph' for c in hir.calls(n['body']))]
    if len(fors) != 1:
        return None
    lp = fors[0]
    body = lp['body']
    draws = [c for c in hir.calls(body) if c.get('k') == 'MethodCall' and c['name'] in ('random_bool', 'gen_bool', 'random_ratio')]
    if len(draws) != 1:
        return None
    # backward slice of the draw's argument through single-assignment lets inside the loop body
    lets = {}
    for n in hir.nodes(body):
        if n.get('k') == 'Let' and n['pat'].get('k') == 'Bind' and n.get('init') is not None:
            lets[n['pat']['id']] = n['init']
    outer_mut = {}
    for s in hir.stmts_of(f['hir']):
        if s.get('k') == 'Let' and s['pat'].get('k') == 'Bind' and 'Mut' in s['pat'].get('mode', '') and s.get('init') is not None:
            outer_mut[s['pat']['id']] = (s['pat']['name'], s['pat'].get('ty', ''))
    seen = set()
    marginals = 0
    carried = set()
    division = False
    work = [draws[0]['args'][0]]
    while work:
        e = work.pop()
        for n in hir.nodes(e):
            if n.get('k') == 'Call' and hir.callee(n) == SIM + 'decomp_graph':
                marginals += 1
            if n.get('k') == 'Binary' and n['op'] == 'Div':
                division = True
            if n.get('k') == 'MethodCall' and n['name'] in ('recip', 'inv'):
                division = True
            l = hir.local(n) if n.get('k') == 'Path' else None
            if l and l[1] in lets and l[1] not in seen:
                seen.add(l[1])
                work.append(lets[l[1]])
            if l and l[1] in outer_mut and outer_mut[l[1]][1] in ('f64', 'f32'):
                carried.add(l[1])
    # a loop-carried float counts as a marginal only if it is updated inside the loop from a value derived from decomp_graph
    carried_ok = False
    for cid in carried:
        for n in hir.nodes(body):
            if n.get('k') in ('Assign', 'AssignOp') and hir.local(n['l']) and hir.local(n['l'])[1] == cid:
                # rhs slice must reach a marginal
                w2 = [n['r']]
                s2 = set()
                while w2:
                    e2 = w2.pop()
                    for x in hir.nodes(e2):
                        if x.get('k') == 'Call' and hir.callee(x) == SIM + 'decomp_graph':
                            carried_ok = True
                        l2 = hir.local(x) if x.get('k') == 'Path' else None
                        if l2 and l2[1] in lets and l2[1] not in s2:
                            s2.add(l2[1])
                            w2.append(lets[l2[1]])
    # the carried prefix probability must be updated on BOTH outcomes from the joint marginal, and on the 0-outcome also from the old
    # prefix (P(prefix.0) = P(prefix) - P(prefix.1)): a 0-branch that does not depend on the old prefix cannot be right after a non-trivial prefix
    update = None
    for cid in carried:
        for n in hir.nodes(body):
            if n.get('k') == 'Assign' and hir.local(n['l']) and hir.local(n['l'])[1] == cid:
                r = hir.strip(n['r'])
                if r.get('k') == 'If' and r.get('else'):
                    def deps(e):
                        out = set()
                        w2 = [e]
                        s2 = set()
                        while w2:
                            e2 = w2.pop()
                            for x in hir.nodes(e2):
                                if x.get('k') == 'Call' and hir.callee(x) == SIM + 'decomp_graph':
                                    out.add('joint')
                                l2 = hir.local(x) if x.get('k') == 'Path' else None
                                if l2 and l2[1] == cid:
                                    out.add('prefix')
                                if l2 and l2[1] in lets and l2[1] not in s2:
                                    s2.add(l2[1])
                                    w2.append(lets[l2[1]])
                        return out
                    bit = hir.local_name(r['cond'])
                    t, e = deps(r['then']), deps(r['else'])
                    neg = hir.strip(r['cond']).get('k') == 'Unary'
                    one, zero = (e, t) if neg else (t, e)
                    update = {'one_branch_depends_on': sorted(one), 'zero_branch_depends_on': sorted(zero)}
    upd_ok = update is None and marginals >= 2 or (update is not None and 'joint' in update['one_branch_depends_on'] and set(update['zero_branch_depends_on']) == {'joint', 'prefix'})
    return {'marginals_in_slice': marginals, 'loop_carried_prefix_probability': carried_ok, 'division': division, 'prefix_update': update,
            'conditional': division and (marginals >= 2 or (marginals >= 1 and carried_ok)) and bool(upd_ok)}


def validation_dominates(f, err_variant='StringWrongLen'):
    """D2: the length validation that returns Err dominates the first use of the string for plugging/indexing"""
    st = hir.stmts_of(f['hir'])
    vidx = None
    for i, s in enumerate(st):
        if s.get('k') == 'Let' and s.get('init') is not None:
            m = hir.strip(s['init'])
            if m.get('k') == 'Match':
                arms = m['arms']
                rets = [a for a in arms if any(x.get('k') == 'Ret' and hir.ctor_call(x.get('e'), 'Err') is not None and err_variant in hir.pp(x['e']) for x in hir.nodes(a['body']))]
                wild = [a for a in arms if a['pat'].get('k') == 'Wild']
                # accepting arms: single element (broadcast) and exact length
                acc = [hir.pp_pat(a['pat']) + ((' if ' + hir.pp(a['guard'])) if a.get('guard') else '') for a in arms if a not in rets]
                if rets and wild and rets[0] is wild[0]:
                    vidx = (i, acc)
    uidx = None
    for i, s in enumerate(st):
        if any(c.get('k') == 'MethodCall' and c['name'] in ('plug_outputs', 'plug_output', 'outputs') for c in hir.calls(s)) and uidx is None:
            uidx = i
    return vidx, uidx


def query_semantics(f, elem_true, elem_false):
    """amplitude / expectation_value on a 3-qubit circuit, evaluated up to the first graph operation the host does not model, for query strings of length 0..5:
    a string of length 1 (broadcast) or 3 (exact) is accepted, any other length returns Err(StringWrongLen) BEFORE any plug / index; for amplitude the plugged
    basis elements are recorded.  Returns (ok | None, message, sample)."""
    from .. import minirust as M
    ps = [p_ for p_ in f['params'] if p_.get('k') == 'Bind']
    circ = [p_ for p_, t in zip(f['params'], f['inputs']) if 'Circuit' in t]
    strp = [p_ for p_, t in zip(f['params'], f['inputs']) if 'Vec<' in t]
    if len(circ) != 1 or len(strp) != 1:
        return None, 'the circuit / query-string parameters were not identified', None
    results = {}
    plugged = {}
    for L in range(0, 6):
        record = {'inputs': None, 'outputs': None}

        def mk_graph(record=record):
            return M.Obj('graph', {'plug_inputs': lambda a: record.__setitem__('inputs', list(a[0])), 'plug_outputs': lambda a: record.__setitem__('outputs', list(a[0]))}, strict=False)
        c_obj = M.Obj('circ', {'num_qubits': lambda a: 3, 'to_graph': lambda a, mk=mk_graph: mk()}, strict=False)
        env = {circ[0]['id']: c_obj, strp[0]['id']: [elem_true if i % 2 == 0 else elem_false for i in range(L)]}
        for p_ in ps:
            env.setdefault(p_['id'], M.Obj(p_['name'], {}, strict=False))
        it = M.Interp()
        it.host_fns = {}
        try:
            it.block(hir.stmts_of(f['hir']), env)
            results[L] = 'finished'
        except M._Return as r:
            results[L] = ('Err:' + str(r.v[1][1]).rsplit('::', 1)[-1]) if isinstance(r.v, tuple) and r.v[0] == 'Err' and isinstance(r.v[1], tuple) else 'returned'
        except M.Proceed as pr:
            results[L] = 'proceeds'
        except M.NoEval as ex:
            if 'call ' in str(ex) and (record['inputs'] is not None or record['outputs'] is not None):
                results[L] = 'proceeds'      # reached a call into the rest of the pipeline after plugging
            else:
                return None, 'the query validation is not evaluable by the rule (%s)' % ex, None
        plugged[L] = dict(record)
    want = {0: 'Err:StringWrongLen', 1: 'proceeds', 2: 'Err:StringWrongLen', 3: 'proceeds', 4: 'Err:StringWrongLen', 5: 'Err:StringWrongLen'}
    bad = {L: (results[L], want[L]) for L in want if not results[L].startswith(want[L]) and not (want[L] == 'proceeds' and results[L] == 'finished')}
    if bad:
        L = sorted(bad)[0]
        return False, ('on a 3-qubit circuit a query string of length %d %s; it must %s (accepted forms: the single-character broadcast and the exact length; everything else is Err(StringWrongLen) before the string is used)'
                       % (L, 'is accepted and used' if bad[L][0] in ('proceeds', 'finished') else 'gives ' + bad[L][0], 'be rejected with Err(StringWrongLen)' if want[L].startswith('Err') else 'be accepted')), {'outcomes': results}
    return True, '', {'outcomes': results, 'plugged': {L: plugged[L] for L in (1, 3)}}


def parser_table(f):
    """char -> value table of a string parser; default must be Err"""
    ms = hir.find(f['hir'], 'Match')
    if len(ms) != 1:
        return None
    tbl = {}
    default_err = False
    for a in ms[0]['arms']:
        p = a['pat']
        body = hir.stmts_of(a['body'])[0] if hir.stmts_of(a['body']) else None
        if p.get('k') == 'Lit':
            ch = p['v']
            ok = hir.ctor_call(body, 'Ok')
            tbl[ch[ch.find("'") + 1:ch.rfind("'")] if "'" in ch else ch] = hir.pp(ok[0]) if ok else 'ERR'
        elif p.get('k') == 'Wild':
            default_err = hir.ctor_call(body, 'Err') is not None
    upper = 'to_ascii_uppercase' in hir.pp(ms[0]['scrut'])
    return tbl, default_err, upper


def pauli_arms(facts, f):
    """per Pauli: inserted spiders (type, phase) in order from the circuit side to the boundary, extra scalar phase, and whether the type of the replaced edge is preserved"""
    ms = rtable.enum_matches(f, SIM + 'Pauli')
    if len(ms) != 1:
        return None
    variants = rtable.enum_variants(facts, SIM + 'Pauli')
    t, _ = rtable.match_table(ms[0], SIM + 'Pauli', variants)
    # the binding of the replaced edge: let [(v, et)] = g.incident_edge_vec(b)
    et_bound = None
    lp = None
    for n in hir.find(f['hir'], 'For'):
        if any(x is ms[0] for x in hir.nodes(n['body'])):
            lp = n
    if lp is not None:
        for s in hir.nodes(lp['body']):
            if s.get('k') == 'Let' and s.get('init') is not None and 'incident_edge' in hir.pp(s['init']):
                bs = hir.bindings(s['pat'])
                et_bound = bs[1] if len(bs) >= 2 else None
    out = {}
    for v in variants:
        body = t[v]['body']
        fresh = {}
        for n in hir.nodes(body):
            if n.get('k') == 'Let' and n['pat'].get('k') == 'Bind' and n.get('init') is not None:
                i = hir.strip(n['init'])
                if i.get('k') == 'MethodCall' and i['name'] == 'add_vertex_with_phase':
                    fresh[n['pat']['id']] = ((hir.def_path(i['args'][0]) or '').rsplit('::', 1)[-1], hir.lit_int(i['args'][1]))
        edges = []
        removed = []
        typed = False
        for c in hir.calls(body):
            if c.get('k') != 'MethodCall':
                continue
            if c['name'] == 'remove_edge':
                removed.append(tuple(hir.local_name(a) for a in c['args'][:2]))
            if c['name'] in ('add_edge', 'add_edge_with_type', 'add_edge_smart'):
                ends = []
                for a in c['args'][:2]:
                    l = hir.local(a)
                    ends.append(fresh.get(l[1], l[0]) if l else '?')
                et = 'N'
                if c['name'] != 'add_edge':
                    l = hir.local(c['args'][2])
                    if l and et_bound and l[1] == et_bound[1]:
                        et = 'OLD'
                        typed = True
                    else:
                        et = (hir.def_path(c['args'][2]) or '?').rsplit('::', 1)[-1]
                edges.append((ends[0], ends[1], et))
        phase = [hir.pp(c['args'][0]) for c in hir.calls(body) if c.get('k') == 'MethodCall' and c['name'] == 'mul_phase']
        # chain from v to b
        chain = []
        cur = 'v'
        used = set()
        for _ in range(4):
            nxt = [e for i, e in enumerate(edges) if i not in used and e[0] == cur]
            if not nxt:
                break
            e = nxt[0]
            used.add(edges.index(e))
            if isinstance(e[1], tuple):
                chain.append(e[1])
            cur = e[1] if not isinstance(e[1], tuple) else e[1]
            # continue from the fresh vertex: find edge whose first end equals this fresh tuple
            if isinstance(cur, tuple):
                pass
        out[v] = {'spiders_v_to_b': chain, 'removed': removed, 'edges': edges, 'scalar_phase': phase, 'old_edge_type_preserved': typed or not removed}
    return out, et_bound is not None


PAULI_REF = {'I': [], 'X': [('X', 1)], 'Z': [('Z', 1)], 'Y': [('Z', 1), ('X', 1)]}    # Y = i X Z: Z is applied first (next to the circuit), then X, times e^{i pi/2}


class _Pos:
    """within the block, a mismatch of one of `rules` is undecided, not a violation: the behaviour they stand for was decided by evaluation (DESIGN 3.4)"""

    def __init__(self, ck, rules, on, why):
        self.ck, self.rules, self.on, self.why = ck, rules, on, why

    def __enter__(self):
        self.saved = dict(getattr(self.ck, 'positive_only', {}) or {})
        if self.on:
            d = dict(self.saved)
            for r in self.rules:
                d[r] = self.why
            self.ck.positive_only = d

    def __exit__(self, *a):
        self.ck.positive_only = self.saved
        return False


def ev_queries(ck):
    """E3-sim: the three queries evaluated end to end on a concrete state (qxlib/simsem.py) -> {query: decided and held}"""
    from .. import simsem, minirust
    facts = ck.facts
    held = {}
    total = 0
    for name, fn in (('amplitude', simsem.ev_amplitude), ('expectation_value', simsem.ev_expectation), ('sample', simsem.ev_sample)):
        key = SIM + name
        ck.fn(key)
        try:
            res, n = fn(facts)
        except (minirust.NoEval, minirust.Proceed) as ex:
            ck.ob3('E3-sim', name + '/evaluation', None, ck.site(key), 'the evaluator declined (%s: %s); the shape rules decide what they can' % (type(ex).__name__, ex))
            held[name] = False
            continue
        except minirust.Panics as ex:
            ck.ob('E3-sim', name + '/no-panic', False, ck.site(key), 'the query panics on a well-formed input: %s' % ex)
            held[name] = False
            continue
        total += n
        held[name] = all(ok for ok, _d in res.values())
        for cl, (ok, d) in res.items():
            ck.ob('E3-sim', '%s/%s' % (name, cl), ok, ck.site(key), d, sample={'query': name, 'clause': cl, 'cases': n} if cl == 'value' else None)
    ck.floor('E3-sim-cases', total, 500)
    ck.note('sim queries: %d evaluated cases (amplitude: every bit string of length 0..qubits+2 on 1..3 qubits, both decomposition paths; expectation value: every Pauli string, '
            'plain and Hadamard boundary edges; sample: every outcome of the draws)' % total)
    return held


def _run_own(ck):
    facts = ck.facts
    ck.decided('D0 (evaluation) amplitude, expectation_value, sample and decomp_graph interpreted from their HIR on a host circuit denoting a fixed state with exact complex amplitudes (1..3 qubits): the numbers returned equal '
               '|<bits|psi>|^2 and <psi|P|psi> computed directly from the state for every bit string / Pauli string (broadcast and exact length, with and without Hadamard boundary edges, both decomposition paths), '
               'wrong lengths are rejected before the diagram is touched, and over every outcome of the Bernoulli draws the k-th draw uses P(bit k = 1 | bits drawn before) and the drawn bits are what is returned')
    held = ev_queries(ck)
    why_ev = 'the behaviour was decided by the end-to-end evaluation E3-sim in this run'
    ck.decided('D1 sampling draws each bit with a CONDITIONAL probability: the Bernoulli parameter combines two marginals (the current one and a loop-carried prefix probability or a second marginal) through a division',
               'D2 malformed queries are rejected, not panicked on: the length validation returning Err(StringWrongLen) dominates the first use of the string; both parsers map every other character to Err',
               'D3 what is printed: amplitude = Re(s * conj(s)); expectation = Re(scalar) of the doubled diagram; Pauli insertion table (I, X(pi), Z(pi), Y = Z(pi) then X(pi) with phase 1/2) preserving the type of the replaced boundary edge; all tasks go through decomp_graph whose two branches differ only in decompose_parallel vs decompose; dispatch tables')
    ck.not_decided('the printed numbers themselves (C05)', 'independence of the decomposition method as values', 'the distribution of samples')
    # ---- D1
    sk = SIM + 'sample'
    f = ck.fn(sk)
    ms = marginal_slices(f)
    ck.positive_only = dict(getattr(ck, 'positive_only', {}) or {})
    if held.get('sample'):
        ck.positive_only['R-DATAFLOW'] = why_ev
    if ms is None:
        ck.violation('R-DATAFLOW', sk + '/shape', ck.site(sk), 'anchor-missing: per-qubit loop with one decomp_graph call and one Bernoulli draw not found')
    else:
        base = ms['division'] and (ms['marginals_in_slice'] >= 2 or (ms['marginals_in_slice'] >= 1 and ms['loop_carried_prefix_probability']))
        ck.ob('R-DATAFLOW', sk + '/conditional-probability', base, ck.site(sk),
              'the Bernoulli parameter of bit k is built from a single marginal P(prefix, 1): that is the JOINT probability, not the conditional probability given the bits drawn before (%s)' % ms, sample=ms)
        ck.ob('R-DATAFLOW', sk + '/prefix-update', ms['conditional'] or not base, ck.site(sk),
              'the carried prefix probability must become the joint marginal after a 1 and (old prefix - joint) after a 0; found dependencies %s — a 0-branch that ignores the old prefix is only right for the first bit' % ms.get('prefix_update'))
    ck.positive_only.pop('R-DATAFLOW', None)
    # ---- D2
    qsem = {}
    for key, et, ef_ in ((SIM + 'amplitude', True, False), (SIM + 'expectation_value', ('const', SIM + 'Pauli::X'), ('const', SIM + 'Pauli::Z'))):
        fk = ck.fn(key)
        # decided by evaluating the function on query strings of every length 0..5 for a 3-qubit circuit (independent of how the validation is spelled)
        okq, msgq, sampleq = query_semantics(fk, et, ef_)
        qsem[key] = sampleq
        ck.ob3('R-BOUNDS-validate', key + '/validated-before-use', okq, ck.site(key), msgq, sample={'outcomes': (sampleq or {}).get('outcomes')})
        ck.ob3('R-BOUNDS-validate', key + '/accepts-broadcast-and-exact-length', okq, ck.site(key), msgq)
    for key, want in ((SIM + 'parse_bit_string', {'0': 'false', '1': 'true'}), (SIM + 'parse_pauli_string', {'I': 'I', 'X': 'X', 'Y': 'Y', 'Z': 'Z'})):
        ck.fn(key)
        # (round 2) decided by evaluating the parser on every string of length <= 2 over its alphabet (both cases) plus two foreign characters
        try:
            import itertools
            from .. import minirust as _mr
            alpha = [c for k_ in want for c in (k_, k_.lower())] + ['2', 'q']
            bad = None
            nstr = 0
            for L in range(0, 3):
                for tup in itertools.product(sorted(set(alpha)), repeat=L):
                    s_ = ''.join(tup)
                    it = _mr.Interp(fuel=20000, facts=facts, inline=lambda c: c.startswith('cli::sim::'))
                    got = it.local_call(key, [s_])
                    nstr += 1
                    exp = [want.get(c.upper()) for c in s_]
                    if None in exp:
                        okp = isinstance(got, tuple) and got and got[0] == 'Err'
                    else:
                        vals = got[1] if (isinstance(got, tuple) and got and got[0] == 'Ok') else None
                        okp = vals is not None and [('true' if v is True else 'false' if v is False else str(v[1]).rsplit('::', 1)[-1] if isinstance(v, tuple) else '?') for v in vals] == exp
                    if not okp and bad is None:
                        bad = 'the string %r parses to %s' % (s_, got)
            ck.ob('R-TABLE-parse', key, bad is None, ck.site(key), '%s; expected %s (case-insensitive), every other character an error' % (bad, want), sample={'strings': nstr})
            continue
        except (_mr.NoEval, _mr.Proceed, TypeError, KeyError, IndexError, AttributeError, ValueError) as ex:
            ck.note('%s: the evaluator declined (%s); syntactic table used, positive matches only' % (key, ex))
        r = parser_table(ck.fn(key))
        if r is None:
            ck.violation('R-TABLE-parse', key + '/shape', ck.site(key), 'anchor-missing')
            continue
        tbl, derr, upper = r
        got = {k: v.rsplit('::', 1)[-1] for k, v in tbl.items()}
        ck.ob3('R-TABLE-parse', key, True if (got == want and derr) else None, ck.site(key), 'the parser is not evaluable and its table was read as %s (default Err: %s), expected %s with every other character an error' % (got, derr, want), sample={'table': got})
    # ---- D3
    if held.get('amplitude') and held.get('expectation_value'):
        for r_ in ('R-EFFECT', 'R-TABLE-pauli', 'R-EDGE-replace'):
            ck.positive_only[r_] = why_ev
    af = ck.fn(SIM + 'amplitude')
    ok = False
    for n in hir.nodes(af['hir']):
        if n.get('k') == 'Let' and n['pat'].get('k') == 'Bind' and n['pat']['name'] == 'amp':
            i = hir.strip(n['init'])
            if i.get('k') == 'Binary' and i['op'] == 'Mul':
                l, r = hir.strip(i['l']), hir.strip(i['r'])
                ok = hir.local_name(l) == 'scalar' and r.get('k') == 'MethodCall' and r['name'] == 'conj' and hir.local_name(r['recv']) == 'scalar'
    tail = hir.stmts_of(af['hir'])[-1]
    okret = 'amp.complex_value().re' in hir.pp(tail)
    ck.ob('R-EFFECT', SIM + 'amplitude/probability', ok and okret, ck.site(SIM + 'amplitude'), 'the amplitude query must print Re(s * conj(s)) of the plugged diagram\'s scalar')
    pg = (qsem.get(SIM + 'amplitude') or {}).get('plugged')
    if not pg:
        ck.ob3('R-EFFECT', SIM + 'amplitude/plugs', None, ck.site(SIM + 'amplitude'), 'what amplitude plugs could not be evaluated')
    else:
        def nm_(x):
            return str(x[1]).rsplit('::', 1)[-1] if isinstance(x, tuple) and x and x[0] == 'const' else str(x)
        exact = pg.get(3) or {}
        broad = pg.get(1) or {}
        okp = [nm_(x) for x in (exact.get('inputs') or [])] == ['Z0'] * 3 and [nm_(x) for x in (exact.get('outputs') or [])] == ['Z1', 'Z0', 'Z1'] \
            and [nm_(x) for x in (broad.get('outputs') or [])] == ['Z1'] * 3
        ck.ob('R-EFFECT', SIM + 'amplitude/plugs', okp, ck.site(SIM + 'amplitude'),
              'amplitude must plug |0..0> into the inputs and the requested bits (true -> Z1, false -> Z0) into the outputs; for the bits [1,0,1] it plugs inputs %s, outputs %s; for the broadcast [1] outputs %s'
              % ([nm_(x) for x in (exact.get('inputs') or [])], [nm_(x) for x in (exact.get('outputs') or [])], [nm_(x) for x in (broad.get('outputs') or [])]))
    ef = ck.fn(SIM + 'expectation_value')
    r = pauli_arms(facts, ef)
    if r is None:
        ck.violation('R-TABLE-pauli', 'shape', ck.site(SIM + 'expectation_value'), 'anchor-missing: Pauli match')
    else:
        arms, has_et = r
        for v, d in arms.items():
            want = PAULI_REF[v]
            ck.ob('R-TABLE-pauli', 'expectation_value/%s/spiders' % v, d['spiders_v_to_b'] == want, ck.site(SIM + 'expectation_value'),
                  'Pauli %s inserts %s between the circuit and the boundary, reference %s' % (v, d['spiders_v_to_b'], want), sample={'pauli': v, 'inserted': str(d['spiders_v_to_b']), 'edges': str(d['edges'])})
            ck.ob('R-TABLE-pauli', 'expectation_value/%s/phase' % v, (d['scalar_phase'] != []) == (v == 'Y') and (v != 'Y' or '1, 2' in d['scalar_phase'][0] or '(1, 2)' in d['scalar_phase'][0]), ck.site(SIM + 'expectation_value'),
                  'only Y carries the phase e^{i pi/2} (Y = i X Z): %s has %s' % (v, d['scalar_phase']))
            if d['removed']:
                ck.ob('R-EDGE-replace', 'expectation_value/%s/edge-type-preserved' % v, d['old_edge_type_preserved'], ck.site(SIM + 'expectation_value'),
                      'Pauli %s replaces the boundary edge (v, b) by a path of plain edges and discards the type of the removed edge: when that edge is a Hadamard edge (an idle qubit after plugging |0>) the Hadamard is lost' % v)
    tailt = hir.pp(hir.stmts_of(ef['hir'])[-1])
    ck.ob('R-EFFECT', SIM + 'expectation_value/doubled', 'scalar.complex_value().re' in tailt and any(c.get('k') == 'MethodCall' and c['name'] == 'plug' and hir.local_name(c['args'][0]) == 'g_adj' for c in hir.calls(ef['hir'])), ck.site(SIM + 'expectation_value'),
          'expectation must be Re(scalar) of g ; P ; g-adjoint')
    # adjoint taken before the Paulis are inserted
    st = hir.stmts_of(ef['hir'])
    ia = [i for i, s in enumerate(st) if s.get('k') == 'Let' and s['pat'].get('k') == 'Bind' and s['pat']['name'] == 'g_adj']
    il = [i for i, s in enumerate(st) if s.get('k') == 'For']
    ck.ob('R-EFFECT', SIM + 'expectation_value/adjoint-before-paulis', bool(ia and il) and ia[0] < il[0], ck.site(SIM + 'expectation_value'), 'the adjoint copy must be taken before the Pauli spiders are inserted')
    for r_ in ('R-EFFECT', 'R-TABLE-pauli', 'R-EDGE-replace'):
        ck.positive_only.pop(r_, None)
    dg = ck.fn(SIM + 'decomp_graph')
    # every path: full_simp first, then exactly one of decompose_parallel (the `parallel` option is Some) / decompose (it is None), then the scalar is read
    par_id = [p_['id'] for p_, t in zip(dg['params'], dg['inputs']) if 'Option<usize>' in t]

    def _ev_dg(n):
        return (n.get('k') == 'Call' and (hir.callee(n) or '').startswith('simplify::')) or (n.get('k') == 'MethodCall' and n['name'] in ('decompose', 'decompose_parallel', 'scalar', 'set_target'))
    eps = [p_ for p_ in paths.effect_paths(hir.stmts_of(dg['hir']), _ev_dg) if p_.end != 'diverge']
    ok = None
    why = ''
    if eps and par_id:
        ok = True
        for p_ in eps:
            names = [(hir.callee(e) or '').rsplit('::', 1)[-1] if e.get('k') == 'Call' else e['name'] for e in p_.events if isinstance(e, dict)]
            some = None
            for c in p_.conds:
                if c[0] in ('pat', 'nopat') and any(hir.local(x) and hir.local(x)[1] == par_id[0] for x in hir.nodes(c[2]) if x.get('k') == 'Path'):
                    pats = [c[1]] if c[0] == 'pat' else c[1]
                    is_some = all((hir.pat_ctor(q) or '').endswith('Some') for q in pats)
                    is_none = all(hir.pp_pat(q).endswith('None') for q in pats)
                    if c[0] == 'pat':
                        some = True if is_some else (False if is_none else some)
                    else:
                        some = False if is_some else (True if is_none else some)
            dec = [x for x in names if x in ('decompose', 'decompose_parallel')]
            if some is None or len(dec) != 1:
                ok, why = None, 'a path of decomp_graph is not conditioned on the `parallel` option in a recognised way (%s)' % names
                break
            good = names[:1] == ['full_simp'] and dec == (['decompose_parallel'] if some else ['decompose']) and 'scalar' in names[names.index(dec[0]):] and [x for x in names if x.endswith('_simp')] == ['full_simp']
            if not good:
                ok, why = False, 'with parallel = %s decomp_graph performs %s; it must full_simp, then %s, then read the scalar' % ('Some(n)' if some else 'None', names, 'decompose_parallel' if some else 'decompose')
                break
    ck.ob3('R-SIB-parallel', SIM + 'decomp_graph', ok, ck.site(SIM + 'decomp_graph'), why or 'decomp_graph must full_simp, set the target and then differ only in decompose_parallel vs decompose')
    for key in (SIM + 'sample', SIM + 'amplitude', SIM + 'expectation_value'):
        n = len(hir.calls_to(facts['fns'][key]['hir'], SIM + 'decomp_graph'))
        direct = [c for c in hir.calls(facts['fns'][key]['hir']) if c.get('k') == 'MethodCall' and c['name'] in ('decompose', 'decompose_parallel')]
        ck.ob('R-WHO', key + '/through-decomp_graph', n >= 1 and not direct, ck.site(key), 'every task must evaluate scalars through decomp_graph')
    tk = SIM + 'SimTask::run'
    tf = ck.fn(tk)
    # which option field of the task guards which evaluation function: every call must be dominated by `Some(..)` of exactly one field of self
    pm_t = hir.parent_map(tf['hir'])
    direct = {}
    unknown_guard = False
    for c in hir.calls(tf['hir']):
        if hir.callee(c) in (SIM + 'sample', SIM + 'amplitude', SIM + 'expectation_value'):
            flds = set()
            for d in paths.dominating_conds(c, pm_t):
                if d[0] == 'pat' and (hir.pat_ctor(d[1]) or '').endswith('Some'):
                    for x in hir.nodes(d[2]):
                        if x.get('k') == 'Field' and hir.local_name(x['e']) == 'self':
                            flds.add(x['name'])
            if len(flds) == 1:
                direct.setdefault(next(iter(flds)), set()).add(hir.callee(c).rsplit('::', 1)[1])
            else:
                unknown_guard = True
    direct = {k2: sorted(v2) for k2, v2 in direct.items()}
    want_t = {'shots': ['sample'], 'bit_string': ['amplitude'], 'pauli_string': ['expectation_value']}
    conflict = any(direct.get(k2) and direct[k2] != v2 for k2, v2 in want_t.items()) or any(k2 not in want_t for k2 in direct)
    ck.ob3('R-TABLE-config', tk, True if direct == want_t else (False if conflict else None), ck.site(tk), 'task dispatch is %s' % direct, sample={'table': str(direct)})
    rk = SIM + 'SimArgs::run'
    rf = ck.fn(rk)
    ifs = [n for n in hir.nodes(rf['hir']) if n.get('k') == 'If' and hir.local_name(n['cond']) in ('cats', 'use_cats')]
    ok = False
    if ifs:
        a = 'BssWithCatsDriver' in hir.pp(ifs[0]['then']) and 'BssTOnlyDriver' not in hir.pp(ifs[0]['then'])
        b = 'BssTOnlyDriver' in hir.pp(ifs[0]['else']) and 'BssWithCatsDriver' not in hir.pp(ifs[0]['else'])
        ok = a and b
    ck.ob('R-TABLE-config', rk + '/driver', ok, ck.site(rk), '--cats must select BssWithCatsDriver, otherwise BssTOnlyDriver')
    bd = ck.fn(SIM + 'SimMethod::build_decomposer')
    ck.ob('R-TABLE-config', 'SimMethod::build_decomposer', any(c.get('k') == 'MethodCall' and c['name'] == 'with_full_simp' for c in hir.calls(bd['hir'])) and 'self.cats' in hir.pp(bd['hir']), ck.site(SIM + 'SimMethod::build_decomposer'),
          'the decomposer must use full simplification and report the cats flag')
    # positive controls
    fx = fixture()
    ck.control('R-DATAFLOW flags a joint-probability sampler', marginal_slices(fx['fns']['cli::sim::sample'])['conditional'] is False)


def run(ck, **kw):
    _run_own(ck)
    ck.include('C05', 'every printed number is the value the decomposer returns')
    ck.include('C11', 'the diagrams handed to the decomposer are built with plug_inputs / plug_output / plug / to_adjoint of graph.rs')
    ck.include('C02', 'the simulator works on circuit.to_graph(): a wrong translation (gate semantics, qubit / output order after SWAPs) gives wrong amplitudes, expectation values and samples', own_only=True)
