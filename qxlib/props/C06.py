"""C06 — simulator CLI: conditional sampling, validation before use, what is printed, Pauli insertion table, dispatch tables."""
from .. import hir, paths, rtable, redge
from ..controls import fixture

SIM = 'cli::sim::'


def marginal_slices(f):
    """D1: the Bernoulli parameter of each bit must combine TWO marginals (current decomp_graph result and a loop-carried numeric prefix
    probability, or a second decomp_graph result) through a division (or multiplication by a reciprocal)."""
    fors = [n for n in hir.find(f['hir'], 'For') if any(hir.callee(c) == SIM + 'decomp_graph' for c in hir.calls(n['body']))]
    if len(fors) != 1:
        return None
    lp = fors[0]
    body = lp['body']
    draws = [c for c in hir.calls(body) if c.get('k') == 'MethodCall' and c['name'] in ('random_bool', 'gen_bool', 'random_ratio')]
    if len(draws) != 1:
        return None
    # backward slice of the draw's argument through single-assignment lets inside the loop body
    lets = {}
    for n in hir.nodes(body):
        if n.get('k') == 'Let' and n['pat'].get('k') == 'Bind' and n.get('init') is not None:
            lets[n['pat']['id']] = n['init']
    outer_mut = {}
    for s in hir.stmts_of(f['hir']):
        if s.get('k') == 'Let' and s['pat'].get('k') == 'Bind' and 'Mut' in s['pat'].get('mode', '') and s.get('init') is not None:
            outer_mut[s['pat']['id']] = (s['pat']['name'], s['pat'].get('ty', ''))
    seen = set()
    marginals = 0
    carried = set()
    division = False
    work = [draws[0]['args'][0]]
    while work:
        e = work.pop()
        for n in hir.nodes(e):
            if n.get('k') == 'Call' and hir.callee(n) == SIM + 'decomp_graph':
                marginals += 1
            if n.get('k') == 'Binary' and n['op'] == 'Div':
                division = True
            if n.get('k') == 'MethodCall' and n['name'] in ('recip', 'inv'):
                division = True
            l = hir.local(n) if n.get('k') == 'Path' else None
            if l and l[1] in lets and l[1] not in seen:
                seen.add(l[1])
                work.append(lets[l[1]])
            if l and l[1] in outer_mut and outer_mut[l[1]][1] in ('f64', 'f32'):
                carried.add(l[1])
    # a loop-carried float counts as a marginal only if it is updated inside the loop from a value derived from decomp_graph
    carried_ok = False
    for cid in carried:
        for n in hir.nodes(body):
            if n.get('k') in ('Assign', 'AssignOp') and hir.local(n['l']) and hir.local(n['l'])[1] == cid:
                # rhs slice must reach a marginal
                w2 = [n['r']]
                s2 = set()
                while w2:
                    e2 = w2.pop()
                    for x in hir.nodes(e2):
                        if x.get('k') == 'Call' and hir.callee(x) == SIM + 'decomp_graph':
                            carried_ok = True
                        l2 = hir.local(x) if x.get('k') == 'Path' else None
                        if l2 and l2[1] in lets and l2[1] not in s2:
                            s2.add(l2[1])
                            w2.append(lets[l2[1]])
    # the carried prefix probability must be updated on BOTH outcomes from the joint marginal, and on the 0-outcome also from the old
    # prefix (P(prefix.0) = P(prefix) - P(prefix.1)): a 0-branch that does not depend on the old prefix cannot be right after a non-trivial prefix
    update = None
    for cid in carried:
        for n in hir.nodes(body):
            if n.get('k') == 'Assign' and hir.local(n['l']) and hir.local(n['l'])[1] == cid:
                r = hir.strip(n['r'])
                if r.get('k') == 'If' and r.get('else'):
                    def deps(e):
                        out = set()
                        w2 = [e]
                        s2 = set()
                        while w2:
                            e2 = w2.pop()
                            for x in hir.nodes(e2):
                                if x.get('k') == 'Call' and hir.callee(x) == SIM + 'decomp_graph':
                                    out.add('joint')
                                l2 = hir.local(x) if x.get('k') == 'Path' else None
                                if l2 and l2[1] == cid:
                                    out.add('prefix')
                                if l2 and l2[1] in lets and l2[1] not in s2:
                                    s2.add(l2[1])
                                    w2.append(lets[l2[1]])
                        return out
                    bit = hir.local_name(r['cond'])
                    t, e = deps(r['then']), deps(r['else'])
                    neg = hir.strip(r['cond']).get('k') == 'Unary'
                    one, zero = (e, t) if neg else (t, e)
                    update = {'one_branch_depends_on': sorted(one), 'zero_branch_depends_on': sorted(zero)}
    upd_ok = update is None and marginals >= 2 or (update is not None and 'joint' in update['one_branch_depends_on'] and set(update['zero_branch_depends_on']) == {'joint', 'prefix'})
    return {'marginals_in_slice': marginals, 'loop_carried_prefix_probability': carried_ok, 'division': division, 'prefix_update': update,
            'conditional': division and (marginals >= 2 or (marginals >= 1 and carried_ok)) and bool(upd_ok)}


def validation_dominates(f, err_variant='StringWrongLen'):
    """D2: the length validation that returns Err dominates the first use of the string for plugging/indexing"""
    st = hir.stmts_of(f['hir'])
    vidx = None
    for i, s in enumerate(st):
        if s.get('k') == 'Let' and s.get('init') is not None:
            m = hir.strip(s['init'])
            if m.get('k') == 'Match':
                arms = m['arms']
                rets = [a for a in arms if any(x.get('k') == 'Ret' and hir.ctor_call(x.get('e'), 'Err') is not None and err_variant in hir.pp(x['e']) for x in hir.nodes(a['body']))]
                wild = [a for a in arms if a['pat'].get('k') == 'Wild']
                # accepting arms: single element (broadcast) and exact length
                acc = [hir.pp_pat(a['pat']) + ((' if ' + hir.pp(a['guard'])) if a.get('guard') else '') for a in arms if a not in rets]
                if rets and wild and rets[0] is wild[0]:
                    vidx = (i, acc)
    uidx = None
    for i, s in enumerate(st):
        if any(c.get('k') == 'MethodCall' and c['name'] in ('plug_outputs', 'plug_output', 'outputs') for c in hir.calls(s)) and uidx is None:
            uidx = i
    return vidx, uidx


def parser_table(f):
    """char -> value table of a string parser; default must be Err"""
    ms = hir.find(f['hir'], 'Match')
    if len(ms) != 1:
        return None
    tbl = {}
    default_err = False
    for a in ms[0]['arms']:
        p = a['pat']
        body = hir.stmts_of(a['body'])[0] if hir.stmts_of(a['body']) else None
        if p.get('k') == 'Lit':
            ch = p['v']
            ok = hir.ctor_call(body, 'Ok')
            tbl[ch[ch.find("'") + 1:ch.rfind("'")] if "'" in ch else ch] = hir.pp(ok[0]) if ok else 'ERR'
        elif p.get('k') == 'Wild':
            default_err = hir.ctor_call(body, 'Err') is not None
    upper = 'to_ascii_uppercase' in hir.pp(ms[0]['scrut'])
    return tbl, default_err, upper


def pauli_arms(facts, f):
    """per Pauli: inserted spiders (type, phase) in order from the circuit side to the boundary, extra scalar phase, and whether the type of the replaced edge is preserved"""
    ms = rtable.enum_matches(f, SIM + 'Pauli')
    if len(ms) != 1:
        return None
    variants = rtable.enum_variants(facts, SIM + 'Pauli')
    t, _ = rtable.match_table(ms[0], SIM + 'Pauli', variants)
    # the binding of the replaced edge: let [(v, et)] = g.incident_edge_vec(b)
    et_bound = None
    lp = None
    for n in hir.find(f['hir'], 'For'):
        if any(x is ms[0] for x in hir.nodes(n['body'])):
            lp = n
    if lp is not None:
        for s in hir.nodes(lp['body']):
            if s.get('k') == 'Let' and s.get('init') is not None and 'incident_edge' in hir.pp(s['init']):
                bs = hir.bindings(s['pat'])
                et_bound = bs[1] if len(bs) >= 2 else None
    out = {}
    for v in variants:
        body = t[v]['body']
        fresh = {}
        for n in hir.nodes(body):
            if n.get('k') == 'Let' and n['pat'].get('k') == 'Bind' and n.get('init') is not None:
                i = hir.strip(n['init'])
                if i.get('k') == 'MethodCall' and i['name'] == 'add_vertex_with_phase':
                    fresh[n['pat']['id']] = ((hir.def_path(i['args'][0]) or '').rsplit('::', 1)[-1], hir.lit_int(i['args'][1]))
        edges = []
        removed = []
        typed = False
        for c in hir.calls(body):
            if c.get('k') != 'MethodCall':
                continue
            if c['name'] == 'remove_edge':
                removed.append(tuple(hir.local_name(a) for a in c['args'][:2]))
            if c['name'] in ('add_edge', 'add_edge_with_type', 'add_edge_smart'):
                ends = []
                for a in c['args'][:2]:
                    l = hir.local(a)
                    ends.append(fresh.get(l[1], l[0]) if l else '?')
                et = 'N'
                if c['name'] != 'add_edge':
                    l = hir.local(c['args'][2])
                    if l and et_bound and l[1] == et_bound[1]:
                        et = 'OLD'
                        typed = True
                    else:
                        et = (hir.def_path(c['args'][2]) or '?').rsplit('::', 1)[-1]
                edges.append((ends[0], ends[1], et))
        phase = [hir.pp(c['args'][0]) for c in hir.calls(body) if c.get('k') == 'MethodCall' and c['name'] == 'mul_phase']
        # chain from v to b
        chain = []
        cur = 'v'
        used = set()
        for _ in range(4):
            nxt = [e for i, e in enumerate(edges) if i not in used and e[0] == cur]
            if not nxt:
                break
            e = nxt[0]
            used.add(edges.index(e))
            if isinstance(e[1], tuple):
                chain.append(e[1])
            cur = e[1] if not isinstance(e[1], tuple) else e[1]
            # continue from the fresh vertex: find edge whose first end equals this fresh tuple
            if isinstance(cur, tuple):
                pass
        out[v] = {'spiders_v_to_b': chain, 'removed': removed, 'edges': edges, 'scalar_phase': phase, 'old_edge_type_preserved': typed or not removed}
    return out, et_bound is not None


PAULI_REF = {'I': [], 'X': [('X', 1)], 'Z': [('Z', 1)], 'Y': [('Z', 1), ('X', 1)]}    # Y = i X Z: Z is applied first (next to the circuit), then X, times e^{i pi/2}


def _run_own(ck):
    facts = ck.facts
    ck.decided('D1 sampling draws each bit with a CONDITIONAL probability: the Bernoulli parameter combines two marginals (the current one and a loop-carried prefix probability or a second marginal) through a division',
               'D2 malformed queries are rejected, not panicked on: the length validation returning Err(StringWrongLen) dominates the first use of the string; both parsers map every other character to Err',
               'D3 what is printed: amplitude = Re(s * conj(s)); expectation = Re(scalar) of the doubled diagram; Pauli insertion table (I, X(pi), Z(pi), Y = Z(pi) then X(pi) with phase 1/2) preserving the type of the replaced boundary edge; all tasks go through decomp_graph whose two branches differ only in decompose_parallel vs decompose; dispatch tables')
    ck.not_decided('the printed numbers themselves (C05)', 'independence of the decomposition method as values', 'the distribution of samples')
    # ---- D1
    sk = SIM + 'sample'
    f = ck.fn(sk)
    ms = marginal_slices(f)
    if ms is None:
        ck.violation('R-DATAFLOW', sk + '/shape', ck.site(sk), 'anchor-missing: per-qubit loop with one decomp_graph call and one Bernoulli draw not found')
    else:
        base = ms['division'] and (ms['marginals_in_slice'] >= 2 or (ms['marginals_in_slice'] >= 1 and ms['loop_carried_prefix_probability']))
        ck.ob('R-DATAFLOW', sk + '/conditional-probability', base, ck.site(sk),
              'the Bernoulli parameter of bit k is built from a single marginal P(prefix, 1): that is the JOINT probability, not the conditional probability given the bits drawn before (%s)' % ms, sample=ms)
        ck.ob('R-DATAFLOW', sk + '/prefix-update', ms['conditional'] or not base, ck.site(sk),
              'the carried prefix probability must become the joint marginal after a 1 and (old prefix - joint) after a 0; found dependencies %s — a 0-branch that ignores the old prefix is only right for the first bit' % ms.get('prefix_update'))
    # ---- D2
    for key in (SIM + 'amplitude', SIM + 'expectation_value'):
        fk = ck.fn(key)
        v, u = validation_dominates(fk)
        ck.ob('R-BOUNDS-validate', key + '/validated-before-use', v is not None and u is not None and v[0] < u, ck.site(key), 'the string length is not validated (Err(StringWrongLen)) before the string is used to plug / index outputs', sample={'accepting_arms': v[1] if v else None})
        if v:
            acc = v[1]
            ck.ob('R-BOUNDS-validate', key + '/accepts-broadcast-and-exact-length', len(acc) == 2 and any('len() == qs' in a.replace('(', '').replace(')', '').replace('  ', ' ') or 'len() == qs' in a for a in acc), ck.site(key),
                  'accepted forms must be the single-character broadcast and the exact length: %s' % acc)
    for key, want in ((SIM + 'parse_bit_string', {'0': 'false', '1': 'true'}), (SIM + 'parse_pauli_string', {'I': 'I', 'X': 'X', 'Y': 'Y', 'Z': 'Z'})):
        r = parser_table(ck.fn(key))
        if r is None:
            ck.violation('R-TABLE-parse', key + '/shape', ck.site(key), 'anchor-missing')
            continue
        tbl, derr, upper = r
        got = {k: v.rsplit('::', 1)[-1] for k, v in tbl.items()}
        ck.ob('R-TABLE-parse', key, got == want and derr, ck.site(key), 'parser table %s (default Err: %s), expected %s with every other character an error' % (got, derr, want), sample={'table': got})
    # ---- D3
    af = ck.fn(SIM + 'amplitude')
    ok = False
    for n in hir.nodes(af['hir']):
        if n.get('k') == 'Let' and n['pat'].get('k') == 'Bind' and n['pat']['name'] == 'amp':
            i = hir.strip(n['init'])
            if i.get('k') == 'Binary' and i['op'] == 'Mul':
                l, r = hir.strip(i['l']), hir.strip(i['r'])
                ok = hir.local_name(l) == 'scalar' and r.get('k') == 'MethodCall' and r['name'] == 'conj' and hir.local_name(r['recv']) == 'scalar'
    tail = hir.stmts_of(af['hir'])[-1]
    okret = 'amp.complex_value().re' in hir.pp(tail)
    ck.ob('R-EFFECT', SIM + 'amplitude/probability', ok and okret, ck.site(SIM + 'amplitude'), 'the amplitude query must print Re(s * conj(s)) of the plugged diagram\'s scalar')
    pl = [c for c in hir.calls(af['hir']) if c.get('k') == 'MethodCall' and c['name'] in ('plug_inputs', 'plug_outputs')]
    ck.ob('R-EFFECT', SIM + 'amplitude/plugs', [c['name'] for c in pl] == ['plug_inputs', 'plug_outputs'] and 'Z0' in hir.pp(pl[0]['args'][0]) and 'Z1' in hir.pp(pl[1]['args'][0]) and 'Z0' in hir.pp(pl[1]['args'][0]), ck.site(SIM + 'amplitude'),
          'amplitude must plug |0..0> into the inputs and the requested bits (true -> Z1, false -> Z0) into the outputs')
    ef = ck.fn(SIM + 'expectation_value')
    r = pauli_arms(facts, ef)
    if r is None:
        ck.violation('R-TABLE-pauli', 'shape', ck.site(SIM + 'expectation_value'), 'anchor-missing: Pauli match')
    else:
        arms, has_et = r
        for v, d in arms.items():
            want = PAULI_REF[v]
            ck.ob('R-TABLE-pauli', 'expectation_value/%s/spiders' % v, d['spiders_v_to_b'] == want, ck.site(SIM + 'expectation_value'),
                  'Pauli %s inserts %s between the circuit and the boundary, reference %s' % (v, d['spiders_v_to_b'], want), sample={'pauli': v, 'inserted': str(d['spiders_v_to_b']), 'edges': str(d['edges'])})
            ck.ob('R-TABLE-pauli', 'expectation_value/%s/phase' % v, (d['scalar_phase'] != []) == (v == 'Y') and (v != 'Y' or '1, 2' in d['scalar_phase'][0] or '(1, 2)' in d['scalar_phase'][0]), ck.site(SIM + 'expectation_value'),
                  'only Y carries the phase e^{i pi/2} (Y = i X Z): %s has %s' % (v, d['scalar_phase']))
            if d['removed']:
                ck.ob('R-EDGE-replace', 'expectation_value/%s/edge-type-preserved' % v, d['old_edge_type_preserved'], ck.site(SIM + 'expectation_value'),
                      'Pauli %s replaces the boundary edge (v, b) by a path of plain edges and discards the type of the removed edge: when that edge is a Hadamard edge (an idle qubit after plugging |0>) the Hadamard is lost' % v)
    tailt = hir.pp(hir.stmts_of(ef['hir'])[-1])
    ck.ob('R-EFFECT', SIM + 'expectation_value/doubled', 'scalar.complex_value().re' in tailt and any(c.get('k') == 'MethodCall' and c['name'] == 'plug' and hir.local_name(c['args'][0]) == 'g_adj' for c in hir.calls(ef['hir'])), ck.site(SIM + 'expectation_value'),
          'expectation must be Re(scalar) of g ; P ; g-adjoint')
    # adjoint taken before the Paulis are inserted
    st = hir.stmts_of(ef['hir'])
    ia = [i for i, s in enumerate(st) if s.get('k') == 'Let' and s['pat'].get('k') == 'Bind' and s['pat']['name'] == 'g_adj']
    il = [i for i, s in enumerate(st) if s.get('k') == 'For']
    ck.ob('R-EFFECT', SIM + 'expectation_value/adjoint-before-paulis', bool(ia and il) and ia[0] < il[0], ck.site(SIM + 'expectation_value'), 'the adjoint copy must be taken before the Pauli spiders are inserted')
    dg = ck.fn(SIM + 'decomp_graph')
    ifs = [n for n in hir.nodes(dg['hir']) if n.get('k') == 'If']
    ok = False
    if len(ifs) == 1:
        a = [c['name'] for c in hir.calls(ifs[0]['then']) if c.get('k') == 'MethodCall']
        b = [c['name'] for c in hir.calls(ifs[0]['else']) if c.get('k') == 'MethodCall']
        ok = sorted(a) == ['decompose_parallel', 'scalar'] and sorted(b) == ['decompose', 'scalar']
    pre = [hir.callee(c) for c in hir.calls(dg['hir']) if (hir.callee(c) or '').startswith('simplify::')]
    ck.ob('R-SIB-parallel', SIM + 'decomp_graph', ok and pre == ['simplify::full_simp'], ck.site(SIM + 'decomp_graph'), 'decomp_graph must full_simp, set the target and then differ only in decompose_parallel vs decompose')
    for key in (SIM + 'sample', SIM + 'amplitude', SIM + 'expectation_value'):
        n = len(hir.calls_to(facts['fns'][key]['hir'], SIM + 'decomp_graph'))
        direct = [c for c in hir.calls(facts['fns'][key]['hir']) if c.get('k') == 'MethodCall' and c['name'] in ('decompose', 'decompose_parallel')]
        ck.ob('R-WHO', key + '/through-decomp_graph', n >= 1 and not direct, ck.site(key), 'every task must evaluate scalars through decomp_graph')
    tk = SIM + 'SimTask::run'
    tf = ck.fn(tk)
    tbl = []
    for p in paths.effect_paths(hir.stmts_of(tf['hir']), lambda n: n.get('k') == 'Call' and hir.callee(n) in (SIM + 'sample', SIM + 'amplitude', SIM + 'expectation_value')):
        flds = [hir.pp(c[2]).replace('self.', '') for c in p.conds if c[0] == 'pat']
        if p.events:
            tbl.append((flds[-1] if flds else None, [hir.callee(e).rsplit('::', 1)[1] for e in p.events if isinstance(e, dict)]))
    want = [('shots', ['sample']), ('bit_string', ['amplitude']), ('pauli_string', ['expectation_value'])]
    got = [(a, b) for a, b in tbl if b]
    # sample is called inside a closure (map): effect_paths does not enter closures, so look directly
    direct = {}
    for n in hir.nodes(tf['hir']):
        if n.get('k') == 'If' and hir.strip(n['cond']).get('k') == 'LetCond':
            fld = hir.pp(hir.strip(n['cond'])['init']).replace('self.', '').replace('&', '')
            called = sorted({hir.callee(c).rsplit('::', 1)[1] for c in hir.calls(n['then']) if hir.callee(c) in (SIM + 'sample', SIM + 'amplitude', SIM + 'expectation_value')})
            direct[fld] = called
    ck.ob('R-TABLE-config', tk, direct == {'shots': ['sample'], 'bit_string': ['amplitude'], 'pauli_string': ['expectation_value']}, ck.site(tk), 'task dispatch is %s' % direct, sample={'table': str(direct)})
    rk = SIM + 'SimArgs::run'
    rf = ck.fn(rk)
    ifs = [n for n in hir.nodes(rf['hir']) if n.get('k') == 'If' and hir.local_name(n['cond']) in ('cats', 'use_cats')]
    ok = False
    if ifs:
        a = 'BssWithCatsDriver' in hir.pp(ifs[0]['then']) and 'BssTOnlyDriver' not in hir.pp(ifs[0]['then'])
        b = 'BssTOnlyDriver' in hir.pp(ifs[0]['else']) and 'BssWithCatsDriver' not in hir.pp(ifs[0]['else'])
        ok = a and b
    ck.ob('R-TABLE-config', rk + '/driver', ok, ck.site(rk), '--cats must select BssWithCatsDriver, otherwise BssTOnlyDriver')
    bd = ck.fn(SIM + 'SimMethod::build_decomposer')
    ck.ob('R-TABLE-config', 'SimMethod::build_decomposer', any(c.get('k') == 'MethodCall' and c['name'] == 'with_full_simp' for c in hir.calls(bd['hir'])) and 'self.cats' in hir.pp(bd['hir']), ck.site(SIM + 'SimMethod::build_decomposer'),
          'the decomposer must use full simplification and report the cats flag')
    # positive controls
    fx = fixture()
    ck.control('R-DATAFLOW flags a joint-probability sampler', marginal_slices(fx['fns']['cli::sim::sample'])['conditional'] is False)


def run(ck, **kw):
    _run_own(ck)
    ck.include('C05', 'every printed number is the value the decomposer returns')
    ck.include('C11', 'the diagrams handed to the decomposer are built with plug_inputs / plug_output / plug / to_adjoint of graph.rs')
