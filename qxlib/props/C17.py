"""C17 — F2 matrices: reported row operations mirror the matrix's own; same row space; inverse
decision structure; row/col sibling agreement; Mul forwarders."""
from .. import minirust, hir, rops, rpair, paths
from ..controls import fixture

GAUSS = 'linalg::Mat2::gauss_helper'


def _param_ids(f):
    return {p['name']: p['id'] for p in f['params'] if p.get('k') == 'Bind'}


def _is_local(e, lid):
    l = hir.local(e)
    return bool(l and l[1] == lid)


# ---------------------------------------------------------------- D1 mirror

def d1_mirror(f):
    ids = _param_ids(f)
    sid, xid = ids.get('self'), ids.get('x')
    return rpair.mirror_pairs(f, 'row_add', lambda r: _is_local(r, sid), lambda r: _is_local(r, xid))


# ---------------------------------------------------------------- D2 who-may-write + a != b

def d2_writes(f, facts=None, depth=0):
    """mutations rooted at `self` other than being the receiver of row_add (private helper methods of Mat2 called on self are followed)"""
    sid = _param_ids(f).get('self')
    pm = hir.parent_map(f['hir'])
    bad = []
    for kind, pl, node in hir.mutations(f['hir']):
        p = hir.place(pl)
        if not p or p[0] != sid:
            continue
        if kind == 'autoref-mut' and not p[2]:
            par = pm.get(id(node))
            if par and par[0].get('k') == 'MethodCall' and par[1] == 'recv':
                if par[0]['name'] == 'row_add':
                    continue
                callee = par[0].get('callee') or ''
                if facts is not None and callee in facts['fns'] and callee.startswith('linalg::Mat2::') and depth < 2:
                    bad += [('in helper %s: %s' % (callee.rsplit('::', 1)[1], k2), n2) for k2, n2 in d2_writes(facts['fns'][callee], facts, depth + 1)]
                    continue
        bad.append((kind, node))
    return bad


def _single_step_counter(loop, lid):
    """`while` loop whose body starts with an unconditional `x -= 1` / `x += 1` and never writes x elsewhere"""
    st = hir.stmts_of(loop['body'])
    if not st:
        return False
    first = hir.strip(st[0])
    if not (first.get('k') == 'AssignOp' and first['op'] in ('SubAssign', 'AddAssign') and _is_local(first['l'], lid) and hir.lit_int(first['r']) == 1):
        return False
    writes = [n for kind, pl, n in hir.mutations(loop['body']) if hir.place(pl) and hir.place(pl)[0] == lid]
    return len(writes) == 1


def neq_justification(f, call, pm):
    """why the two arguments of row_add(a, b) differ; returns (kind or None, detail)"""
    a, b = call['args']
    la, lb = hir.local(a), hir.local(b)
    anc = hir.ancestors(call, pm)
    # 1. explicit guard a != b dominating the call
    for p, slot in anc:
        if p.get('k') == 'If' and slot == 'then':
            c = hir.strip(p['cond'])
            if c.get('k') == 'Binary' and c['op'] == 'Ne' and ((hir.same_expr(c['l'], a) and hir.same_expr(c['r'], b)) or (hir.same_expr(c['l'], b) and hir.same_expr(c['r'], a))):
                return 'guard', hir.pp(c)
    # 2. one argument is the variable of an enclosing `for` over a range that excludes the other
    for p, slot in anc:
        if p.get('k') == 'For' and slot == 'body' and p['pat'].get('k') == 'Bind':
            vid = p['pat']['id']
            rb = hir.range_bounds(p['iter'])
            if not rb:
                continue
            lo, hi, incl = rb
            for var, other in ((a, b), (b, a)):
                if _is_local(var, vid):
                    # other must not be written inside the loop before the call: require it is not mutated in the loop body
                    ol = hir.local(other)
                    if not ol:
                        continue
                    if any(hir.place(pl) and hir.place(pl)[0] == ol[1] for _k, pl, _n in hir.mutations(p['body'])):
                        continue
                    lo_s = hir.strip(lo) if lo is not None else None
                    if lo_s is not None and lo_s.get('k') == 'Binary' and lo_s['op'] == 'Add' and hir.same_expr(lo_s['l'], other) and (hir.lit_int(lo_s['r']) or 0) >= 1:
                        return 'range-above', 'for %s in %s..' % (hir.pp(var), hir.pp(lo))
                    if hi is not None and not incl and hir.same_expr(hi, other):
                        return 'range-below', 'for %s in ..%s' % (hir.pp(var), hir.pp(hi))
    # 3. chunk-map idiom: a comes from `if let Some(&a) = M.get(..)`, and the only insert into M in the loop
    #    stores b in the else branch of that very `if let`, b being a strictly monotone loop counter
    for p, slot in anc:
        if p.get('k') == 'If' and slot == 'then':
            c = hir.strip(p['cond'])
            if c.get('k') != 'LetCond':
                continue
            bound = [i for _n, i in hir.bindings(c['pat'])]
            init = hir.strip(c['init'])
            if not (la and la[1] in bound and init.get('k') == 'MethodCall' and init['name'] == 'get'):
                continue
            mp = hir.local(init['recv'])
            if not mp or not lb or not p.get('else'):
                continue
            # enclosing loop whose counter is b
            loop = None
            for q, qslot in anc:
                if q.get('k') == 'For' and qslot == 'body' and q['pat'].get('k') == 'Bind' and q['pat']['id'] == lb[1] and hir.range_bounds(q['iter']):
                    loop = q
                    break
                if q.get('k') == 'While' and qslot == 'body' and _single_step_counter(q, lb[1]):
                    loop = q
                    break
            if loop is None:
                continue
            inserts = [m for m in hir.calls(loop['body']) if m.get('k') == 'MethodCall' and m['name'] in ('insert', 'entry', 'extend', 'get_mut', 'values_mut', 'iter_mut', 'retain') and _is_local(m['recv'], mp[1])]
            else_inserts = [m for m in hir.calls(p['else']) if m.get('k') == 'MethodCall' and m['name'] == 'insert' and _is_local(m['recv'], mp[1])]
            if len(inserts) == 1 and len(else_inserts) == 1 and inserts[0] is else_inserts[0] and _is_local(inserts[0]['args'][1], lb[1]):
                # the map must be created empty inside the function before this loop (fresh per block)
                return 'chunk-map', '%s from %s.get(..); only insert stores the loop counter %s in the else branch' % (la[0], mp[0], lb[0])
    return None, 'no recognised justification for %s != %s' % (hir.pp(a), hir.pp(b))


# ---------------------------------------------------------------- D3 inverse, row/col, Mul

def d3_inverse(f):
    """paths returning Some(..): must be under the square test and the full-rank test; the value is the proxy of a full reduction of a clone.
    Returns ([(ok | None, path, why)], n_some)."""
    res = []
    ps = paths.return_paths(f)
    somes = 0
    for p in ps:
        r = hir.strip(p.ret) if p.ret else None
        if r is None or r.get('k') != 'Call' or hir.ctor_call(r, 'Some') is None:
            continue
        somes += 1
        val = r['args'][0]
        env = p.env

        def init_of(e, depth=0):
            e = hir.strip(e)
            l = hir.local(e)
            if l and l[1] in env and isinstance(env[l[1]], dict) and depth < 4:
                return init_of(env[l[1]], depth + 1)
            return e

        def kind(e):
            e0 = init_of(e)
            if e0.get('k') == 'MethodCall' and e0['name'] in ('num_rows', 'num_cols') and hir.local_name(e0['recv']) == 'self':
                return e0['name']
            if e0.get('k') == 'MethodCall' and (hir.callee(e0) or '') == GAUSS:
                return 'rank'
            return None
        sq = None
        rk = None
        unknown = []
        gauss = None
        for c in p.conds:
            if c[0] != 'cond':
                if c[0] in ('pat', 'nopat'):
                    unknown.append(hir.pp(c[2])[:30])
                continue
            e, pol = hir.strip(c[1]), c[2]
            if e.get('k') == 'Binary' and e['op'] in ('Eq', 'Ne', 'Lt', 'Le', 'Gt', 'Ge'):
                kl, kr = kind(e['l']), kind(e['r'])
                ks = {kl, kr}
                if ks == {'num_rows', 'num_cols'}:
                    sq = (e['op'] == 'Eq') == pol if e['op'] in ('Eq', 'Ne') else sq
                    continue
                if 'rank' in ks and (ks & {'num_rows', 'num_cols'}):
                    op = e['op'] if kl == 'rank' else {'Lt': 'Gt', 'Le': 'Ge', 'Gt': 'Lt', 'Ge': 'Le', 'Eq': 'Eq', 'Ne': 'Ne'}[e['op']]
                    full = (op in ('Ge', 'Eq') and pol) or (op in ('Lt', 'Ne') and not pol)
                    rk = full
                    gauss = init_of(e['l'] if kl == 'rank' else e['r'])
                    continue
            unknown.append(hir.pp(e)[:30])
        prov = None
        if gauss is not None:
            full = hir.lit_bool(gauss['args'][0])
            proxy = hir.local(gauss['args'][2])
            vl = hir.local(val)
            recv_init = init_of(gauss['recv'])
            recv_is_clone = hir.local_name(recv_init) == 'self' or (recv_init.get('k') == 'MethodCall' and recv_init['name'] == 'clone')
            vinit = init_of(val)
            is_id = vinit.get('k') == 'Call' and (hir.callee(vinit) or '') == 'linalg::Mat2::id'
            prov = bool(full and proxy and vl and proxy[1] == vl[1] and recv_is_clone and is_id)
        if sq and rk and prov:
            res.append((True, p, ''))
        elif unknown and (sq is None or rk is None):
            res.append((None, p, 'a path returning Some(..) is conditioned on tests the rule does not understand (%s)' % ', '.join(unknown[:3])))
        else:
            res.append((False, p, 'Some(..) is returned without %s' % ('the square test' if not sq else 'rank == rows of a full reduction of a clone whose row operations were applied to the identity')))
    return res, somes


def addop_descriptor(f):
    """(target param, source param, position of the loop index, bound method) of row_add/col_add"""
    ids = {p['id']: i for i, p in enumerate(f['params']) if p.get('k') == 'Bind'}
    fors = hir.find(f['hir'], 'For')
    if len(fors) != 1 or fors[0]['pat'].get('k') != 'Bind':
        return None
    lp = fors[0]
    rb = hir.range_bounds(lp['iter'])
    if not rb or hir.lit_int(rb[0]) != 0 or rb[2]:
        return None
    hi = hir.strip(rb[1])
    bound = hi['name'] if hi.get('k') == 'MethodCall' and hir.local_name(hi['recv']) == 'self' else None
    ops = [n for n in hir.nodes(lp['body']) if n.get('k') in ('AssignOp', 'Assign')]
    if len(ops) != 1 or ops[0]['k'] != 'AssignOp' or ops[0]['op'] != 'BitXorAssign':
        return None

    def idx(e):
        e = hir.strip(e)
        if e.get('k') == 'Index' and hir.strip(e['e']).get('k') == 'Index':
            inner = hir.strip(e['e'])
            base = hir.strip(inner['e'])
            if base.get('k') == 'Field' and base['name'] == 'd' and hir.local_name(base['e']) == 'self':
                return inner['i'], e['i']
        return None
    l, r = idx(ops[0]['l']), idx(ops[0]['r'])
    if not l or not r:
        return None

    def cls(e):
        ll = hir.local(e)
        if not ll:
            return '?'
        if ll[1] == lp['pat']['id']:
            return 'i'
        return 'p%d' % ids[ll[1]] if ll[1] in ids else '?'
    return (cls(l[0]), cls(l[1])), (cls(r[0]), cls(r[1])), bound


ADD_REF = {
    '<linalg::Mat2 as linalg::RowOps>::row_add': (('p2', 'i'), ('p1', 'i'), 'num_cols'),   # row r1 ^= row r0, over all columns
    '<linalg::Mat2 as linalg::ColOps>::col_add': (('i', 'p2'), ('i', 'p1'), 'num_rows'),   # col c1 ^= col c0, over all rows
}


def matmul_descriptor(f):
    """&Mat2 * &Mat2: build(self.num_rows(), rhs.num_cols(), |x,y| XOR_i self.d[x][i] & rhs.d[i][y]), i < self.num_cols()"""
    pid = {p['id']: n for p, n in zip(f['params'], ('self', 'rhs')) if p.get('k') == 'Bind'}
    builds = hir.calls_to(f['hir'], 'linalg::Mat2::build')
    if len(builds) != 1:
        return None
    b = builds[0]
    dims = []
    for a in b['args'][:2]:
        a = hir.strip(a)
        l = hir.local(a['recv']) if a.get('k') == 'MethodCall' else None
        dims.append((pid.get(l[1]) if l else None, a.get('name')))
    cl = hir.strip(b['args'][2])
    if cl.get('k') != 'Closure' or len(cl['params']) != 2:
        return None
    cp = [p['id'] for p in cl['params'] if p.get('k') == 'Bind']
    fors = hir.find(cl['body'], 'For')
    if len(fors) != 1 or len(cp) != 2:
        return None
    lp = fors[0]
    acc = [n for n in hir.nodes(lp['body']) if n.get('k') == 'AssignOp']
    if len(acc) != 1 or acc[0]['op'] != 'BitXorAssign':
        return None
    rhs = hir.strip(acc[0]['r'])
    if not (rhs.get('k') == 'Binary' and rhs['op'] == 'BitAnd'):
        return None

    def idx(e):
        e = hir.strip(e)
        if e.get('k') == 'Index' and hir.strip(e['e']).get('k') == 'Index':
            inner = hir.strip(e['e'])
            base = hir.strip(inner['e'])
            if base.get('k') == 'Field' and base['name'] == 'd':
                root = hir.local(base['e'])
                return pid.get(root[1]) if root else None, inner['i'], e['i']
        return None

    def cls(e):
        l = hir.local(e)
        if not l:
            return '?'
        if l[1] == lp['pat']['id']:
            return 'i'
        if l[1] == cp[0]:
            return 'x'
        if l[1] == cp[1]:
            return 'y'
        return '?'
    fs = []
    for side in (rhs['l'], rhs['r']):
        t = idx(side)
        if not t:
            return None
        fs.append((t[0], cls(t[1]), cls(t[2])))
    rb = hir.range_bounds(lp['iter'])
    hi = hir.strip(rb[1]) if rb else None
    bound = None
    if hi is not None:
        l = hir.local(hi)
        if l and l[1] in {}:
            pass
        # k = self.num_cols() bound through a let
        bound = hir.pp(hi)
    return tuple(dims), frozenset(fs)


MATMUL_REF = ((('self', 'num_rows'), ('rhs', 'num_cols')), frozenset([('self', 'x', 'i'), ('rhs', 'i', 'y')]))


# ---------------------------------------------------------------- D5: block tiling, pivot bookkeeping, elimination ranges (gauss_helper)

def _lets_in(stmts):
    return {s['pat']['name']: s for s in stmts if s.get('k') == 'Let' and s['pat'].get('k') == 'Bind' and s.get('init') is not None}


def block_tiling(f):
    """for every cols in 1..=24 and blocksize in 1..=cols the column ranges [i0, i1) of the blocks sec = 0..num_blocks tile [0, cols) in order.
    Decided by interpreting `num_blocks`, `i0`, `i1` on integers. Returns [(loop-name, ok, msg, n_evaluated)]"""
    from .. import intinterp as I
    ps = _param_ids(f)
    top = _lets_in(hir.stmts_of(f['hir']))
    if 'num_blocks' not in top or 'cols' not in top or 'blocksize' not in ps:
        return [('shape', None, 'gauss_helper no longer computes `num_blocks` from `cols` and `blocksize` at its top level (not-established-by-recognised-idiom)', 0)]
    cols_id, nb_let = top['cols']['pat']['id'], top['num_blocks']
    loops = []
    for n in hir.nodes(f['hir']):
        if n.get('k') in ('For', 'While'):
            ls = _lets_in(hir.stmts_of(n['body']))
            if 'i0' in ls and 'i1' in ls:
                sec = None
                if n.get('k') == 'For' and hir.bindings(n['pat']):
                    sec = hir.bindings(n['pat'])[0][1]
                else:
                    for x in hir.nodes(ls['i0']['init']):
                        l = hir.local(x) if x.get('k') == 'Path' else None
                        if l and l[1] not in (ps.get('blocksize'), cols_id):
                            sec = l[1]
                loops.append((n, ls, sec))
    res = []
    for n, ls, sec in loops:
        name = 'forward' if n.get('k') == 'For' else 'backward'
        cnt = 0
        bad = None
        try:
            for cols in range(1, 25):
                for bs in range(1, cols + 1):
                    env = {cols_id: cols, ps['blocksize']: bs}
                    nb = I.ev(nb_let['init'], env)
                    # the values `sec` takes: For: the range; While: counts down from num_blocks to 0 (checked structurally below)
                    secs = list(range(nb))
                    if n.get('k') == 'For':
                        rb = hir.range_bounds(n['iter'])
                        lo, hi = I.ev(rb[0], dict(env, **{nb_let['pat']['id']: nb})), I.ev(rb[1], dict(env, **{nb_let['pat']['id']: nb}))
                        secs = list(range(lo, hi + (1 if rb[2] else 0)))
                    rngs = []
                    for s_ in secs:
                        e2 = dict(env, **{sec: s_})
                        i0 = I.ev(ls['i0']['init'], e2)
                        i1 = I.ev(ls['i1']['init'], dict(e2, **{ls['i0']['pat']['id']: i0}))
                        rngs.append((i0, i1))
                        cnt += 1
                    flat = [c for a, b in sorted(rngs) for c in range(a, b)]
                    if flat != list(range(cols)) or any(a >= b for a, b in rngs):
                        bad = 'for %d columns and block size %d the blocks are %s: they do not tile 0..%d (columns %s are never examined / examined twice)' % (
                            cols, bs, sorted(rngs), cols, sorted(set(range(cols)) ^ set(flat)) or 'overlap')
                        raise StopIteration
        except StopIteration:
            pass
        except I.NoEval as ex:
            res.append((name, None, 'block arithmetic not evaluable (%s) (not-established-by-recognised-idiom)' % ex, cnt))
            continue
        if n.get('k') == 'While' and bad is None:
            # while sec != 0 { sec -= 1; .. } with  let mut sec = num_blocks
            c = hir.strip(n['cond'])
            st = hir.stmts_of(n['body'])
            first = hir.strip(st[0]) if st else {}
            init_ok = any(x.get('k') == 'Let' and x['pat'].get('k') == 'Bind' and x['pat']['id'] == sec and hir.local(x['init']) and hir.local(x['init'])[1] == nb_let['pat']['id'] for x in hir.nodes(f['hir']) if x.get('init') is not None)
            down = (c.get('k') == 'Binary' and c['op'] in ('Ne', 'Gt') and hir.local(c['l']) and hir.local(c['l'])[1] == sec and hir.lit_int(hir.strip(c['r'])) == 0
                    and first.get('k') == 'AssignOp' and first['op'] == 'SubAssign' and hir.local(first['l']) and hir.local(first['l'])[1] == sec and hir.lit_int(hir.strip(first['r'])) == 1)
            others = [x for x in hir.nodes(n['body']) if x.get('k') in ('Assign', 'AssignOp') and hir.local(x['l']) and hir.local(x['l'])[1] == sec and x is not first]
            if not (init_ok and down and not others):
                bad = 'the backward phase does not visit the blocks num_blocks-1 down to 0 (`let mut sec = num_blocks; while sec != 0 { sec -= 1; ..}`)'
        res.append((name, bad is None, bad or '', cnt))
    if len(res) < 2:
        res.append(('both-phases', None, 'expected a forward and a backward loop over the column blocks, found %d' % len(res), 0))
    return res


def pivot_bookkeeping(f):
    """forward phase: where a pivot is found, its column is recorded, the pivot row advances by one and the search for this column stops — all three, once, in the same branch"""
    res = []
    for n in hir.nodes(f['hir']):
        if n.get('k') == 'MethodCall' and n['name'] == 'push' and hir.local_name(n['recv']) == 'pivot_cols':
            pm = hir.parent_map(f['hir'])
            blk = None
            for par, slot in hir.ancestors(n, pm):
                if par.get('k') == 'Block':
                    blk = par
                    break
            st = [hir.strip(x) for x in hir.stmts_of(blk)]
            inc = [x for x in st if x.get('k') == 'AssignOp' and x['op'] == 'AddAssign' and hir.local_name(x['l']) == 'pivot_row' and hir.lit_int(hir.strip(x['r'])) == 1]
            brk = [x for x in st if x.get('k') == 'Break']
            # the pushed column is the column loop variable tested in the dominating `self.d[r0][p] != 0`
            col = hir.local(n['args'][0])
            tested = False
            for c in paths.dominating_conds(n, pm):
                if c[0] == 'cond' and c[2]:
                    e = hir.strip(c[1])
                    if e.get('k') == 'Binary' and e['op'] == 'Ne' and hir.lit_int(hir.strip(e['r'])) == 0:
                        l = hir.strip(e['l'])
                        if l.get('k') == 'Index' and hir.local(l['i']) and col and hir.local(l['i'])[1] == col[1]:
                            tested = True
            res.append((len(inc) == 1 and len(brk) == 1 and tested,
                        'where a pivot is found: %d increment(s) of pivot_row, %d break(s), pivot column %s the tested column — a column must contribute at most one pivot and exactly one rank' % (len(inc), len(brk), 'is' if tested else 'is NOT')))
    return res


def elimination_ranges(f):
    """every elimination loop covers all the rows it has to clear: forward (pivot_row+1)..rows, backward 0..pivot_row, pivot search / chunk scan pivot_row..rows"""
    ps = _param_ids(f)
    top = _lets_in(hir.stmts_of(f['hir']))
    rows_id = top['rows']['pat']['id'] if 'rows' in top else None
    res = []
    pm = hir.parent_map(f['hir'])
    for n in hir.find(f['hir'], 'For'):
        rb = hir.range_bounds(n['iter'])
        if not rb or rb[1] is None:
            continue
        var = hir.bindings(n['pat'])
        if not var:
            continue
        adds = [c for c in hir.calls(n['body'], into_closures=False) if c.get('k') == 'MethodCall' and c['name'] == 'row_add' and _is_local(c['recv'], ps.get('self'))
                and not any(x.get('k') == 'For' and x is not n and any(y is c for y in hir.nodes(x)) for x in hir.find(n['body'], 'For'))]
        lo, hi = hir.strip(rb[0]), hir.strip(rb[1])

        def is_pr(e, off):
            e = hir.strip(e)
            if off == 0:
                return hir.local_name(e) == 'pivot_row'
            return e.get('k') == 'Binary' and e['op'] == 'Add' and hir.local_name(e['l']) == 'pivot_row' and hir.lit_int(hir.strip(e['r'])) == off
        is_rows = bool(hir.local(hi) and hir.local(hi)[1] == rows_id) or (hi.get('k') == 'MethodCall' and hi['name'] == 'num_rows')
        for c in adds:
            a, b = hir.strip(c['args'][0]), hir.strip(c['args'][1])
            if hir.local(b) and hir.local(b)[1] == var[0][1] and hir.local_name(a) == 'pivot_row':
                backward = any(cd[0] == 'cond' and cd[2] and hir.local_name(cd[1]) == 'full_reduce' for cd in paths.dominating_conds(n, pm))
                if backward:
                    ok = hir.lit_int(lo) == 0 and is_pr(hi, 0) and not rb[2]
                    res.append(('backward-elimination', ok, 'the backward elimination must clear the pivot column in all rows above the pivot (`0..pivot_row`), it runs over `%s`' % hir.pp(n['iter'])[:50]))
                else:
                    ok = is_pr(lo, 1) and is_rows and not rb[2]
                    res.append(('forward-elimination', ok, 'the forward elimination must clear the pivot column in all rows below the pivot (`pivot_row + 1..rows`), it runs over `%s`' % hir.pp(n['iter'])[:50]))
        # pivot search: the loop whose body tests self.d[var][p] != 0 and contains the push
        if any(c.get('k') == 'MethodCall' and c['name'] == 'push' and hir.local_name(c['recv']) == 'pivot_cols' for c in hir.calls(n['body'])) and hir.local_name(lo) == 'pivot_row':
            res.append(('pivot-search', is_pr(lo, 0) and is_rows and not rb[2], 'the pivot search must look at every row from the current pivot row down (`pivot_row..rows`), it runs over `%s`' % hir.pp(n['iter'])[:50]))
        def innermost_for(c):
            for par, _slot in hir.ancestors(c, pm):
                if par.get('k') in ('For', 'While', 'Loop'):
                    return par
            return None
        if any(c.get('k') == 'MethodCall' and c['name'] == 'insert' and hir.local_name(c['recv']) == 'chunks' and innermost_for(c) is n for c in hir.calls(n['body'])):
            res.append(('chunk-scan', is_pr(lo, 0) and is_rows and not rb[2], 'the duplicate-chunk scan of the forward phase must cover `pivot_row..rows`, it runs over `%s`' % hir.pp(n['iter'])[:50]))
    return res


# ---------------------------------------------------------------- D6: nullspace data flow, transpose / stack / constructor descriptors

def nullspace_flow(f):
    res = []
    fors = hir.find(f['hir'], 'For')
    # the loop over the free variables: creates a zero row vector, sets entry free_var, back-substitutes, pushes
    outer = None
    for n in fors:
        if any(c.get('k') == 'MethodCall' and c['name'] == 'push' and hir.local_name(c['recv']) == 'basis' for c in hir.calls(n['body'], into_closures=False)):
            outer = n
            break
    if outer is None:
        return [('shape', None, 'the loop that builds one basis vector per free variable was not found (not-established-by-recognised-idiom)')]
    fv = hir.bindings(outer['pat'])[0][1]
    it = hir.strip(outer['iter'])
    while it.get('k') == 'MethodCall' and it['name'] in ('iter', 'into_iter', 'copied', 'cloned'):
        it = hir.strip(it['recv'])
    res.append(('one-vector-per-free-variable', hir.local_name(it) == 'free_vars' and not any(x.get('k') in ('Continue', 'Break', 'Ret') and x.get('target') in (None, outer.get('id')) for x in hir.nodes(outer['body'], into_closures=False) if x.get('k') in ('Break', 'Ret')),
                'a basis vector must be produced for every free variable (loop over `free_vars`, no early exit)'))
    assigns = [a for a in hir.nodes(outer['body']) if a.get('k') == 'Assign' and hir.lit_int(hir.strip(a['r'])) == 1]
    unit = [a for a in assigns if hir.strip(a['l']).get('k') == 'Index' and hir.local(hir.strip(a['l'])['i']) and hir.local(hir.strip(a['l'])['i'])[1] == fv]
    res.append(('unit-at-free-variable', len(unit) == 1, 'each basis vector must have a 1 at its own free variable'))
    inner = [n for n in hir.find(outer['body'], 'For')]
    ok = False
    msg = 'back substitution not recognised'
    if len(inner) == 1 and inner[0]['pat'].get('k') == 'Tuple' and len(inner[0]['pat']['sub']) == 2:
        rowv = hir.bindings(inner[0]['pat']['sub'][0])
        pcv = hir.bindings(inner[0]['pat']['sub'][1])
        it2 = hir.strip(inner[0]['iter'])
        names = []
        while it2.get('k') == 'MethodCall':
            names.append(it2['name'])
            it2 = hir.strip(it2['recv'])
        src_ok = hir.local_name(it2) == 'pivot_cols' and 'enumerate' in names
        sets = [a for a in hir.nodes(inner[0]['body']) if a.get('k') == 'Assign' and hir.lit_int(hir.strip(a['r'])) == 1]
        tgt_ok = len(sets) == 1 and hir.strip(sets[0]['l']).get('k') == 'Index' and pcv and hir.local(hir.strip(sets[0]['l'])['i']) and hir.local(hir.strip(sets[0]['l'])['i'])[1] == pcv[0][1]
        test_ok = False
        if sets:
            pm = hir.parent_map(inner[0]['body'])
            for c in paths.dominating_conds(sets[0], pm):
                if c[0] == 'cond' and c[2]:
                    e = hir.strip(c[1])
                    if e.get('k') == 'Binary' and e['op'] in ('Eq', 'Ne'):
                        l = hir.strip(e['l'])
                        want = 1 if e['op'] == 'Eq' else 0
                        if l.get('k') == 'Index' and hir.lit_int(hir.strip(e['r'])) == want:
                            rr = hir.strip(l['e'])
                            if rr.get('k') == 'Index' and hir.local(rr['i']) and rowv and hir.local(rr['i'])[1] == rowv[0][1] and hir.local(l['i']) and hir.local(l['i'])[1] == fv and hir.local_name(rr['e']) == 'mat':
                                test_ok = True
        ok = src_ok and tgt_ok and test_ok
        msg = 'back substitution must set entry `pivot_col` of the vector exactly when the reduced matrix has a 1 at (row of that pivot, free variable): source pivot_cols.enumerate %s, target column %s, tested entry mat[row][free_var] %s' % (
            'ok' if src_ok else 'WRONG', 'ok' if tgt_ok else 'WRONG', 'ok' if test_ok else 'WRONG')
    res.append(('back-substitution', ok, msg))
    # the reduced matrix is the full reduction of a clone
    g = [c for c in hir.calls(f['hir']) if c.get('k') == 'MethodCall' and c['name'] in ('gauss', 'gauss_x', 'gauss_helper')]
    full = len(g) == 1 and hir.lit_bool(hir.strip(g[0]['args'][0])) is True and hir.local_name(g[0]['recv']) == 'mat'
    res.append(('fully-reduced-clone', full, 'the null space must be read off the FULLY reduced form (gauss(true)) of a clone'))
    return res


def shape_descriptors(facts):
    """[(key, ok, msg)] for transpose / vstack / hstack / id / unit_vector / zeros / ones / num_rows / num_cols / gauss / gauss_x / rank"""
    F = facts['fns']
    res = []

    def build_call(f):
        cs = hir.calls_to(f['hir'], 'linalg::Mat2::build')
        return cs[0] if len(cs) == 1 else None

    def closure_of(c):
        cl = hir.strip(c['args'][2])
        return cl if cl.get('k') == 'Closure' else None
    # transpose: build(num_cols, num_rows, |i, j| self[j][i] == 1)
    f = F.get('linalg::Mat2::transpose')
    c = build_call(f) if f else None
    ok = False
    if c is not None and closure_of(c):
        dims = [hir.strip(a)['name'] if hir.strip(a).get('k') == 'MethodCall' else '?' for a in c['args'][:2]]
        cl = closure_of(c)
        ids = [i for p2 in cl['params'] for _n, i in hir.bindings(p2)]
        b = hir.strip(cl['body'])
        swapped = False
        if b.get('k') == 'Binary' and b['op'] in ('Eq', 'Ne') and len(ids) == 2:
            l = hir.strip(b['l'])
            want = 1 if b['op'] == 'Eq' else 0
            if l.get('k') == 'Index' and hir.strip(l['e']).get('k') == 'Index' and hir.lit_int(hir.strip(b['r'])) == want:
                outer_i, inner_i = hir.local(hir.strip(l['e'])['i']), hir.local(l['i'])
                swapped = bool(outer_i and inner_i and outer_i[1] == ids[1] and inner_i[1] == ids[0])
        ok = dims == ['num_cols', 'num_rows'] and swapped
    res.append(('linalg::Mat2::transpose', ok, 'transpose must be build(num_cols, num_rows, |i, j| self[j][i] == 1): dimensions and indices both exchanged'))
    # constructors
    for name, dims_want, body_want in (('id', ('dim', 'dim'), 'eq-params'), ('unit_vector', ('dim', 1), 'eq-first-i'), ('zeros', ('rows', 'cols'), False), ('ones', ('rows', 'cols'), True)):
        f = F.get('linalg::Mat2::' + name)
        c = build_call(f) if f else None
        ok = False
        if c is not None and closure_of(c):
            dims = tuple(hir.local_name(a) if hir.local(a) else hir.lit_int(hir.strip(a)) for a in c['args'][:2])
            cl = closure_of(c)
            ids = [i for p2 in cl['params'] for _n, i in hir.bindings(p2)]
            b = hir.strip(cl['body'])
            if body_want in (True, False):
                bok = hir.lit_bool(b) is body_want
            elif body_want == 'eq-params':
                bok = b.get('k') == 'Binary' and b['op'] == 'Eq' and len(ids) == 2 and {hir.local(b['l'])[1] if hir.local(b['l']) else None, hir.local(b['r'])[1] if hir.local(b['r']) else None} == set(ids)
            else:
                ii = [p2['id'] for p2 in f['params'] if p2.get('name') == 'i']
                bok = b.get('k') == 'Binary' and b['op'] == 'Eq' and bool(ids) and bool(ii) and {hir.local(b['l'])[1] if hir.local(b['l']) else None, hir.local(b['r'])[1] if hir.local(b['r']) else None} == {ids[0], ii[0]}
            ok = dims == dims_want and bool(bok)
        res.append(('linalg::Mat2::' + name, ok, '%s is not build(%s, %s, <%s>)' % (name, dims_want[0], dims_want[1], body_want)))
    # num_rows / num_cols
    f = F.get('linalg::Mat2::num_rows')
    st = hir.stmts_of(f['hir']) if f else []
    e = hir.strip(st[-1]) if st else {}
    res.append(('linalg::Mat2::num_rows', e.get('k') == 'MethodCall' and e['name'] == 'len' and hir.strip(e['recv']).get('k') == 'Field', 'num_rows must be the number of stored rows'))
    f = F.get('linalg::Mat2::num_cols')
    lens = [c for c in hir.calls(f['hir']) if c.get('k') == 'MethodCall' and c['name'] == 'len'] if f else []
    ok = any(hir.strip(c['recv']).get('k') == 'Index' and hir.lit_int(hir.strip(hir.strip(c['recv'])['i'])) == 0 for c in lens)
    res.append(('linalg::Mat2::num_cols', ok, 'num_cols must be the length of a stored row (0 for the empty matrix)'))
    # vstack / hstack: the asserted dimension, and which side comes first
    for name, dim in (('vstack', 'num_cols'), ('hstack', 'num_rows')):
        f = F.get('linalg::Mat2::' + name)
        ok = False
        if f:
            dims = [c['name'] for c in hir.calls(f['hir']) if c.get('k') == 'MethodCall' and c['name'] in ('num_rows', 'num_cols')]
            asserted = dims[:2] == [dim, dim]
            if name == 'vstack':
                # result starts as self.d.clone(); other's rows are pushed after
                init = [n for n in hir.nodes(f['hir']) if n.get('k') == 'Let' and n.get('init') is not None and 'self.d' in hir.pp(n['init']).replace(' ', '')]
                fors = hir.find(f['hir'], 'For')
                src = hir.pp(fors[0]['iter']) if fors else ''
                ok = asserted and bool(init) and 'other' in src and any(c.get('k') == 'MethodCall' and c['name'] in ('push', 'extend') for c in hir.calls(f['hir']))
            else:
                fors = hir.find(f['hir'], 'For')
                ok = asserted and len(fors) == 1 and 'other' in hir.pp(fors[0]['iter']) and 'enumerate' in hir.pp(fors[0]['iter'])
                if ok:
                    ext = [c for c in hir.calls(fors[0]['body']) if c.get('k') == 'MethodCall' and c['name'] in ('extend', 'extend_from_slice', 'append')]
                    iv = hir.bindings(fors[0]['pat']['sub'][0]) if fors[0]['pat'].get('k') == 'Tuple' else []
                    ok = len(ext) == 1 and bool(iv) and hir.strip(ext[0]['recv']).get('k') == 'Index' and hir.local(hir.strip(ext[0]['recv'])['i']) and hir.local(hir.strip(ext[0]['recv'])['i'])[1] == iv[0][1]
        res.append(('linalg::Mat2::' + name, ok, '%s must assert equal %s and append the other matrix %s' % (name, dim, 'below' if name == 'vstack' else 'row by row to the right')))
    # forwarders: gauss(full_reduce) / gauss_x(full_reduce, blocksize, x) / rank() on a clone with full_reduce = false
    for name, want in (('gauss', ['full_reduce', 3]), ('gauss_x', ['full_reduce', 'blocksize', 'x'])):
        f = F.get('linalg::Mat2::' + name)
        cs = hir.calls_to(f['hir'], GAUSS) if f else []
        got = [hir.local_name(a) if hir.local(hir.strip(a)) else hir.lit_int(hir.strip(a)) for a in cs[0]['args'][:len(want)]] if len(cs) == 1 else None
        if got is not None and len(got) == len(want) and isinstance(got[1], int) and got[1] >= 1:
            got[1] = want[1]        # the block size only shapes the sequence of row operations, any positive value is correct
        res.append(('linalg::Mat2::' + name, got == want and hir.local_name(cs[0]['recv']) == 'self', '%s must forward (%s) to gauss_helper on self, it passes %s' % (name, ', '.join(map(str, want)), got)))
    f = F.get('linalg::Mat2::rank')
    cs = [c for c in hir.calls(f['hir']) if c.get('k') == 'MethodCall' and c['name'] == 'gauss'] if f else []
    ok = len(cs) == 1 and hir.lit_bool(hir.strip(cs[0]['args'][0])) is not None and hir.local_name(cs[0]['recv']) not in (None, 'self')
    res.append(('linalg::Mat2::rank', ok, 'rank must be the return value of gauss on a clone'))
    return res


# ---------------------------------------------------------------- exhaustive evaluation over all small matrices (round 2)

M2 = 'linalg::Mat2'


def _mk(rows):
    return {'__struct__': M2, 'd': [list(r) for r in rows]}


def _lcall(facts, key, args):
    it = minirust.Interp(fuel=300000, facts=facts, inline=lambda c: c.startswith(('linalg::', '<linalg::', '<&linalg::', '<() as linalg::')))
    return it.local_call(key, args)


def _rows(m):
    if not (isinstance(m, dict) and m.get('__struct__') == M2 and isinstance(m.get('d'), list) and all(isinstance(r, list) and all(x in (0, 1) for x in r) for r in m['d'])):
        raise minirust.NoEval('not an F2 matrix: %r' % (m,))
    return [tuple(r) for r in m['d']]


def _rank(rows, ncols):
    """brute-force rank over F2 (rows as tuples)"""
    rs = [int(''.join(str(x) for x in r), 2) if r else 0 for r in rows]
    rank = 0
    for bit in reversed(range(ncols)):
        piv = None
        for i in range(rank, len(rs)):
            if (rs[i] >> bit) & 1:
                piv = i
                break
        if piv is None:
            continue
        rs[rank], rs[piv] = rs[piv], rs[rank]
        for i in range(len(rs)):
            if i != rank and (rs[i] >> bit) & 1:
                rs[i] ^= rs[rank]
        rank += 1
    return rank


def _mul(a, b):
    if not a:
        return []
    k = len(b)
    c = len(b[0]) if b else 0
    return [tuple(sum(a[i][t] & b[t][j] for t in range(k)) % 2 for j in range(c)) for i in range(len(a))]


def _echelon(rows, full):
    """(ok, why): zero rows last, pivots strictly to the right, zeros below each pivot (and above it when `full`)"""
    piv = []
    seen_zero = False
    for r in rows:
        nz = [j for j, x in enumerate(r) if x]
        if not nz:
            seen_zero = True
            continue
        if seen_zero:
            return False, 'a non-zero row follows a zero row'
        if piv and nz[0] <= piv[-1]:
            return False, 'pivots are not strictly increasing'
        piv.append(nz[0])
    for i, p_ in enumerate(piv):
        for i2, r in enumerate(rows):
            if i2 != i and r[p_] and (full or i2 > i):
                return False, 'column %d of pivot row %d is not cleared in row %d' % (p_, i, i2)
    return True, ''


def _all_matrices(max_r, max_c):
    import itertools
    for r in range(0, max_r + 1):
        for c in range(0, max_c + 1):
            if r == 0 and c > 0:
                continue          # a matrix without rows has no columns in this representation
            for bits in itertools.product((0, 1), repeat=r * c):
                yield r, c, [tuple(bits[i * c:(i + 1) * c]) for i in range(r)]


def ev_linalg(facts, max_r=3, max_c=3):
    """Every F2 matrix with at most max_r rows and max_c columns, every block size 1..cols, both reduction modes: the property's own clauses,
    decided exhaustively against a brute-force model.  -> ({clause: (ok, counterexample)}, number of evaluations)"""
    res = dict((k, [True, '']) for k in ('gauss/rank', 'gauss/echelon-form', 'gauss/same-row-space-via-reported-ops', 'gauss/default-entry-points', 'rank', 'inverse',
                                         'nullspace', 'transpose', 'stack', 'mul', 'constructors', 'row-col-operations'))
    n = 0

    def fail(k, msg):
        if res[k][0]:
            res[k] = [False, msg]

    class _Skip(Exception):
        pass

    def call_(clause, key, args, what):
        try:
            return _lcall(facts, key, args)
        except minirust.Panics as ex:
            fail(clause, '%s panics (%s)' % (what, ex))
            raise _Skip()
    for r, c, rows in _all_matrices(max_r, max_c):
        rk = _rank(rows, c)
        ident = [tuple(1 if i == j else 0 for j in range(r)) for i in range(r)]
        for full in (False, True):
            for bs in range(1, c + 1):
                m, x = _mk(rows), _mk(ident)
                n += 1
                try:
                    got = call_('gauss/rank', M2 + '::gauss_x', [m, full, bs, x], 'gauss_x on %s with block size %d' % ([list(q) for q in rows], bs))
                except _Skip:
                    continue
                mr, xr = _rows(m), _rows(x)
                tag = 'matrix %s, block size %d, full_reduce=%s' % ([list(q) for q in rows], bs, str(full).lower())
                if got != rk:
                    fail('gauss/rank', '%s: returns %s, the rank is %d' % (tag, got, rk))
                ok, why = _echelon(mr, full)
                if not ok or len(mr) != r or any(len(q) != c for q in mr):
                    fail('gauss/echelon-form', '%s: the result %s is not in %sechelon form: %s' % (tag, [list(q) for q in mr], 'reduced ' if full else '', why))
                if _mul(xr, rows) != mr or _rank(xr, r) != r:
                    fail('gauss/same-row-space-via-reported-ops', '%s: the reported row operations turn the identity into %s, which %s' % (
                        tag, [list(q) for q in xr], 'is singular' if _rank(xr, r) != r else 'does not map the matrix to the result %s' % [list(q) for q in mr]))
            m = _mk(rows)
            n += 1
            try:
                got = call_('gauss/default-entry-points', M2 + '::gauss', [m, full], 'gauss on %s' % [list(q) for q in rows])
            except _Skip:
                continue
            ok, why = _echelon(_rows(m), full)
            if got != rk or not ok or _rank(list(_rows(m)) + list(rows), c) != rk:
                fail('gauss/default-entry-points', 'gauss(%s) on %s returns %s and leaves %s (rank %d)' % (str(full).lower(), [list(q) for q in rows], got, [list(q) for q in _rows(m)], rk))
        m = _mk(rows)
        n += 1
        try:
            got = call_('rank', M2 + '::rank', [m], 'rank of %s' % [list(q) for q in rows])
        except _Skip:
            got = rk
        if got != rk or _rows(m) != rows:
            fail('rank', 'rank(%s) = %s (the rank is %d)%s' % ([list(q) for q in rows], got, rk, '' if _rows(m) == rows else ' and the matrix was modified'))
        n += 1
        invertible = r == c and rk == r
        try:
            inv = call_('inverse', M2 + '::inverse', [_mk(rows)], 'inverse of %s' % [list(q) for q in rows])
        except _Skip:
            inv = ('Some', _mk(ident)) if False else None
        if inv is None:
            okv = True       # the panic was recorded
        elif invertible:
            okv = isinstance(inv, tuple) and inv[0] == 'Some' and _mul(_rows(inv[1]), rows) == ident and _mul(rows, _rows(inv[1])) == ident
        else:
            okv = inv == minirust.NONE
        if not okv:
            fail('inverse', 'inverse(%s) = %s; the matrix is %s' % ([list(q) for q in rows], inv if not (isinstance(inv, tuple) and inv[0] == 'Some') else [list(q) for q in _rows(inv[1])], 'invertible' if invertible else 'not invertible'))
        if r >= 1:
            n += 1
            try:
                ns = call_('nullspace', M2 + '::nullspace', [_mk(rows)], 'nullspace of %s' % [list(q) for q in rows])
            except _Skip:
                ns = None
            vs = []
            okn = isinstance(ns, list)
            for v in ns if okn else []:
                vr = _rows(v)
                okn = okn and len(vr) == 1 and len(vr[0]) == c
                if okn:
                    vs.append(vr[0])
                    okn = all(sum(a & b for a, b in zip(row, vr[0])) % 2 == 0 for row in rows)
            okn = okn and len(vs) == c - rk and _rank(vs, c) == len(vs)
            if not okn and ns is not None:
                fail('nullspace', 'nullspace(%s) = %s: must be %d independent vectors that the matrix annihilates' % ([list(q) for q in rows], [list(v) for v in vs], c - rk))
        n += 1
        want_t = [tuple(rows[i][j] for i in range(r)) for j in range(c)]
        try:
            t = call_('transpose', M2 + '::transpose', [_mk(rows)], 'transpose of %s' % [list(q) for q in rows])
        except _Skip:
            t = _mk(want_t)
        if _rows(t) != want_t:
            fail('transpose', 'transpose(%s) = %s' % ([list(q) for q in rows], [list(q) for q in _rows(t)]))
    # constructors and dimensions
    for r in range(0, 4):
        for c in range(0, 4):
            for key, val in (('zeros', 0), ('ones', 1)):
                n += 1
                try:
                    m = call_('constructors', M2 + '::' + key, [r, c], '%s(%d, %d)' % (key, r, c))
                except _Skip:
                    continue
                want = [tuple(val for _j in range(c)) for _i in range(r)]
                nr, nc = _lcall(facts, M2 + '::num_rows', [m]), _lcall(facts, M2 + '::num_cols', [m])
                if _rows(m) != want or nr != r or nc != (c if r else 0):
                    fail('constructors', '%s(%d, %d) = %s with num_rows %s, num_cols %s' % (key, r, c, [list(q) for q in _rows(m)], nr, nc))
    for d in range(0, 5):
        n += 1
        try:
            m = call_('constructors', M2 + '::id', [d], 'id(%d)' % d)
            if _rows(m) != [tuple(1 if i == j else 0 for j in range(d)) for i in range(d)]:
                fail('constructors', 'id(%d) = %s' % (d, [list(q) for q in _rows(m)]))
        except _Skip:
            pass
        for i in range(d):
            n += 1
            try:
                m = call_('constructors', M2 + '::unit_vector', [d, i], 'unit_vector(%d, %d)' % (d, i))
                if _rows(m) != [(1 if j == i else 0,) for j in range(d)]:
                    fail('constructors', 'unit_vector(%d, %d) = %s, expected the column vector with a single 1 at %d' % (d, i, [list(q) for q in _rows(m)], i))
            except _Skip:
                pass
    # primitive row / column operations (trait doc: add the first index INTO the second)
    RO, CO = '<%s as linalg::RowOps>::' % M2, '<%s as linalg::ColOps>::' % M2
    for r, c, rows in _all_matrices(3, 3):
        if (r, c) not in ((2, 3), (3, 2)):
            continue
        for a in range(r):
            for b in range(r):
                if a == b:
                    continue
                for key, want in ((RO + 'row_add', [tuple(x ^ y for x, y in zip(rows[b], rows[a])) if i == b else rows[i] for i in range(r)]),
                                  (RO + 'row_swap', [rows[a] if i == b else rows[b] if i == a else rows[i] for i in range(r)])):
                    m = _mk(rows)
                    n += 1
                    try:
                        call_('row-col-operations', key, [m, a, b], '%s(%d, %d)' % (key, a, b))
                    except _Skip:
                        continue
                    if _rows(m) != want:
                        fail('row-col-operations', '%s(%d, %d) on %s gives %s, expected %s' % (key.rsplit('::', 1)[1], a, b, [list(q) for q in rows], [list(q) for q in _rows(m)], [list(q) for q in want]))
        for a in range(c):
            for b in range(c):
                if a == b:
                    continue
                for key, want in ((CO + 'col_add', [tuple((row[j] ^ row[a]) if j == b else row[j] for j in range(c)) for row in rows]),
                                  (CO + 'col_swap', [tuple(row[a] if j == b else row[b] if j == a else row[j] for j in range(c)) for row in rows])):
                    m = _mk(rows)
                    n += 1
                    try:
                        call_('row-col-operations', key, [m, a, b], '%s(%d, %d)' % (key, a, b))
                    except _Skip:
                        continue
                    if _rows(m) != want:
                        fail('row-col-operations', '%s(%d, %d) on %s gives %s, expected %s' % (key.rsplit('::', 1)[1], a, b, [list(q) for q in rows], [list(q) for q in _rows(m)], [list(q) for q in want]))
    # stacking and multiplication: all pairs of matrices with at most 2 rows and 2 columns, and all 2x3 by a family of 3x2
    small = [(r, c, rows) for r, c, rows in _all_matrices(2, 2) if r >= 1 and c >= 1]
    extra_a = [(r, c, rows) for r, c, rows in _all_matrices(2, 3) if (r, c) == (2, 3)]
    extra_b = [(3, 2, [(1, 0), (0, 1), (1, 1)]), (3, 2, [(1, 1), (1, 0), (0, 0)]), (3, 2, [(0, 1), (1, 1), (1, 0)]), (3, 2, [(1, 1), (1, 1), (0, 1)])]
    mulkeys = [k for k in facts['fns'] if k.startswith(('<linalg::Mat2 as std::ops::Mul', '<&linalg::Mat2 as std::ops::Mul'))]
    for (r1, c1, a), (r2, c2, b) in [(x, y) for x in small for y in small] + [(x, y) for x in extra_a for y in extra_b]:
        if c1 == r2:
            want = _mul(a, b)
            for k in mulkeys:
                n += 1
                try:
                    got = call_('mul', k, [_mk(a), _mk(b)], '%s on a %dx%d and a %dx%d matrix' % (k, r1, c1, r2, c2))
                except _Skip:
                    continue
                if _rows(got) != want:
                    fail('mul', '%s: %s * %s = %s, the F2 product is %s' % (k, [list(q) for q in a], [list(q) for q in b], [list(q) for q in _rows(got)], [list(q) for q in want]))
        if (r1, c1) in ((1, 1), (1, 2), (2, 1), (2, 2)) and (r2, c2) in ((1, 1), (1, 2), (2, 1), (2, 2)):
            if c1 == c2:
                n += 1
                try:
                    got = call_('stack', M2 + '::vstack', [_mk(a), _mk(b)], 'vstack of two matrices with %d columns' % c1)
                except _Skip:
                    got = _mk(list(a) + list(b))
                if _rows(got) != list(a) + list(b):
                    fail('stack', 'vstack(%s, %s) = %s' % ([list(q) for q in a], [list(q) for q in b], [list(q) for q in _rows(got)]))
            if r1 == r2:
                ma = _mk(a)
                n += 1
                try:
                    got = call_('stack', M2 + '::hstack', [ma, _mk(b)], 'hstack of two matrices with %d rows' % r1)
                except _Skip:
                    got = _mk([x + y for x, y in zip(a, b)])
                if _rows(got) != [x + y for x, y in zip(a, b)] or _rows(ma) != list(a):
                    fail('stack', 'hstack(%s, %s) = %s' % ([list(q) for q in a], [list(q) for q in b], [list(q) for q in _rows(got)]))
    return dict((k, tuple(v)) for k, v in res.items()), n


def _shape(ck, rule, key, ok, site, msg='', sample=None):
    """an obligation of a rule that recognises code SHAPE: a recognised good shape discharges; anything else is undecided — the value-level clauses
    are decided by E3-exhaustive, and a shape the rule does not know is not a refutation (DESIGN 3.4)"""
    ck.ob3(rule, key, True if ok else None, site, ('%s [shape not recognised by this rule; behaviour is decided by E3-exhaustive]' % msg) if not ok else msg, sample)


def run(ck):
    facts = ck.facts
    ck.decided('D1 every self.row_add(a,b) in gauss_helper is immediately mirrored by x.row_add(a,b) with identical operands (and no orphan mirror op)',
               'D2 inside gauss_helper the matrix is written only through row_add(a,b), with a != b at every site by a recognised justification (guard, excluding range, chunk-map idiom)',
               'D3 inverse returns Some only for a square matrix whose full reduction of a clone has rank == rows, and returns the proxy that started as the identity; '
               'row_add/col_add are transposes of each other and follow the trait doc (add first INTO second); Mul reference impl is the F2 matrix product and the 3 forwarders forward in operand order')
    ck.decided('D4 every column block and column is examined for a pivot (no early exit from those loops); the null space is returned empty early only at rank == columns')
    ck.decided('D5 the column blocks tile 0..cols for every cols <= 24 and block size <= cols in both phases (integer interpretation of num_blocks / i0 / i1); a found pivot records its column, advances the pivot row by one and ends the search, once; '
               'the elimination, pivot-search and chunk-scan loops cover pivot_row+1..rows / 0..pivot_row / pivot_row..rows',
               'D6 nullspace: one vector per free variable, unit at the free variable, back substitution pairs mat[row][free_var] with entry pivot_col over pivot_cols.enumerate, read off the fully reduced clone; '
               'transpose exchanges dimensions and indices; id / unit_vector / zeros / ones / num_rows / num_cols / vstack / hstack descriptors; gauss / gauss_x / rank forward their arguments')
    ck.not_decided('matrices larger than 3x4 as values (the block structure for sizes up to 24 is covered structurally by D1-D6)', 'gauss_with_proxy users outside linalg.rs')
    # D0 (round 2): the property's own clauses, exhaustively over every matrix up to 3x3 (thorough tier: 3x4, the bound the property names)
    try:
        mc = 4 if ck.tier == 'thorough' else 3
        sem, nev = ev_linalg(facts, 3, mc)
        for name, (ok, cex) in sorted(sem.items()):
            ck.ob('E3-exhaustive', 'Mat2/' + name, ok, ck.site(GAUSS if name.startswith('gauss') else M2 + '::' + name.split('/')[0]) if (name.startswith('gauss') or (M2 + '::' + name.split('/')[0]) in facts['fns']) else 'quizx/src/linalg.rs', cex, sample={'evaluations': nev})
        ck.floor('E3-exhaustive-evaluations', nev, 9000)
        ck.note('linalg: %d evaluations over every F2 matrix with at most 3 rows and %d columns, every block size, both reduction modes' % (nev, mc))
    except (minirust.NoEval, minirust.Proceed, TypeError, KeyError, IndexError, AttributeError, ValueError) as ex:
        if isinstance(ex, minirust.Panics):
            ck.ob('E3-exhaustive', 'Mat2/no-panic', False, ck.site(GAUSS), 'some small matrix makes a routine panic: %s' % ex)
        else:
            ck.ob3('E3-exhaustive', 'Mat2/evaluable', None, ck.site(GAUSS), 'the F2 routines are not evaluable by the interpreter (%s): the exhaustive small-matrix clauses are not decided (the structural rules below still are)' % ex)
    f = ck.fn(GAUSS)
    pm = hir.parent_map(f['hir'])
    res = d1_mirror(f)
    for i, (ok, node, why) in enumerate(res):
        _shape(ck, 'R-PAIR-mirror', '%s/site-%d' % (GAUSS, i), ok, ck.site(GAUSS, node), why, sample={'primary': hir.pp(node), 'line': hir.line(node)})
    ck.floor('R-PAIR-mirror', len(res), 5)
    bad = d2_writes(f, facts)
    _shape(ck, 'R-WRITE', GAUSS + '/only-row_add', not bad, ck.site(GAUSS, bad[0][1]) if bad else ck.site(GAUSS),
          'gauss_helper mutates the matrix other than through row_add: %s' % '; '.join('%s %s' % (k, hir.pp(n)[:60]) for k, n in bad[:3]),
          sample={'other_writes': len(bad)})
    sid = _param_ids(f).get('self')
    prim = [c for c in hir.calls(f['hir']) if c.get('k') == 'MethodCall' and c['name'] == 'row_add' and _is_local(c['recv'], sid)]
    for i, c in enumerate(prim):
        kind, detail = neq_justification(f, c, pm)
        _shape(ck, 'R-NEQ', '%s/site-%d' % (GAUSS, i), kind is not None, ck.site(GAUSS, c),
              'row_add(a, a) would zero a row: ' + detail + ' (not-established-by-recognised-idiom)', sample={'call': hir.pp(c), 'justification': kind, 'detail': detail})
    ck.floor('R-NEQ', len(prim), 5)
    # D3
    inv = 'linalg::Mat2::inverse'
    res, somes = d3_inverse(ck.fn(inv))
    for i, (ok, p, why) in enumerate(res):
        ck.ob3('R-PATH', inv + '/some-%d' % i, True if ok else None, ck.site(inv), why, sample={'conds': p.cond_texts(), 'returns': hir.pp(p.ret)})
    ck.floor('R-PATH', somes, 1)
    for key, ref in ADD_REF.items():
        d = addop_descriptor(ck.fn(key))
        ck.ob3('R-SIB-rowcol', key, True if (d is not None and d == ref) else None, ck.site(key), ('descriptor %s differs from the reference %s (trait doc: add the first index INTO the second, over the full other dimension)' % (d, ref)) if d is not None else 'the body is not the recognised single `for i in 0..n { self.d[a][b] ^= self.d[c][d] }` loop',
              sample={'descriptor': str(d)})
    # swap ops: row_swap swaps rows p1,p2 of d; col_swap swaps [c0],[c1] in every row
    rs = ck.fn('<linalg::Mat2 as linalg::RowOps>::row_swap')
    sw = [c for c in hir.calls(rs['hir']) if c.get('k') == 'MethodCall' and c['name'] == 'swap']
    ok = len(sw) == 1 and {hir.local_name(a) for a in sw[0]['args']} == {p['name'] for p in rs['params'][1:]} and len(rs['params']) == 3
    _shape(ck, 'R-SIB-rowcol', 'row_swap', ok, ck.site('<linalg::Mat2 as linalg::RowOps>::row_swap'), 'row_swap does not swap exactly its two row arguments')
    cs = ck.fn('<linalg::Mat2 as linalg::ColOps>::col_swap')
    sw = [c for c in hir.calls(cs['hir']) if c.get('k') == 'MethodCall' and c['name'] == 'swap']
    fors = hir.find(cs['hir'], 'For')
    ok = len(sw) == 1 and len(fors) == 1 and {hir.local_name(a) for a in sw[0]['args']} == {p['name'] for p in cs['params'][1:]}
    if ok:
        rb = hir.range_bounds(fors[0]['iter'])
        hi = hir.strip(rb[1]) if rb else None
        ok = bool(rb and hir.lit_int(rb[0]) == 0 and hi is not None and hi.get('k') == 'MethodCall' and hi['name'] == 'num_rows')
    _shape(ck, 'R-SIB-rowcol', 'col_swap', ok, ck.site('<linalg::Mat2 as linalg::ColOps>::col_swap'), 'col_swap does not swap its two column arguments in every row')
    # Mul
    muls = rops.op_impls(facts, lambda s: s.replace('&', '').strip() == 'linalg::Mat2')
    muls = [m for m in muls if m[1] == 'Mul']
    nref = 0
    for key, op, is_assign, _s in muls:
        fm = ck.fn(key)
        if hir.calls_to(fm['hir'], 'linalg::Mat2::build'):
            nref += 1
            d = matmul_descriptor(fm)
            ck.ob3('R-TABLE-matmul', key, True if (d is not None and d == MATMUL_REF) else None, ck.site(key), ('reference Mul impl is not the F2 matrix product (descriptor %s)' % (d,)) if d is not None else 'the product is not written as build(rows, cols, |x, y| { for i in .. { acc ^= self.d[x][i] & rhs.d[i][y] } })', sample={'descriptor': str(d)})
        else:
            ok, why, summ = rops.check_impl(fm, op, is_assign, ordered=('Sub', 'Div', 'Mul'))    # matrix multiplication does not commute
            _shape(ck, 'R-OPS', key, ok, ck.site(key), why, sample={'applications': summ})
    ck.floor('R-OPS', len(muls), 4)
    ck.floor('R-TABLE-matmul', nref, 1)
    # D4: every column block and every column is examined for a pivot (no early exit from the block / column loops of the forward phase),
    #     and the null space is empty only when rank == number of columns
    # the loops are identified structurally: the nest of `for` loops around the statement that records a pivot column
    def has_push(n):
        return any(c.get('k') == 'MethodCall' and c['name'] == 'push' and hir.local_name(c['recv']) == 'pivot_cols' for c in hir.calls(n['body']))
    nest = [n for n in hir.find(f['hir'], 'For') if has_push(n)]     # pre-order: outermost first
    sec_loops = nest[:1]
    col_loops = nest[1:2]
    for nm, loops in (('column-blocks', sec_loops), ('columns', col_loops)):
        ok = len(loops) == 1
        why = 'loop over the %s not found' % nm
        if ok:
            exits = [x for x in hir.nodes(loops[0]['body'], into_closures=False) if (x.get('k') in ('Break', 'Continue') and x.get('target') == loops[0]['id'] and x.get('k') == 'Break') or x.get('k') == 'Ret']
            ok = not exits
            why = 'the forward phase leaves the loop over the %s early (line %s): later %s are never examined for a pivot, so the reported rank can be too small' % (nm, hir.line(exits[0]) if exits else '?', nm)
        _shape(ck, 'R-LOOP-complete', GAUSS + '/' + nm, ok, ck.site(GAUSS), why)
    nk = 'linalg::Mat2::nullspace'
    nf = ck.fn(nk)
    early = [p for p in paths.return_paths(nf) if p.kind == 'return']
    ok = len(early) >= 1
    for p in early:
        conds = [(hir.pp(c[1]), c[2]) for c in p.conds if c[0] == 'cond']
        ok = ok and conds == [('(rank == n)', True)] and 'new' in hir.pp(p.ret)
    nlet = [n for n in hir.nodes(nf['hir']) if n.get('k') == 'Let' and n['pat'].get('k') == 'Bind' and n['pat']['name'] == 'n' and 'num_cols' in hir.pp(n['init'])]
    _shape(ck, 'R-PATH', nk + '/empty-only-at-full-column-rank', ok and len(nlet) == 1, ck.site(nk), 'the null space may be returned empty early only when rank == number of columns (its dimension is columns - rank): early returns %s' % [[(hir.pp(c[1]), c[2]) for c in p.conds if c[0] == 'cond'] for p in early])
    # D5
    nb = 0
    for name, ok, msg, cnt in block_tiling(f):
        nb += cnt
        if ok is None:
            ck.violation('R-COVER-blocks', GAUSS + '/' + name, ck.site(GAUSS), msg)
        else:
            ck.ob('R-COVER-blocks', GAUSS + '/' + name, ok, ck.site(GAUSS), msg, sample={'block_ranges_evaluated': cnt, 'domain': 'cols 1..=24, blocksize 1..=cols'})
    if all(ok for _n, ok, _m, _c in block_tiling(f)):
        ck.floor('R-COVER-blocks evaluations', nb, 1000)
    pb = pivot_bookkeeping(f)
    for i, (ok, msg) in enumerate(pb):
        _shape(ck, 'R-PAIR-pivot', GAUSS + '/pivot-%d' % i, ok, ck.site(GAUSS), msg)
    ck.floor('R-PAIR-pivot', len(pb), 1)
    er = elimination_ranges(f)
    for name, ok, msg in er:
        ck.ob('R-RANGE-elim', GAUSS + '/' + name, ok, ck.site(GAUSS), msg)
    ck.floor('R-RANGE-elim', len(er), 4)
    # D6
    for name, ok, msg in nullspace_flow(nf):
        if ok is None:
            ck.violation('R-DATAFLOW-nullspace', nk + '/' + name, ck.site(nk), msg)
        else:
            _shape(ck, 'R-DATAFLOW-nullspace', nk + '/' + name, ok, ck.site(nk), msg)
    sd = shape_descriptors(facts)
    for key, ok, msg in sd:
        _shape(ck, 'R-TABLE-shape', key, ok, ck.site(key), msg)
    ck.floor('R-TABLE-shape', len(sd), 12)
    # positive controls
    fx = fixture()
    g = fx['fns']['linalg::Mat2::gauss_helper']
    ck.control('R-PAIR-mirror flags a row_add without its mirror', any(not ok for ok, _n, _w in d1_mirror(g)))
    ck.control('R-WRITE flags a direct write to the matrix', bool(d2_writes(g)))
    gpm = hir.parent_map(g['hir'])
    gs = _param_ids(g).get('self')
    gprim = [c for c in hir.calls(g['hir']) if c.get('k') == 'MethodCall' and c['name'] == 'row_add' and _is_local(c['recv'], gs)]
    ck.control('R-NEQ flags an unguarded row_add(a, b)', any(neq_justification(g, c, gpm)[0] is None for c in gprim))
    gb = fx['fns']['linalg::Mat2::gauss_blocks']
    ck.control('R-COVER-blocks refutes a dropped partial block', any(ok is False for _n2, ok, _m, _c in block_tiling(gb)))
    ck.control('R-PAIR-pivot flags a pivot without break', any(not ok for ok, _m in pivot_bookkeeping(gb)))
    ck.control('R-RANGE-elim flags an elimination loop that starts too low', any(ok is False for _n2, ok, _m in elimination_ranges(gb)))
    ck.control('R-DATAFLOW-nullspace flags a row/column mix-up', any(ok is False for _n2, ok, _m in nullspace_flow(fx['fns']['linalg::Mat2::nullspace'])))
    ck.control('R-TABLE-shape flags a transpose that keeps the dimensions', any(ok is False for k2, ok, _m in shape_descriptors(fx) if k2.endswith('transpose')))
    r, _n = d3_inverse(fx['fns']['linalg::Mat2::inverse'])
    ck.control('R-PATH flags inverse without the rank test', any(not ok for ok, _p, _w in r))
    ck.control('R-SIB-rowcol flags a reversed row_add', addop_descriptor(fx['fns']['<linalg::Mat2 as linalg::RowOps>::row_add']) != ADD_REF['<linalg::Mat2 as linalg::RowOps>::row_add'])
