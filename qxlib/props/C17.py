"""C17 — F2 matrices: reported row operations mirror the matrix's own; same row space; inverse
decision structure; row/col sibling agreement; Mul forwarders."""
from .. import hir, rops, rpair, paths
from ..controls import fixture

GAUSS = 'linalg::Mat2::gauss_helper'


def _param_ids(f):
    return {p['name']: p['id'] for p in f['params'] if p.get('k') == 'Bind'}


def _is_local(e, lid):
    l = hir.local(e)
    return bool(l and l[1] == lid)


# ---------------------------------------------------------------- D1 mirror

def d1_mirror(f):
    ids = _param_ids(f)
    sid, xid = ids.get('self'), ids.get('x')
    return rpair.mirror_pairs(f, 'row_add', lambda r: _is_local(r, sid), lambda r: _is_local(r, xid))


# ---------------------------------------------------------------- D2 who-may-write + a != b

def d2_writes(f):
    """mutations rooted at `self` other than being the receiver of row_add"""
    sid = _param_ids(f).get('self')
    pm = hir.parent_map(f['hir'])
    bad = []
    for kind, pl, node in hir.mutations(f['hir']):
        p = hir.place(pl)
        if not p or p[0] != sid:
            continue
        if kind == 'autoref-mut' and not p[2]:
            par = pm.get(id(node))
            if par and par[0].get('k') == 'MethodCall' and par[1] == 'recv' and par[0]['name'] == 'row_add':
                continue
        bad.append((kind, node))
    return bad


def _single_step_counter(loop, lid):
    """`while` loop whose body starts with an unconditional `x -= 1` / `x += 1` and never writes x elsewhere"""
    st = hir.stmts_of(loop['body'])
    if not st:
        return False
    first = hir.strip(st[0])
    if not (first.get('k') == 'AssignOp' and first['op'] in ('SubAssign', 'AddAssign') and _is_local(first['l'], lid) and hir.lit_int(first['r']) == 1):
        return False
    writes = [n for kind, pl, n in hir.mutations(loop['body']) if hir.place(pl) and hir.place(pl)[0] == lid]
    return len(writes) == 1


def neq_justification(f, call, pm):
    """why the two arguments of row_add(a, b) differ; returns (kind or None, detail)"""
    a, b = call['args']
    la, lb = hir.local(a), hir.local(b)
    anc = hir.ancestors(call, pm)
    # 1. explicit guard a != b dominating the call
    for p, slot in anc:
        if p.get('k') == 'If' and slot == 'then':
            c = hir.strip(p['cond'])
            if c.get('k') == 'Binary' and c['op'] == 'Ne' and ((hir.same_expr(c['l'], a) and hir.same_expr(c['r'], b)) or (hir.same_expr(c['l'], b) and hir.same_expr(c['r'], a))):
                return 'guard', hir.pp(c)
    # 2. one argument is the variable of an enclosing `for` over a range that excludes the other
    for p, slot in anc:
        if p.get('k') == 'For' and slot == 'body' and p['pat'].get('k') == 'Bind':
            vid = p['pat']['id']
            rb = hir.range_bounds(p['iter'])
            if not rb:
                continue
            lo, hi, incl = rb
            for var, other in ((a, b), (b, a)):
                if _is_local(var, vid):
                    # other must not be written inside the loop before the call: require it is not mutated in the loop body
                    ol = hir.local(other)
                    if not ol:
                        continue
                    if any(hir.place(pl) and hir.place(pl)[0] == ol[1] for _k, pl, _n in hir.mutations(p['body'])):
                        continue
                    lo_s = hir.strip(lo) if lo is not None else None
                    if lo_s is not None and lo_s.get('k') == 'Binary' and lo_s['op'] == 'Add' and hir.same_expr(lo_s['l'], other) and (hir.lit_int(lo_s['r']) or 0) >= 1:
                        return 'range-above', 'for %s in %s..' % (hir.pp(var), hir.pp(lo))
                    if hi is not None and not incl and hir.same_expr(hi, other):
                        return 'range-below', 'for %s in ..%s' % (hir.pp(var), hir.pp(hi))
    # 3. chunk-map idiom: a comes from `if let Some(&a) = M.get(..)`, and the only insert into M in the loop
    #    stores b in the else branch of that very `if let`, b being a strictly monotone loop counter
    for p, slot in anc:
        if p.get('k') == 'If' and slot == 'then':
            c = hir.strip(p['cond'])
            if c.get('k') != 'LetCond':
                continue
            bound = [i for _n, i in hir.bindings(c['pat'])]
            init = hir.strip(c['init'])
            if not (la and la[1] in bound and init.get('k') == 'MethodCall' and init['name'] == 'get'):
                continue
            mp = hir.local(init['recv'])
            if not mp or not lb or not p.get('else'):
                continue
            # enclosing loop whose counter is b
            loop = None
            for q, qslot in anc:
                if q.get('k') == 'For' and qslot == 'body' and q['pat'].get('k') == 'Bind' and q['pat']['id'] == lb[1] and hir.range_bounds(q['iter']):
                    loop = q
                    break
                if q.get('k') == 'While' and qslot == 'body' and _single_step_counter(q, lb[1]):
                    loop = q
                    break
            if loop is None:
                continue
            inserts = [m for m in hir.calls(loop['body']) if m.get('k') == 'MethodCall' and m['name'] in ('insert', 'entry', 'extend', 'get_mut', 'values_mut', 'iter_mut', 'retain') and _is_local(m['recv'], mp[1])]
            else_inserts = [m for m in hir.calls(p['else']) if m.get('k') == 'MethodCall' and m['name'] == 'insert' and _is_local(m['recv'], mp[1])]
            if len(inserts) == 1 and len(else_inserts) == 1 and inserts[0] is else_inserts[0] and _is_local(inserts[0]['args'][1], lb[1]):
                # the map must be created empty inside the function before this loop (fresh per block)
                return 'chunk-map', '%s from %s.get(..); only insert stores the loop counter %s in the else branch' % (la[0], mp[0], lb[0])
    return None, 'no recognised justification for %s != %s' % (hir.pp(a), hir.pp(b))


# ---------------------------------------------------------------- D3 inverse, row/col, Mul

def d3_inverse(f):
    """paths returning Some(..): must be under square test and rank test; the value is the proxy of a full reduction of a clone"""
    res = []
    ps = paths.return_paths(f)
    somes = 0
    for p in ps:
        r = hir.strip(p.ret) if p.ret else None
        if r is None or hir.ctor_call(r, 'Some') is None:
            continue
        somes += 1
        val = r['args'][0]
        conds = p.conds
        sq = False
        rk = False
        for c in conds:
            if c[0] != 'cond':
                continue
            e, pol = hir.strip(c[1]), c[2]
            if e.get('k') == 'Binary':
                names = sorted(x['name'] for x in (hir.strip(e['l']), hir.strip(e['r'])) if x.get('k') == 'MethodCall')
                if names == ['num_cols', 'num_rows'] and ((e['op'] == 'Ne' and not pol) or (e['op'] == 'Eq' and pol)):
                    sq = True
                # rank test: rank < rows false / rank == rows true / rank >= rows true
                l, rr = hir.strip(e['l']), hir.strip(e['r'])
                ll = hir.local(l)
                if ll and ll[1] in p.env and rr.get('k') == 'MethodCall' and rr['name'] in ('num_rows', 'num_cols'):
                    init = hir.strip(p.env[ll[1]]) if isinstance(p.env[ll[1]], dict) else None
                    if init is not None and init.get('k') == 'MethodCall' and (hir.callee(init) or '') == GAUSS:
                        if (e['op'] == 'Lt' and not pol) or (e['op'] in ('Eq', 'Ge') and pol):
                            full = hir.lit_bool(init['args'][0])
                            proxy = hir.local(init['args'][2])
                            vl = hir.local(val)
                            recv = hir.local(init['recv'])
                            recv_init = hir.strip(p.env.get(recv[1])) if recv and isinstance(p.env.get(recv[1]), dict) else None
                            recv_is_clone = recv_init is not None and hir.local_name(recv_init) == 'self'
                            vinit = p.env.get(vl[1]) if vl else None
                            vinit = hir.strip(vinit) if isinstance(vinit, dict) else None
                            is_id = vinit is not None and vinit.get('k') == 'Call' and (hir.callee(vinit) or '') == 'linalg::Mat2::id'
                            rk = bool(full and proxy and vl and proxy[1] == vl[1] and recv_is_clone and is_id)
        res.append((sq and rk, p, 'Some(..) is returned without %s' % ('the square test' if not sq else 'rank == rows of a full reduction of a clone whose row operations were applied to the identity')))
    return res, somes


def addop_descriptor(f):
    """(target param, source param, position of the loop index, bound method) of row_add/col_add"""
    ids = {p['id']: i for i, p in enumerate(f['params']) if p.get('k') == 'Bind'}
    fors = hir.find(f['hir'], 'For')
    if len(fors) != 1 or fors[0]['pat'].get('k') != 'Bind':
        return None
    lp = fors[0]
    rb = hir.range_bounds(lp['iter'])
    if not rb or hir.lit_int(rb[0]) != 0 or rb[2]:
        return None
    hi = hir.strip(rb[1])
    bound = hi['name'] if hi.get('k') == 'MethodCall' and hir.local_name(hi['recv']) == 'self' else None
    ops = [n for n in hir.nodes(lp['body']) if n.get('k') in ('AssignOp', 'Assign')]
    if len(ops) != 1 or ops[0]['k'] != 'AssignOp' or ops[0]['op'] != 'BitXorAssign':
        return None

    def idx(e):
        e = hir.strip(e)
        if e.get('k') == 'Index' and hir.strip(e['e']).get('k') == 'Index':
            inner = hir.strip(e['e'])
            base = hir.strip(inner['e'])
            if base.get('k') == 'Field' and base['name'] == 'd' and hir.local_name(base['e']) == 'self':
                return inner['i'], e['i']
        return None
    l, r = idx(ops[0]['l']), idx(ops[0]['r'])
    if not l or not r:
        return None

    def cls(e):
        ll = hir.local(e)
        if not ll:
            return '?'
        if ll[1] == lp['pat']['id']:
            return 'i'
        return 'p%d' % ids[ll[1]] if ll[1] in ids else '?'
    return (cls(l[0]), cls(l[1])), (cls(r[0]), cls(r[1])), bound


ADD_REF = {
    '<linalg::Mat2 as linalg::RowOps>::row_add': (('p2', 'i'), ('p1', 'i'), 'num_cols'),   # row r1 ^= row r0, over all columns
    '<linalg::Mat2 as linalg::ColOps>::col_add': (('i', 'p2'), ('i', 'p1'), 'num_rows'),   # col c1 ^= col c0, over all rows
}


def matmul_descriptor(f):
    """&Mat2 * &Mat2: build(self.num_rows(), rhs.num_cols(), |x,y| XOR_i self.d[x][i] & rhs.d[i][y]), i < self.num_cols()"""
    pid = {p['id']: n for p, n in zip(f['params'], ('self', 'rhs')) if p.get('k') == 'Bind'}
    builds = hir.calls_to(f['hir'], 'linalg::Mat2::build')
    if len(builds) != 1:
        return None
    b = builds[0]
    dims = []
    for a in b['args'][:2]:
        a = hir.strip(a)
        l = hir.local(a['recv']) if a.get('k') == 'MethodCall' else None
        dims.append((pid.get(l[1]) if l else None, a.get('name')))
    cl = hir.strip(b['args'][2])
    if cl.get('k') != 'Closure' or len(cl['params']) != 2:
        return None
    cp = [p['id'] for p in cl['params'] if p.get('k') == 'Bind']
    fors = hir.find(cl['body'], 'For')
    if len(fors) != 1 or len(cp) != 2:
        return None
    lp = fors[0]
    acc = [n for n in hir.nodes(lp['body']) if n.get('k') == 'AssignOp']
    if len(acc) != 1 or acc[0]['op'] != 'BitXorAssign':
        return None
    rhs = hir.strip(acc[0]['r'])
    if not (rhs.get('k') == 'Binary' and rhs['op'] == 'BitAnd'):
        return None

    def idx(e):
        e = hir.strip(e)
        if e.get('k') == 'Index' and hir.strip(e['e']).get('k') == 'Index':
            inner = hir.strip(e['e'])
            base = hir.strip(inner['e'])
            if base.get('k') == 'Field' and base['name'] == 'd':
                root = hir.local(base['e'])
                return pid.get(root[1]) if root else None, inner['i'], e['i']
        return None

    def cls(e):
        l = hir.local(e)
        if not l:
            return '?'
        if l[1] == lp['pat']['id']:
            return 'i'
        if l[1] == cp[0]:
            return 'x'
        if l[1] == cp[1]:
            return 'y'
        return '?'
    fs = []
    for side in (rhs['l'], rhs['r']):
        t = idx(side)
        if not t:
            return None
        fs.append((t[0], cls(t[1]), cls(t[2])))
    rb = hir.range_bounds(lp['iter'])
    hi = hir.strip(rb[1]) if rb else None
    bound = None
    if hi is not None:
        l = hir.local(hi)
        if l and l[1] in {}:
            pass
        # k = self.num_cols() bound through a let
        bound = hir.pp(hi)
    return tuple(dims), frozenset(fs)


MATMUL_REF = ((('self', 'num_rows'), ('rhs', 'num_cols')), frozenset([('self', 'x', 'i'), ('rhs', 'i', 'y')]))


def run(ck):
    facts = ck.facts
    ck.decided('D1 every self.row_add(a,b) in gauss_helper is immediately mirrored by x.row_add(a,b) with identical operands (and no orphan mirror op)',
               'D2 inside gauss_helper the matrix is written only through row_add(a,b), with a != b at every site by a recognised justification (guard, excluding range, chunk-map idiom)',
               'D3 inverse returns Some only for a square matrix whose full reduction of a clone has rank == rows, and returns the proxy that started as the identity; '
               'row_add/col_add are transposes of each other and follow the trait doc (add first INTO second); Mul reference impl is the F2 matrix product and the 3 forwarders forward in operand order')
    ck.decided('D4 every column block and column is examined for a pivot (no early exit from those loops); the null space is returned empty early only at rank == columns')
    ck.not_decided('that the result is a (reduced) echelon form', 'rank / null-space values', 'algebraic laws of transpose/stack/mul as value equalities')
    f = ck.fn(GAUSS)
    pm = hir.parent_map(f['hir'])
    res = d1_mirror(f)
    for i, (ok, node, why) in enumerate(res):
        ck.ob('R-PAIR-mirror', '%s/site-%d' % (GAUSS, i), ok, ck.site(GAUSS, node), why, sample={'primary': hir.pp(node), 'line': hir.line(node)})
    ck.floor('R-PAIR-mirror', len(res), 5)
    bad = d2_writes(f)
    ck.ob('R-WRITE', GAUSS + '/only-row_add', not bad, ck.site(GAUSS, bad[0][1]) if bad else ck.site(GAUSS),
          'gauss_helper mutates the matrix other than through row_add: %s' % '; '.join('%s %s' % (k, hir.pp(n)[:60]) for k, n in bad[:3]),
          sample={'other_writes': len(bad)})
    sid = _param_ids(f).get('self')
    prim = [c for c in hir.calls(f['hir']) if c.get('k') == 'MethodCall' and c['name'] == 'row_add' and _is_local(c['recv'], sid)]
    for i, c in enumerate(prim):
        kind, detail = neq_justification(f, c, pm)
        ck.ob('R-NEQ', '%s/site-%d' % (GAUSS, i), kind is not None, ck.site(GAUSS, c),
              'row_add(a, a) would zero a row: ' + detail + ' (not-established-by-recognised-idiom)', sample={'call': hir.pp(c), 'justification': kind, 'detail': detail})
    ck.floor('R-NEQ', len(prim), 5)
    # D3
    inv = 'linalg::Mat2::inverse'
    res, somes = d3_inverse(ck.fn(inv))
    for i, (ok, p, why) in enumerate(res):
        ck.ob('R-PATH', inv + '/some-%d' % i, ok, ck.site(inv), why, sample={'conds': p.cond_texts(), 'returns': hir.pp(p.ret)})
    ck.floor('R-PATH', somes, 1)
    for key, ref in ADD_REF.items():
        d = addop_descriptor(ck.fn(key))
        ck.ob('R-SIB-rowcol', key, d == ref, ck.site(key), 'descriptor %s differs from the reference %s (trait doc: add the first index INTO the second, over the full other dimension)' % (d, ref),
              sample={'descriptor': str(d)})
    # swap ops: row_swap swaps rows p1,p2 of d; col_swap swaps [c0],[c1] in every row
    rs = ck.fn('<linalg::Mat2 as linalg::RowOps>::row_swap')
    sw = [c for c in hir.calls(rs['hir']) if c.get('k') == 'MethodCall' and c['name'] == 'swap']
    ok = len(sw) == 1 and {hir.local_name(a) for a in sw[0]['args']} == {p['name'] for p in rs['params'][1:]} and len(rs['params']) == 3
    ck.ob('R-SIB-rowcol', 'row_swap', ok, ck.site('<linalg::Mat2 as linalg::RowOps>::row_swap'), 'row_swap does not swap exactly its two row arguments')
    cs = ck.fn('<linalg::Mat2 as linalg::ColOps>::col_swap')
    sw = [c for c in hir.calls(cs['hir']) if c.get('k') == 'MethodCall' and c['name'] == 'swap']
    fors = hir.find(cs['hir'], 'For')
    ok = len(sw) == 1 and len(fors) == 1 and {hir.local_name(a) for a in sw[0]['args']} == {p['name'] for p in cs['params'][1:]}
    if ok:
        rb = hir.range_bounds(fors[0]['iter'])
        hi = hir.strip(rb[1]) if rb else None
        ok = bool(rb and hir.lit_int(rb[0]) == 0 and hi is not None and hi.get('k') == 'MethodCall' and hi['name'] == 'num_rows')
    ck.ob('R-SIB-rowcol', 'col_swap', ok, ck.site('<linalg::Mat2 as linalg::ColOps>::col_swap'), 'col_swap does not swap its two column arguments in every row')
    # Mul
    muls = rops.op_impls(facts, lambda s: s.replace('&', '').strip() == 'linalg::Mat2')
    muls = [m for m in muls if m[1] == 'Mul']
    nref = 0
    for key, op, is_assign, _s in muls:
        fm = ck.fn(key)
        if hir.calls_to(fm['hir'], 'linalg::Mat2::build'):
            nref += 1
            d = matmul_descriptor(fm)
            ck.ob('R-TABLE-matmul', key, d == MATMUL_REF, ck.site(key), 'reference Mul impl is not the F2 matrix product (descriptor %s)' % (d,), sample={'descriptor': str(d)})
        else:
            ok, why, summ = rops.check_impl(fm, op, is_assign)
            ck.ob('R-OPS', key, ok, ck.site(key), why, sample={'applications': summ})
    ck.floor('R-OPS', len(muls), 4)
    ck.floor('R-TABLE-matmul', nref, 1)
    # D4: every column block and every column is examined for a pivot (no early exit from the block / column loops of the forward phase),
    #     and the null space is empty only when rank == number of columns
    # the loops are identified structurally: the nest of `for` loops around the statement that records a pivot column
    def has_push(n):
        return any(c.get('k') == 'MethodCall' and c['name'] == 'push' and hir.local_name(c['recv']) == 'pivot_cols' for c in hir.calls(n['body']))
    nest = [n for n in hir.find(f['hir'], 'For') if has_push(n)]     # pre-order: outermost first
    sec_loops = nest[:1]
    col_loops = nest[1:2]
    for nm, loops in (('column-blocks', sec_loops), ('columns', col_loops)):
        ok = len(loops) == 1
        why = 'loop over the %s not found' % nm
        if ok:
            exits = [x for x in hir.nodes(loops[0]['body'], into_closures=False) if (x.get('k') in ('Break', 'Continue') and x.get('target') == loops[0]['id'] and x.get('k') == 'Break') or x.get('k') == 'Ret']
            ok = not exits
            why = 'the forward phase leaves the loop over the %s early (line %s): later %s are never examined for a pivot, so the reported rank can be too small' % (nm, hir.line(exits[0]) if exits else '?', nm)
        ck.ob('R-LOOP-complete', GAUSS + '/' + nm, ok, ck.site(GAUSS), why)
    nk = 'linalg::Mat2::nullspace'
    nf = ck.fn(nk)
    early = [p for p in paths.return_paths(nf) if p.kind == 'return']
    ok = len(early) >= 1
    for p in early:
        conds = [(hir.pp(c[1]), c[2]) for c in p.conds if c[0] == 'cond']
        ok = ok and conds == [('(rank == n)', True)] and 'new' in hir.pp(p.ret)
    nlet = [n for n in hir.nodes(nf['hir']) if n.get('k') == 'Let' and n['pat'].get('k') == 'Bind' and n['pat']['name'] == 'n' and 'num_cols' in hir.pp(n['init'])]
    ck.ob('R-PATH', nk + '/empty-only-at-full-column-rank', ok and len(nlet) == 1, ck.site(nk), 'the null space may be returned empty early only when rank == number of columns (its dimension is columns - rank): early returns %s' % [[(hir.pp(c[1]), c[2]) for c in p.conds if c[0] == 'cond'] for p in early])
    # positive controls
    fx = fixture()
    g = fx['fns']['linalg::Mat2::gauss_helper']
    ck.control('R-PAIR-mirror flags a row_add without its mirror', any(not ok for ok, _n, _w in d1_mirror(g)))
    ck.control('R-WRITE flags a direct write to the matrix', bool(d2_writes(g)))
    gpm = hir.parent_map(g['hir'])
    gs = _param_ids(g).get('self')
    gprim = [c for c in hir.calls(g['hir']) if c.get('k') == 'MethodCall' and c['name'] == 'row_add' and _is_local(c['recv'], gs)]
    ck.control('R-NEQ flags an unguarded row_add(a, b)', any(neq_justification(g, c, gpm)[0] is None for c in gprim))
    r, _n = d3_inverse(fx['fns']['linalg::Mat2::inverse'])
    ck.control('R-PATH flags inverse without the rank test', any(not ok for ok, _p, _w in r))
    ck.control('R-SIB-rowcol flags a reversed row_add', addop_descriptor(fx['fns']['<linalg::Mat2 as linalg::RowOps>::row_add']) != ADD_REF['<linalg::Mat2 as linalg::RowOps>::row_add'])
