"""C02 — circuit -> diagram translation: per-gate table, qubit->output-slot map, compound gates, simplify-while-building."""
import os
import sys
from fractions import Fraction as Fr

from .. import hir, rtable, gatesem, redge
from ..controls import fixture

sys.path.insert(0, os.path.dirname(os.path.dirname(os.path.dirname(os.path.abspath(__file__)))))
from refs import gates as G  # noqa: E402

ATG = 'gate::Gate::add_to_graph'
TGO = 'circuit::Circuit::to_graph_with_options'


def expected_graph(kind):
    g = G.GATES[kind]
    if g['cls'] == 'diag' and g['arity'] == 1:
        return ('diag', tuple(g['hset']), g['phase'])
    if g['cls'] == 'diag' and g['arity'] == 2:
        return ('diag2', tuple(g['hset']), g['phase'], 1)     # +1 power of sqrt2 per two-qubit connector
    if g['cls'] == 'had':
        return ('had', 0)
    if g['cls'] == 'unknown':
        return ('nothing',)
    return None


def shift_block(arm_body):
    """the remove-output / forget-qubit / shift-larger-indices block of PostSelect and Measure, as normalised text"""
    out = []
    slot = None
    for n in hir.nodes(arm_body):
        if n.get('k') == 'LetCond' and hir.strip(n['init']).get('k') == 'MethodCall' and hir.strip(n['init'])['name'] == 'get':
            b = hir.bindings(n['pat'])
            if b:
                slot = b[0]
    for c in hir.calls(arm_body):
        if c.get('k') == 'MethodCall' and c['name'] == 'remove':
            r = hir.strip(c['recv'])
            if r.get('k') == 'MethodCall' and r['name'] == 'outputs_mut':
                out.append('outputs.remove(%s)' % ('SLOT' if slot and hir.local(c['args'][0]) and hir.local(c['args'][0])[1] == slot[1] else hir.pp(c['args'][0])))
            elif hir.local_name(r) == 'qs':
                out.append('qs.remove(%s)' % hir.pp(c['args'][0]))
    for n in hir.nodes(arm_body):
        if n.get('k') == 'For' and ('iter_mut' in hir.pp(n['iter']) or 'values_mut' in hir.pp(n['iter'])) and 'qs' in hir.pp(n['iter']):
            # the comparison that selects the entries to shift: an `if` in the body or a `.filter(|e| ..)` on the iterator
            conds = [hir.strip(i['cond']) for i in hir.find(n['body'], 'If')]
            for c2 in hir.calls(n['iter']):
                if c2.get('k') == 'MethodCall' and c2['name'] == 'filter' and c2['args'] and hir.strip(c2['args'][0]).get('k') == 'Closure':
                    conds.append(hir.strip(hir.strip(c2['args'][0])['body']))
            upd = [x for x in hir.nodes(n['body']) if x.get('k') == 'AssignOp']
            for c in conds:
                if c.get('k') == 'Binary':
                    rhs = 'SLOT' if slot and hir.local(c['r']) and hir.local(c['r'])[1] == slot[1] else hir.pp(c['r'])
                    amount = hir.lit_int(hir.strip(upd[0]['r'])) if len(upd) == 1 else None
                    out.append('for each entry e of the map: if e %s %s { e %s %s }' % (hir.BINOP.get(c['op'], c['op']), rhs, {'SubAssign': '-=', 'AddAssign': '+='}.get(upd[0]['op'], '?=') if len(upd) == 1 else '?', amount))
    return out


def finalisation(f):
    """how the outputs are finalised after the gate loop: is the qubit->slot map consumed, and as a gather in qubit order?"""
    st = hir.stmts_of(f['hir'])
    loop_idx = None
    for i, s in enumerate(st):
        if s.get('k') == 'For' and any(hir.callee(c) == ATG for c in hir.calls(s)):
            loop_idx = i
    if loop_idx is None:
        return None
    qs_id = None
    for c in hir.calls(st[loop_idx]):
        if hir.callee(c) == ATG:
            for a in c['args']:
                if 'HashMap' in (hir.strip(a).get('ty') or '') and hir.local(hir.strip(a)):
                    qs_id = hir.local(hir.strip(a))[1]
    after = st[loop_idx + 1:]
    reads = [n for s in after for n in hir.nodes(s) if hir.local(n) and hir.local(n)[1] == qs_id] if qs_id else []
    d = {'map-read-after-loop': bool(reads), 'set_outputs': False, 'gather': False, 'qubit-order': False}
    for s in after:
        for c in hir.calls(s):
            if c.get('k') == 'MethodCall' and c['name'] == 'set_outputs':
                d['set_outputs'] = True
    # gather: an element of the new output list is `graph.outputs()[ qs[q] ]` (old outputs indexed by the slot of qubit q)
    for s in after:
        for n in hir.nodes(s):
            if n.get('k') == 'Index':
                base = hir.strip(n['e'])
                idx = hir.strip(n['i'])
                if base.get('k') == 'MethodCall' and base['name'] == 'outputs':
                    through_map = any(hir.local(x) and hir.local(x)[1] == qs_id for x in hir.nodes(idx))
                    if through_map:
                        d['gather'] = True
        for c in hir.calls(s):
            if c.get('k') == 'MethodCall' and c['name'] in ('sort', 'sort_unstable', 'sort_by_key') or (c.get('k') == 'MethodCall' and c['name'] == 'into_iter' and 'BTreeMap' in (hir.strip(c['recv']).get('ty') or '')):
                d['qubit-order'] = True
        # `for q in 0..n` style loops are qubit order as well
        for n in hir.nodes(s):
            if n.get('k') == 'For' and hir.range_bounds(n['iter']):
                d['qubit-order'] = True
    # scatter form (assignment to new[qs[q]]) would be the inverse permutation
    for s in after:
        for n in hir.nodes(s):
            if n.get('k') == 'Assign' and hir.strip(n['l']).get('k') == 'Index':
                idx = hir.strip(hir.strip(n['l'])['i'])
                if any(hir.local(x) and hir.local(x)[1] == qs_id for x in hir.nodes(idx)):
                    d['scatter'] = True
    return d


def finalisation_semantics(f):
    """what the statements after the gate loop install as outputs, evaluated on concrete qubit -> slot maps (identity, a transposition, both 3-cycles, a map with
    a forgotten qubit): the result must be old_outputs[map[q]] for q in ascending qubit order.  Returns (ok | None, message, sample)."""
    from .. import minirust as M
    st = hir.stmts_of(f['hir'])
    loop_idx = None
    call = None
    for i, s_ in enumerate(st):
        if s_.get('k') == 'For':
            cs = [c for c in hir.calls(s_) if hir.callee(c) == ATG]
            if cs:
                loop_idx, call = i, cs[0]
    if loop_idx is None:
        return None, 'the gate loop (for g in gates { g.add_to_graph(..) }) was not found', None
    atg = call['args']
    locs = [hir.local(hir.strip(a)) for a in atg]
    # parameters of add_to_graph: (fresh_var, graph, qs, postselect) — identified by type
    gid = qid = None
    for a, l in zip(atg, locs):
        t = hir.strip(a).get('ty') or ''
        if l and 'HashMap' in t:
            qid = l[1]
        elif l and ('Graph' in t or t.strip('&mut ').strip() in ('G',)):
            gid = l[1]
    if qid is None or gid is None:
        return None, 'the qubit -> slot map / the graph handed to add_to_graph were not identified', None
    after = st[loop_idx + 1:]
    cases = [{0: 0, 1: 1, 2: 2}, {0: 1, 1: 0, 2: 2}, {0: 1, 1: 2, 2: 0}, {0: 2, 1: 0, 2: 1}, {0: 1, 2: 0}]
    tried = 0
    for qs in cases:
        nslots = max(qs.values()) + 1
        old = ['out%d' % k for k in range(nslots)]
        state = {'outputs': list(old), 'set': None}

        def set_outputs(a, state=state):
            state['outputs'] = list(a[0])
            state['set'] = list(a[0])
        g = M.Obj('graph', {'outputs': lambda a, state=state: state['outputs'], 'set_outputs': set_outputs, 'outputs_mut': lambda a, state=state: state['outputs']})
        env = {qid: dict(qs), gid: g}
        it = M.Interp()
        try:
            for s_ in after:
                it.stmt(s_, env)
                if state['set'] is not None:
                    break
        except M.NoEval as ex:
            if state['set'] is None:
                return None, 'the statements that finalise the outputs are not evaluable by the rule (%s)' % ex, None
        except (M._Return, M._Break, M._Continue):
            pass
        if state['set'] is None:
            return False, 'after the gate loop the outputs are never re-installed from the qubit -> slot map: the relabelling done by SWAP gates is lost', {'map': qs}
        want = [old[qs[q]] for q in sorted(qs)]
        tried += 1
        if state['set'] != want:
            return False, ('for the qubit -> slot map %s the outputs installed after the gate loop are %s, expected %s (old_outputs[map[q]] in ascending qubit order; a scatter new[map[q]] = old[q] is the inverse permutation)'
                           % (qs, state['set'], want)), {'map': qs}
    return True, '', {'maps_evaluated': tried}


def scalar_writes(f):
    """how a function updates a graph scalar: [(node, 'mul' | 'overwrite' | 'other', text)].
    multiplicative: `*g.scalar_mut() *= x`, `g.scalar_mut().mul_sqrt2_pow(k)`, `.mul_phase(p)`, `.mul_one_plus_phase(p)`, and `*g.scalar_mut() = e` where e is computed from g.scalar()."""
    out = []
    for n in hir.nodes(f['hir']):
        k = n.get('k')
        if k in ('Assign', 'AssignOp'):
            l = hir.strip(n['l'])
            if l.get('k') == 'MethodCall' and l['name'] == 'scalar_mut':
                if k == 'AssignOp':
                    out.append((n, 'mul' if n['op'] == 'MulAssign' else 'other', hir.pp(n)[:60]))
                else:
                    uses_old = any(c.get('k') == 'MethodCall' and c['name'] == 'scalar' and hir.same_expr(c['recv'], l['recv']) for c in hir.calls(n['r']))
                    if not uses_old:
                        # a local computed from the old scalar (let s = g.scalar().conj(); *g.scalar_mut() = s)
                        r = hir.local(hir.strip(n['r']))
                        if r:
                            for x in hir.nodes(f['hir']):
                                if x.get('k') == 'Let' and x['pat'].get('k') == 'Bind' and x['pat']['id'] == r[1] and x.get('init') is not None:
                                    uses_old = any(c.get('k') == 'MethodCall' and c['name'] == 'scalar' for c in hir.calls(x['init']))
                    out.append((n, 'mul' if uses_old else 'overwrite', hir.pp(n)[:60]))
        elif k == 'MethodCall' and hir.strip(n['recv']).get('k') == 'MethodCall' and hir.strip(n['recv'])['name'] == 'scalar_mut':
            out.append((n, 'mul' if n['name'].startswith('mul_') else 'other', hir.pp(n)[:60]))
    return out


def _d0(ck, facts):
    """the statement itself on small circuits: Circuit::to_graph_with_options interpreted in all three modes on both back ends, diagram map = circuit map"""
    from .. import zxsem, minirust
    ck.decided('D0 (evaluation, small scope) Circuit::to_graph_with_options, Gate::add_to_graph with every helper, local_ap_simp and the rules it applies, phase.rs, params.rs and both graph back ends interpreted from their HIR: for every '
               'unitary gate kind on every tuple of distinct qubits of 1..3 wires (five phases for the parametrised kinds, parity-phase gadgets of every arity), every ordered pair of a two-qubit gate subset, compound gates next to '
               'single-qubit gates, and ancilla initialisation / post-selection as the first / last operation of a wire, in all three translation modes (plain, simplify-while-building, post-selected CCZ gadgets), the linear map of the '
               'diagram, scalar included and inputs / outputs in qubit order, equals the gate-by-gate matrix semantics of refs/gates.py (exact numbers in Q(e^{i pi/4}); the contraction shares no code with tensor.rs)')
    plan = [('vec_graph::Graph', 1), ('hash_graph::Graph', 3)] if ck.tier == 'thorough' else [('vec_graph::Graph', 5), ('hash_graph::Graph', 41)]
    try:
        tot, bad, declined = zxsem.run_circuits(facts, plan, procs=16 if ck.tier == 'thorough' else 8)
    except (minirust.NoEval, minirust.Proceed) as ex:
        ck.ob3('E3-translate', 'evaluation', None, ck.site(TGO), 'the evaluator declined (%s: %s)' % (type(ex).__name__, ex))
        return
    by = {}
    for ty, mode, circ, _a, what in bad:
        by.setdefault(mode, []).append((ty, circ, what))
    for mode in ['to_graph_with_options(simplify=%s, postselect=%s)' % m for m in zxsem.MODES]:
        fs = by.get(mode, [])
        for clause, pred in (('diagram-denotes-the-circuit', lambda w: not w.startswith('panics')), ('no-panic', lambda w: w.startswith('panics'))):
            hit = [f for f in fs if pred(f[2])]
            if hit:
                ty, circ, what = hit[0]
                ck.ob('E3-translate', '%s/%s' % (mode, clause), False, ck.site(TGO), 'for the circuit on %s (%s): %s [%d such cases in this run]' % (circ, ty.split('::')[0], what, len(hit)))
            else:
                ck.ob('E3-translate', '%s/%s' % (mode, clause), True, ck.site(TGO), '', sample={'mode': mode, 'circuits': tot['circuits']} if clause.startswith('diagram') else None)
    ck.floor('E3-translate', tot['translations'], 6000 if ck.tier == 'thorough' else 1100)
    if tot['declined'] * 20 > max(1, tot['translations']):
        k0 = sorted(declined)[0]
        ck.ob3('E3-translate', 'declined', None, ck.site(TGO), 'the evaluator declined %d translations, e.g. %s on %s' % (tot['declined'], k0, declined[k0]))
    _c1, _c2 = zxsem.oracle_controls()
    ck.control('E3-translate oracle: the fast contraction agrees with the reference contraction on a fixed sample of every family', _c1)
    ck.control('E3-translate oracle: accepts a true identity and tells apart a wrong phase, a flipped edge type, a negated scalar and a dropped variable', _c2)
    ck.note('E3-translate: %d circuits, %d translations decided, %d declined' % (tot['circuits'], tot['translations'], tot['declined']))


def _run_own(ck):
    facts = ck.facts
    ck.decided('D1 per-gate table of Gate::add_to_graph: spider colours, connecting edge, phase constant and sqrt2 power reduce to the same semantic descriptor as the reference gate semantics AND as the independent tensor-side table of Circuit::to_tensor',
               'D2 qubit->output-slot map: PostSelect and Measure perform the same remove/forget/shift block keyed by the removed SLOT; SWAP only permutes the map, so the map must be consumed (as a gather in qubit order) when the outputs are finalised; every arm goes through the map',
               'D3 compound gates go through push_basic_gates (C15 checks the expansion) or the post-selected gadget, whose edges obey the insertion discipline and whose scalar is omega*2^2',
               'D4 with simplify=true only checked rules are applied (local_ap_simp calls no *_unchecked rule)')
    ck.not_decided('equality of the resulting linear map for arbitrary gate sequences (composition is run-time state)', 'the effect of local_ap_simp beyond "applies only sound rules"', 'the CCZ gadget identity')
    _d0(ck, facts)
    ck.fn(ATG)
    r = gatesem.graph_table(facts)
    if r is None:
        ck.violation('R-TABLE-graph', 'shape', ck.site(ATG), 'anchor-missing: no single match over GType in add_to_graph')
        return
    table, arms = r
    variants = rtable.enum_variants(facts, G.GTYPE)
    from .C08 import circuit_tensor_key
    tk = circuit_tensor_key(facts)
    ttab = gatesem.tensor_table(facts, tk)[0] if tk else {}
    n = 0
    for v in variants:
        want = expected_graph(v)
        got, raw = table[v]
        if want is not None:
            n += 1
            ck.ob('R-TABLE-graph', 'add_to_graph/' + v, got == want, ck.site(ATG), 'diagram translation of %s is %s (spiders %s, edge %s, sqrt2^%s), reference semantics %s' % (v, got, raw['spiders'], raw['edge'], raw['sqrt2'], want),
                  sample={'kind': v, 'descriptor': str(got)})
            # agreement with the tensor side (two implementations of "what this gate kind means")
            td = ttab.get(v)
            if td and td[0] in ('diag', 'had') and got[0] in ('diag', 'diag2', 'had'):
                same = (td[0] == 'had' and got[0] == 'had') or (td[0] == 'diag' and got[0] in ('diag', 'diag2') and td[1] == got[1] and td[2] == got[2])
                ck.ob('R-TABLE-agree', 'diagram~tensor/' + v, same, ck.site(ATG), 'the diagram side says %s, the tensor side says %s' % (got, td))
    ck.floor('R-TABLE-graph', n, 13)
    # state / effect kinds
    for v, power in (('InitAncilla', -1), ('PostSelect', -1), ('Measure', -1), ('MeasureReset', -2)):
        got, raw = table[v]
        ck.ob('R-TABLE-graph', 'add_to_graph/%s/effect' % v, raw['sqrt2'] == power and 'set_vertex_type:X' in raw['other'], ck.site(ATG),
              '%s must turn the boundary into an X(0) spider with sqrt2^%d (found sqrt2^%s, %s)' % (v, power, raw['sqrt2'], raw['other']))
    reads = set()
    for v in variants:
        body = arms[v]['body']
        if any(x.get('k') == 'Field' and x['name'] == 'phase' and hir.local_name(x['e']) == 'self' for x in hir.nodes(body)):
            reads.add(v)
    ck.ob('R-TABLE-graph', 'add_to_graph/phase-readers', reads == {'ZPhase', 'XPhase'}, ck.site(ATG), 'kinds whose diagram arm reads the gate phase: %s (ParityPhase reads it in push_basic_gates)' % sorted(reads))
    # compound
    for v in ('CCZ', 'TOFF', 'ParityPhase'):
        raw = table[v][1]
        ok = 'push_basic_gates' in raw['other'] and 'add_to_graph' in raw['other'] and (v == 'ParityPhase' or 'add_ccz_postselected' in raw['other'])
        ck.ob('R-TABLE-graph', 'add_to_graph/%s/compound' % v, ok, ck.site(ATG), '%s must be translated through its basic-gate expansion (or the post-selected gadget): %s' % (v, raw['other']))
    traw = table['TOFF'][1]
    ck.ob('R-TABLE-graph', 'add_to_graph/TOFF/hadamards', traw['spiders'] == [(2, 'Z', 'H', Fr(0)), (2, 'Z', 'H', Fr(0))], ck.site(ATG), 'post-selected Toffoli must be the CCZ gadget conjugated by Hadamards on the target (position 2): %s' % traw['spiders'])
    # the compound kinds are translated through their basic-gate expansion: the expansion must be the gate (shared with C15-D2: the constant CCZ / Toffoli
    # sequences multiply out to the gate matrix; the parity-phase expansion has the right phase polynomial for every arity 0..8)
    from .C15 import seq_obligations
    seq_obligations(ck, facts)
    # every gate multiplies its scalar into the diagram's scalar: none may overwrite what the gates before it contributed
    nsw = 0
    for key, fn_ in sorted(facts['fns'].items()):
        if fn_['file'].endswith(('quizx/src/gate.rs', 'quizx/src/circuit.rs')) and not fn_.get('macro'):
            for i, (node, kind, text) in enumerate(scalar_writes(fn_)):
                nsw += 1
                ck.ob('R-SCALAR-mul', '%s/scalar-update-%d' % (key, i), kind == 'mul', ck.site(key, node),
                      'the diagram scalar is %s here (`%s`): the scalar contributions of all earlier gates are lost / altered; a gate may only multiply its factor in' % ('overwritten' if kind == 'overwrite' else 'updated non-multiplicatively', text))
    ck.floor('R-SCALAR-mul', nsw, 8)
    # ---- D2
    # (round 2) the slot bookkeeping of the arms that remove a wire, decided by evaluation on all six qubit -> slot maps of three wires
    from .C10 import slot_shift_semantics
    from .. import minirust as _mr
    shift_decided = True
    for kind in ('PostSelect', 'Measure', 'MeasureReset'):
        try:
            okv, detail, nev = slot_shift_semantics(facts, kind)
            ck.ob('R-SIB', '%s/index-shift-by-evaluation' % kind, okv, ck.site(ATG), detail, sample={'evaluations': nev})
        except (_mr.NoEval, _mr.Proceed, TypeError, KeyError, IndexError, AttributeError, ValueError) as ex:
            shift_decided = False
            ck.note('%s: the slot bookkeeping is not evaluable (%s); syntactic reading used, positive matches only' % (kind, ex))
    a = shift_block(arms['PostSelect']['body'])
    b = shift_block(arms['Measure']['body'])
    if shift_decided:
        ck.positive_only = dict(getattr(ck, 'positive_only', {}), **{'R-SIB': 'the slot bookkeeping was decided by evaluation in this run'})
    ck.ob3('R-SIB', 'PostSelect~Measure/index-shift', None if (len(a) < 3 and len(b) < 3) else (a == b and len(a) >= 3), ck.site(ATG), 'the post-selection and measurement arms must perform the same remove-output / forget-qubit / shift block: %s vs %s' % (a, b), sample={'block': a})
    want_shift = ['outputs.remove(SLOT)', 'qs.remove(&self.qs[0])', 'for each entry e of the map: if e > SLOT { (*v1 -= 1) }']
    ck.ob3('R-SIB', 'PostSelect/index-shift-keyed-by-slot', None if len(a) < 3 else (any('> SLOT' in x for x in a) and 'outputs.remove(SLOT)' in a), ck.site(ATG), 'entries above the removed output SLOT must shift down by one: %s' % a)
    if getattr(ck, 'positive_only', None):
        ck.positive_only.pop('R-SIB', None)
    f = ck.fn(TGO)
    d = finalisation(f)
    if d is None:
        ck.violation('R-DATAFLOW', 'to_graph_with_options/shape', ck.site(TGO), 'anchor-missing: gate loop not found')
    else:
        ck.ob('R-DATAFLOW', 'to_graph_with_options/map-consumed', d['map-read-after-loop'] and d['set_outputs'], ck.site(TGO),
              'SWAP only relabels the qubit->output-slot map, but the map is never read after the gate loop: swaps are silently lost', sample=d)
    # what is installed, decided by evaluating the finalising statements on concrete maps (independent of how they are spelled)
    okf, msgf, samplef = finalisation_semantics(f)
    ck.ob3('R-DATAFLOW', 'to_graph_with_options/gather-in-qubit-order', okf, ck.site(TGO), msgf, sample=samplef)
    swap = arms['SWAP']['body']
    ins = [c for c in hir.calls(swap) if c.get('k') == 'MethodCall' and c['name'] == 'insert' and hir.local_name(c['recv']) == 'qs']
    ok = False
    if len(ins) == 2:
        k0, k1 = gatesem._qpos(ins[0]['args'][0]), gatesem._qpos(ins[1]['args'][0])
        v0, v1 = hir.local(ins[0]['args'][1]), hir.local(ins[1]['args'][1])
        gets = {}
        for n in hir.nodes(swap):
            if n.get('k') == 'LetCond':
                tup = hir.strip(n['init'])
                if tup.get('k') == 'Tup':
                    for pat, g in zip(n['pat']['sub'], tup['items']):
                        g0 = hir.strip(g)
                        if g0.get('k') == 'MethodCall' and g0['name'] == 'get':
                            for _n, i in hir.bindings(pat):
                                gets[i] = gatesem._qpos(g0['args'][0])
        ok = bool(v0 and v1) and {k0, k1} == {0, 1} and gets.get(v0[1]) == k1 and gets.get(v1[1]) == k0
    ck.ob('R-TABLE-graph', 'add_to_graph/SWAP/exchanges-slots', ok, ck.site(ATG), 'SWAP must exchange the output slots of its two qubits in the map')
    # every arm goes through the map
    sp = ck.fn('gate::Gate::add_spider')
    ok = any(c.get('k') == 'MethodCall' and c['name'] == 'get' and hir.local_name(c['recv']) == 'qs' for c in hir.calls(sp['hir']))
    ck.ob('R-DATAFLOW', 'add_spider/through-map', ok, ck.site('gate::Gate::add_spider'), 'add_spider must look the qubit up in the qubit->slot map before touching outputs()[i]')
    for v in ('SWAP', 'InitAncilla', 'PostSelect', 'Measure', 'MeasureReset'):
        body = arms[v]['body']
        direct = [x for x in hir.nodes(body) if x.get('k') == 'Index' and hir.strip(x['e']).get('k') == 'MethodCall' and hir.strip(x['e'])['name'] in ('outputs', 'outputs_mut')
                  and gatesem._qpos(x['i']) is not None]
        ck.ob('R-DATAFLOW', 'add_to_graph/%s/through-map' % v, not direct, ck.site(ATG), '%s indexes the outputs by qubit number instead of by the slot from the map' % v)
    # ---- D3
    gk = 'gate::Gate::add_ccz_postselected'
    ck.fn(gk)
    rs = redge.raw_sites(facts, [gk])
    for i, (key, c, just, detail) in enumerate(rs):
        ck.ob3('R-EDGE', '%s/edge-%d' % (gk, i), redge.verdict(just, detail), ck.site(key, c), 'gadget edge `%s` is a raw insertion between two pre-existing vertices' % hir.pp(c)[:60])
    ck.floor('R-EDGE', len(rs), 8)
    sc = [c for c in hir.calls(facts['fns'][gk]['hir']) if hir.callee(c) == 'scalar::Scalar4::new']
    ok = False
    if len(sc) == 1:
        items = hir.vec_literal(sc[0]['args'][0]) or []
        ok = [hir.lit_int(i) for i in items] == [0, 1, 0, 0] and hir.lit_int(sc[0]['args'][1]) == 2
    ck.ob('R-TABLE-graph', 'add_ccz_postselected/scalar', ok, ck.site(gk), 'the gadget scalar must be omega * 2^2')
    # the three two-qubit arms add an edge between two spiders that were boundary-adjacent a moment ago: named exceptions
    for v in ('CNOT', 'CZ', 'XCX'):
        ck.exception('add_to_graph/%s/connector' % v, 'both endpoints were created by add_spider on two different wires in this arm: no edge can exist between them')
    # ---- D4
    la = ck.fn('simplify::local_ap_simp')
    calls = [hir.callee(c) for c in hir.calls(la['hir']) if (hir.callee(c) or '').startswith('basic_rules::')]
    bad = [c for c in calls if c.endswith('_unchecked') or c.split('::')[1].startswith('check_')]
    ck.ob('R-WHO', 'local_ap_simp/only-checked-rules', bool(calls) and not bad, ck.site('simplify::local_ap_simp'), 'local_ap_simp applies unchecked rules directly: %s' % bad, sample={'rules': calls})
    tg = hir.calls_to(f['hir'], 'simplify::local_ap_simp')
    ck.ob('R-WHO', 'to_graph_with_options/simplifier', len(tg) == 1, ck.site(TGO), 'simplify-while-building must go through local_ap_simp')
    # positive controls
    fx = fixture()
    t2 = gatesem.graph_table(fx, 'gate::Gate::add_to_graph_ctl')
    ck.control('R-TABLE-graph flags a CZ drawn with a plain edge', t2 is not None and t2[0]['CZ'][0] != expected_graph('CZ'))


def run(ck, **kw):
    _run_own(ck)
    if kw.get('own_only'):
        return        # (included by a property that already evaluates C01's clauses through another dependency)
    ck.include('C01', 'the simplifier that runs while the diagram is built, and on every diagram it hands on, may apply a rule only under a matcher that establishes its precondition', parts=['D1', 'D2'])
