"""C10 — boolean parameters: phase/vars co-transfer, vars-consistency of scalars, handle-or-require-absent,
Parity/Expr normal forms, measurement arms."""
import os
import re
import sys
from fractions import Fraction as Fr

from .. import minirust, hir, reffect, rvars, rmatch, rencap, rtable
from ..rmatch import V, closure_lits
from ..controls import fixture

sys.path.insert(0, os.path.dirname(os.path.dirname(os.path.dirname(os.path.abspath(__file__)))))
from refs import rules_req as R  # noqa: E402

TRANSFER_FNS = ['basic_rules::spider_fusion_unchecked', 'basic_rules::local_comp_unchecked', 'basic_rules::pivot_unchecked', 'basic_rules::gadget_fusion_unchecked',
                'basic_rules::remove_duplicate_unchecked', 'simplify::fuse_gadgets', 'basic_rules::pi_copy_unchecked', 'basic_rules::remove_id_unchecked',
                'basic_rules::color_change_unchecked', 'basic_rules::unfuse_gadget', 'basic_rules::unfuse_boundary', 'simplify::remove_gadget_pi']

CONSISTENCY = {
    'basic_rules::pi_copy_unchecked': {},
    'basic_rules::remove_single_unchecked': {},
    'basic_rules::local_comp_unchecked': {'v': [Fr(1, 2), Fr(-1, 2)]},          # matcher: proper Clifford
    'basic_rules::pivot_unchecked': {'v0': [Fr(0), Fr(1)], 'v1': [Fr(0), Fr(1)]},  # matcher: Pauli
    'basic_rules::remove_pair_unchecked': {},
}

def _phase_args(text):
    """arguments X of every `phase(X)` occurrence (balanced parentheses)"""
    out = []
    i = 0
    while True:
        j = text.find('phase(', i)
        if j < 0:
            break
        k = j + 6
        depth = 1
        while k < len(text) and depth:
            if text[k] == '(':
                depth += 1
            elif text[k] == ')':
                depth -= 1
            k += 1
        out.append(text[j + 6:k - 1])
        i = j + 6
    return out


def _loops(ctx):
    return tuple(c for c in ctx if c.startswith(('each', 'for')))


def co_transfer(facts, key):
    """[(ok, target, source, why)] — wherever phase(x) flows into add_to_phase(y, ..) with x != y, vars(x) must flow into add_to_vars(y, ..) in the same loop context"""
    ex = reffect.Exec(facts, key).run()
    res = []
    vars_atoms = [(c, m, a) for c, m, a in ex.atoms if m in ('add_to_vars', 'set_vars')]
    for ctx, m, a in ex.atoms:
        if m not in ('add_to_phase', 'set_phase'):
            continue
        tgt = reffect.show(a[0])
        ph = reffect.show(ex.as_phase(a[1]))
        for src in sorted(set(_phase_args(ph))):
            if src == tgt:
                continue
            # accumulated sums: sum[ctx](phase(v)) — the source is the loop element inside the sum
            want_plain = 'vars(%s)' % src
            ok = False
            for vc, vm, va in vars_atoms:
                if reffect.show(va[0]) != tgt or _loops(vc) != _loops(ctx):
                    continue
                vt = reffect.show(va[1])
                if want_plain in vt:
                    # same accumulation structure: both inside a sum over the same loops, or neither
                    sum_p = re.findall(r'sum\[([^\]]*)\]\(([^()]*phase\(%s\)[^()]*)\)' % re.escape(src), ph)
                    sum_v = re.findall(r'sum\[([^\]]*)\]', vt)
                    if bool(sum_p) == bool(sum_v) and (not sum_p or sum_p[0][0] in sum_v):
                        ok = True
            res.append((ok, tgt, src, 'phase(%s) is added to %s but vars(%s) is not (a spider with parity b behaves as phase p + b*pi: the parity must travel with the phase)' % (src, tgt, src)))
    return res, ex


def handled_vars(facts, rule):
    """vertex parameters whose parities the rule transfers or factors (directly or through a called rule)"""
    lines, _u = reffect.effects_of(facts, rule)
    out = set()
    f = facts['fns'][rule]
    vps = [p['name'] for p, t in zip(f['params'], f['inputs']) if t == 'usize' and p.get('k') == 'Bind']
    for l in lines:
        for v in vps:
            if 'vars(%s)' % v in l:
                out.add(v)
        m = re.search(r'call (\w+)\(([^)]*)\)', l)
        if m and ('basic_rules::' + m.group(1)) in facts['fns']:
            callee = 'basic_rules::' + m.group(1)
            args = [x.strip() for x in m.group(2).split(',')]
            cf = facts['fns'][callee]
            cps = [p['name'] for p, t in zip(cf['params'], cf['inputs']) if t == 'usize' and p.get('k') == 'Bind']
            sub = handled_vars(facts, callee) if callee != rule else set()
            for cp, a in zip(cps, args):
                if cp in sub and a in vps:
                    out.add(a)
    return out


def handle_or_absent(facts):
    """D3: [(ok, matcher, rule, vertex, why)]"""
    res = []
    eng = rmatch.Engine(facts)
    seen = set()
    for wrapper, (matcher, rule) in sorted(R.WRAPPERS.items()):
        if (matcher, rule) in seen:
            continue
        seen.add((matcher, rule))
        f, ds, cx = eng.matcher(matcher)
        if not ds:
            continue
        closed = [closure_lits(d) for d in ds]
        must = set.intersection(*[set(c) for c in closed]) if closed else set()
        fn = facts['fns'][matcher]
        vps = [p['name'] for p, t in zip(fn['params'], fn['inputs']) if t == 'usize' and p.get('k') == 'Bind']
        handled = handled_vars(facts, rule)
        rf = facts['fns'][rule]
        rps = [p['name'] for p, t in zip(rf['params'], rf['inputs']) if t == 'usize' and p.get('k') == 'Bind']
        ren = dict(zip(vps, rps))
        for v in vps:
            phase_fact = any(pol and a[0] == 'phase' and a[1] == V(v) for (pol, a) in must)
            if not phase_fact:
                continue
            absent = (True, ('vars_empty', V(v))) in must
            ok = absent or ren.get(v, v) in handled
            res.append((ok, matcher, rule, v, 'the matcher constrains the phase of %s but neither requires its parity to be absent nor does the rule transfer/factor it: with an odd parity the vertex has a different phase' % v))
    return res


# ---------------------------------------------------------------- D4 Parity / Expr

def parity_eval(f, vars_, flag):
    """evaluate a Parity recogniser body on the concrete value Parity(vars_, flag)"""
    def ev(e):
        e = hir.strip(e)
        k = e.get('k')
        v = hir.lit_int(e)
        if v is not None:
            return v
        b = hir.lit_bool(e)
        if b is not None:
            return b
        if k == 'Block' and len(hir.stmts_of(e)) == 1:
            return ev(hir.stmts_of(e)[0])
        if k == 'Binary' and e['op'] == 'And':
            return ev(e['l']) and ev(e['r'])
        if k == 'Binary' and e['op'] == 'Or':
            return ev(e['l']) or ev(e['r'])
        if k == 'Unary' and e['op'] == 'Not':
            return not ev(e['e'])
        if k == 'Binary' and e['op'] in ('Eq', 'Ne', 'Lt', 'Le', 'Gt', 'Ge'):
            a, b2 = ev(e['l']), ev(e['r'])
            return {'Eq': a == b2, 'Ne': a != b2, 'Lt': a < b2, 'Le': a <= b2, 'Gt': a > b2, 'Ge': a >= b2}[e['op']]
        if k == 'Field' and hir.local_name(e['e']) == 'self':
            return list(vars_) if e['name'] == '0' else flag
        if k == 'MethodCall' and not e['args']:
            r = hir.strip(e['recv'])
            base = list(vars_) if hir.local_name(r) == 'self' else ev(r)
            if e['name'] == 'len':
                return len(base)
            if e['name'] == 'is_empty':
                return len(base) == 0
        if k == 'Index':
            b2 = hir.strip(e['e'])
            base = list(vars_) if hir.local_name(b2) == 'self' else ev(b2)
            i = ev(e['i'])
            if i >= len(base):
                raise IndexError()
            return base[i]
        raise ValueError('not understood: %s' % hir.pp(e)[:40])
    return ev(f['hir'])


def ctor_literal(f):
    """(vars list, flag) of `Parity([..].into(), flag)` built by a constructor"""
    for c in hir.calls(f['hir']):
        if (hir.callee(c) or '').endswith('params::Parity') or hir.strip(c['fun']).get('res', {}).get('path', '').endswith('params::Parity') if c.get('k') == 'Call' else False:
            items = None
            for n in hir.nodes(c['args'][0]):
                if n.get('k') == 'Array':
                    items = [hir.lit_int(x) for x in n['items']]
            fl = hir.lit_bool(c['args'][1])
            if items is not None and fl is not None and all(x is not None for x in items):
                return items, fl
    return None


def quadratic_shape(f):
    swaps = [n for n in hir.nodes(f['hir']) if n.get('k') == 'If' and hir.strip(n['cond']).get('k') == 'Binary' and hir.strip(n['cond'])['op'] in ('Gt', 'Lt')]
    drop = False
    dedup = False
    for n in hir.nodes(f['hir']):
        if n.get('k') == 'If':
            ctext = hir.pp(n['cond'])
            if 'is_one' in ctext and any(hir.callee(c) == 'params::Parity::is_one' for c in hir.calls(n['cond'])):
                drop = True
            if any(x.get('k') == 'Binary' and x['op'] == 'Eq' for x in hir.nodes(n['cond'])):
                dedup = True
    return bool(swaps), drop, dedup


def scalar_factor_collision(f):
    """mul_scalar_factor: on an existing key the stored factor is multiplied (not overwritten); otherwise inserted"""
    mul = [n for n in hir.nodes(f['hir']) if n.get('k') == 'AssignOp' and n['op'] == 'MulAssign']
    over = [n for n in hir.nodes(f['hir']) if n.get('k') == 'Assign' and hir.strip(n['l']).get('k') == 'Unary']
    ins = [c for c in hir.calls(f['hir']) if c.get('k') == 'MethodCall' and c['name'] in ('insert', 'push', 'or_insert', 'or_insert_with')]
    return len(mul) == 1 and not over and len(ins) >= 1


def measure_arm_descriptor(arm_body):
    """how a measurement arm attaches a parity to its X effect"""
    d = {}
    for n in hir.nodes(arm_body):
        if n.get('k') == 'If':
            c = hir.strip(n['cond'])
            inner = hir.strip(c['e']) if c.get('k') == 'Unary' and c['op'] == 'Not' else None
            if inner is not None and inner.get('k') == 'MethodCall' and inner['name'] == 'is_empty':
                recv = hir.strip(inner['recv'])
                if recv.get('k') == 'Field' and recv['name'] == 'vars':
                    tb, eb = hir.stmts_of(n['then']), hir.stmts_of(n['else']) if n.get('else') else []
                    sv_t = [hir.strip(s) for s in tb if hir.strip(s).get('k') == 'MethodCall' and hir.strip(s)['name'] == 'set_vars']
                    sv_e = [hir.strip(s) for s in eb if hir.strip(s).get('k') == 'MethodCall' and hir.strip(s)['name'] == 'set_vars']
                    inc = [hir.strip(s) for s in eb if hir.strip(s).get('k') == 'AssignOp' and hir.strip(s)['op'] == 'AddAssign' and hir.lit_int(hir.strip(s)['r']) == 1]
                    given = bool(sv_t) and any(x.get('k') == 'Field' and x['name'] == 'vars' for x in hir.nodes(sv_t[0]['args'][1]))
                    fresh = bool(sv_e) and any((hir.callee(x) or '') == 'params::Parity::single' for x in hir.calls(sv_e[0]['args'][1]))
                    same_target = bool(sv_t and sv_e) and hir.same_expr(sv_t[0]['args'][0], sv_e[0]['args'][0])
                    tgt = sv_t[0]['args'][0] if sv_t else None
                    x_typed = tgt is not None and any(c2.get('k') == 'MethodCall' and c2['name'] == 'set_vertex_type' and hir.same_expr(c2['args'][0], tgt) and (hir.def_path(c2['args'][1]) or '').endswith('VType::X') for c2 in hir.calls(arm_body))
                    d = {'given-parity-used': given, 'fresh-variable-otherwise': fresh, 'counter-incremented-once-when-fresh': len(inc) == 1 and not [s for s in tb if hir.strip(s).get('k') == 'AssignOp'],
                         'same-target': same_target, 'target-is-the-X-effect': x_typed}
    return d


# ---------------------------------------------------------------- D5 by evaluation on a tracing host graph (round 2)

class _Counter:
    """the fresh-variable counter behind `&mut Var`: `*fresh_var += 1` mutates it in place so that helpers see the same cell"""

    def __init__(self, v):
        self.v, self.incs = v, 0

    def __add__(self, k):
        if isinstance(k, int) and not isinstance(k, bool):
            self.v += k
            self.incs += 1 if k == 1 else 99
            return self
        raise minirust.NoEval('counter + %r' % (k,))

    def __repr__(self):
        return 'var#%d' % self.v


class _EC:
    def __init__(self, name):
        self.name = name

    def __eq__(self, o):
        if isinstance(o, _EC):
            return o.name == self.name
        return isinstance(o, tuple) and len(o) == 2 and o[0] == 'const' and str(o[1]).rsplit('::', 1)[-1] == self.name

    def __ne__(self, o):
        return not self == o
    __hash__ = None


def _measure_host(log):
    outputs = [11, 12, 13]
    types = {11: 'B', 12: 'B', 13: 'B'}
    nxt = [20]

    def set_ty(a):
        t = a[1]
        types[a[0]] = t[1].rsplit('::', 1)[-1] if isinstance(t, tuple) else getattr(t, 'name', '?')
        log.append(('set_vertex_type', a[0], types[a[0]]))

    def add_v(a):
        nxt[0] += 1
        d = a[0] if a and isinstance(a[0], dict) else {}
        t = d.get('ty')
        types[nxt[0]] = t[1].rsplit('::', 1)[-1] if isinstance(t, tuple) else (a[0][1].rsplit('::', 1)[-1] if a and isinstance(a[0], tuple) else '?')
        log.append(('add_vertex', nxt[0], types[nxt[0]]))
        return nxt[0]
    sc = minirust.Obj('scalar', {'mul_sqrt2_pow': lambda a: log.append(('sqrt2', a[0]))}, strict=False)
    g = minirust.Obj('graph', {
        'outputs': lambda a: outputs, 'outputs_mut': lambda a: outputs, 'vertex_type': lambda a: _EC(types.get(a[0], '?')),
        'set_vertex_type': set_ty, 'set_vars': lambda a: log.append(('set_vars', a[0], a[1])), 'add_to_vars': lambda a: log.append(('add_to_vars', a[0], a[1])),
        'scalar_mut': lambda a: sc, 'qubit': lambda a: 0.0, 'row': lambda a: 1.0, 'add_vertex_with_data': add_v, 'add_vertex': add_v,
        'add_edge': lambda a: log.append(('add_edge', a[0], a[1])), 'add_edge_with_type': lambda a: log.append(('add_edge', a[0], a[1])),
        'set_outputs': lambda a: (outputs.__setitem__(slice(None), list(a[0])), None)[1],
    }, strict=False)
    return g, outputs


def measure_semantics(facts, kind):
    """Gate::add_to_graph evaluated for a measurement gate on qubit 1 of three wires, with and without a parity of its own.
    -> {clause: (ok, detail)}; raises NoEval / Proceed when the evaluator declines."""
    key = 'gate::Gate::add_to_graph'
    f = facts['fns'][key]
    ps = [p for p in f['params'] if p.get('k') == 'Bind']
    if [p['name'] for p in ps][:4] != ['self', 'fresh_var', 'graph', 'qs'] or len(ps) != 5:
        raise minirust.NoEval('signature of add_to_graph')
    res = {}
    for has_vars in (True, False):
        log = []
        g, outputs = _measure_host(log)
        own = minirust.Obj('parity', {'is_empty': lambda a, h=has_vars: not h, 'is_zero': lambda a, h=has_vars: not h}, strict=False)
        own.methods['clone'] = lambda a, o=own: o
        gate = {'__struct__': 'gate::Gate', 't': ('const', 'gate::GType::' + kind), 'qs': [1], 'phase': 0, 'vars': own}
        cnt = _Counter(7)
        it = minirust.Interp(fuel=6000, facts=facts, inline=lambda c: c.startswith('gate::Gate::') and c != 'gate::Gate::add_to_graph')

        def host_call(c, e, args):
            if c == 'params::Parity::single':
                a = args()
                x = a[0]
                return ('single', x.v if isinstance(x, _Counter) else x)
            if c.endswith('Default::default'):
                return {}
            return NotImplemented
        it.host_call = host_call
        env = {ps[0]['id']: gate, ps[1]['id']: cnt, ps[2]['id']: g, ps[3]['id']: {0: 0, 1: 1, 2: 2}, ps[4]['id']: False}
        try:
            it.ev(f['hir'], env)
        except minirust._Return:
            pass
        sv = [x for x in log if x[0] in ('set_vars', 'add_to_vars')]
        xs = [x[1] for x in log if x[0] == 'set_vertex_type' and x[2] == 'X']
        tag = 'gate with its own parity' if has_vars else 'gate without a parity'
        if has_vars:
            res['given-parity-used'] = (len(sv) == 1 and sv[0][0] == 'set_vars' and sv[0][2] is own, '%s: parities attached: %s' % (tag, [(x[0], x[1], 'own' if x[2] is own else x[2]) for x in sv]))
            res['counter-untouched-when-given'] = (cnt.incs == 0 and cnt.v == 7, '%s: the fresh-variable counter moved from 7 to %d' % (tag, cnt.v))
            res['target-is-the-X-effect/given'] = (len(sv) == 1 and xs == [12] and sv[0][1] == 12, '%s: parity attached to %s, vertices turned into X effects: %s (the measured output is 12)' % (tag, [x[1] for x in sv], xs))
        else:
            res['fresh-variable-otherwise'] = (len(sv) == 1 and sv[0][0] == 'set_vars' and sv[0][2] == ('single', 7), '%s: parities attached: %s (the next fresh variable is 7)' % (tag, [(x[0], x[1], x[2]) for x in sv]))
            res['counter-incremented-once-when-fresh'] = (cnt.incs == 1 and cnt.v == 8, '%s: the fresh-variable counter moved from 7 to %d in %d steps' % (tag, cnt.v, cnt.incs))
            res['target-is-the-X-effect/fresh'] = (len(sv) == 1 and xs == [12] and sv[0][1] == 12, '%s: parity attached to %s, vertices turned into X effects: %s (the measured output is 12)' % (tag, [x[1] for x in sv], xs))
    return res


# ---------------------------------------------------------------- params.rs evaluated exhaustively over two variables (round 2)

PAR = 'params::Parity'


def _par(vs, flip):
    return {'__struct__': PAR, '0': list(vs), '1': flip}


def _pcall(facts, key, args):
    it = minirust.Interp(fuel=100000, facts=facts, inline=lambda c: c.startswith(('params::', '<params::', '<&params::')))
    return it.local_call(key, args)


def _pval(p, x):
    """value of a parity under the assignment x (dict var -> 0/1)"""
    if not (isinstance(p, dict) and p.get('__struct__') == PAR and isinstance(p.get('0'), list) and isinstance(p.get('1'), bool)):
        raise minirust.NoEval('not a Parity: %r' % (p,))
    return (sum(x[v] for v in p['0']) + (1 if p['1'] else 0)) % 2


def ev_params(facts):
    """Parity / Expr over the variables {0, 1, 2}: every parity with sorted distinct variables, both flips.  -> ({clause: (ok, counterexample)}, evaluations)"""
    import itertools
    res = dict((k, [True, '']) for k in ('parity-add', 'constants-and-recognisers', 'negated', 'from-vec', 'quadratic/value', 'quadratic/normal-form'))
    n = 0

    def fail(k, msg):
        if res[k][0]:
            res[k] = [False, msg]
    vars_ = (0, 1, 2)
    pars = [_par(vs, f) for r in range(0, 4) for vs in itertools.combinations(vars_, r) for f in (False, True)]
    assigns = [dict(zip(vars_, bits)) for bits in itertools.product((0, 1), repeat=3)]

    def show(p):
        return '%s%s' % (p['0'], '+1' if p['1'] else '')
    ADD = '<&%s as std::ops::Add<&%s>>::add' % (PAR, PAR)
    one, zero = _pcall(facts, PAR + '::one', []), _pcall(facts, '<%s as num::Zero>::zero' % PAR, [])
    n += 2
    if not all(_pval(one, x) == 1 for x in assigns) or one['0'] != [] or not all(_pval(zero, x) == 0 for x in assigns) or zero['0'] != []:
        fail('constants-and-recognisers', 'one() = %s, zero() = %s' % (show(one), show(zero)))
    for p in pars:
        io, iz = _pcall(facts, PAR + '::is_one', [p]), _pcall(facts, '<%s as num::Zero>::is_zero' % PAR, [p])
        ie, ln = _pcall(facts, PAR + '::is_empty', [p]), _pcall(facts, PAR + '::len', [p])
        n += 4
        if io != (p['0'] == [] and p['1']) or iz != (p['0'] == [] and not p['1']) or ie != (p['0'] == []) or ln != len(p['0']):
            fail('constants-and-recognisers', 'on %s: is_one %s, is_zero %s, is_empty %s, len %s' % (show(p), io, iz, ie, ln))
        ng = _pcall(facts, PAR + '::negated', [p])
        n += 1
        if ng['0'] != p['0'] or ng['1'] == p['1']:
            fail('negated', 'negated(%s) = %s' % (show(p), show(ng)))
        for q in pars:
            r = _pcall(facts, ADD, [p, q])
            n += 1
            want_vars = sorted(set(p['0']) ^ set(q['0']))
            if r['0'] != want_vars or r['1'] != (p['1'] != q['1']):
                fail('parity-add', '%s + %s = %s, expected %s%s' % (show(p), show(q), show(r), want_vars, '+1' if p['1'] != q['1'] else ''))
            e1 = _pcall(facts, 'params::Expr::quadratic', [minirust.deep_clone(p), minirust.deep_clone(q)])
            e2 = _pcall(facts, 'params::Expr::quadratic', [minirust.deep_clone(q), minirust.deep_clone(p)])
            n += 2
            fs = e1.get('0') if isinstance(e1, dict) else None
            if not isinstance(fs, list) or not fs:
                raise minirust.NoEval('quadratic returned %r' % (e1,))
            for x in assigns:
                if (_pval(p, x) & _pval(q, x)) != min(_pval(f_, x) for f_ in fs):
                    fail('quadratic/value', 'quadratic(%s, %s) = %s does not denote the product of its arguments' % (show(p), show(q), [show(f_) for f_ in fs]))
                    break
            key = [(f_['0'], f_['1']) for f_ in fs]
            is_one = lambda f_: f_['0'] == [] and f_['1']
            is_zero = lambda f_: f_['0'] == [] and not f_['1']
            # (a constant-false factor makes the whole expression false whatever else is kept: products with zero are outside the normal-form clause)
            degenerate = is_zero(p) or is_zero(q)
            if e1 != e2 or key != sorted(key) or len(set(map(str, key))) != len(key) or (not degenerate and len(fs) > 1 and any(is_one(f_) for f_ in fs)):
                fail('quadratic/normal-form', 'quadratic(%s, %s) = %s and with the arguments exchanged %s: the factors must be sorted, without duplicates and without a constant-one factor, whatever the order of the arguments'
                     % (show(p), show(q), [show(f_) for f_ in fs], [show(f_) for f_ in (e2.get('0') or [])]))
    fk = [k for k in facts['fns'] if k.startswith('<%s as std::convert::From<std::vec::Vec<' % PAR)]
    for key in fk:
        for vs in ([], [2, 0, 1], [1, 1, 0], [5]):
            r = _pcall(facts, key, [list(vs)])
            n += 1
            if r['0'] != sorted(vs) or r['1'] is not False:
                fail('from-vec', 'Parity::from(%s) = %s (sorted, not flipped; duplicates are documented as kept)' % (vs, show(r)))
    return dict((k, tuple(v)) for k, v in res.items()), n


def slot_shift_semantics(facts, kind):
    """the measured / post-selected wire leaves the qubit -> output-slot map: evaluated for every one of the six maps on three wires (a SWAP makes the
    map non-monotone) and every qubit.  Afterwards the qubit is forgotten, its output slot is gone, every slot above it moved down by one and the
    remaining qubits still point at their own outputs.  -> (ok, detail)"""
    import itertools
    key = 'gate::Gate::add_to_graph'
    f = facts['fns'][key]
    ps = [p for p in f['params'] if p.get('k') == 'Bind']
    if [p['name'] for p in ps][:4] != ['self', 'fresh_var', 'graph', 'qs'] or len(ps) != 5:
        raise minirust.NoEval('signature of add_to_graph')
    n = 0
    for perm in itertools.permutations(range(3)):
        for q in range(3):
            log = []
            g, outputs = _measure_host(log)
            before = list(outputs)
            own = minirust.Obj('parity', {'is_empty': lambda a: False, 'is_zero': lambda a: False}, strict=False)
            own.methods['clone'] = lambda a, o=own: o
            gate = {'__struct__': 'gate::Gate', 't': ('const', 'gate::GType::' + kind), 'qs': [q], 'phase': 0, 'vars': own}
            qs = dict(zip(range(3), perm))
            it = minirust.Interp(fuel=6000, facts=facts, inline=lambda c: c.startswith('gate::Gate::') and c != 'gate::Gate::add_to_graph')
            it.host_call = lambda c, e, args: ('single', 0) if c == 'params::Parity::single' else ({} if c.endswith('Default::default') else NotImplemented)
            env = {ps[0]['id']: gate, ps[1]['id']: _Counter(7), ps[2]['id']: g, ps[3]['id']: qs, ps[4]['id']: False}
            try:
                it.ev(f['hir'], env)
            except minirust._Return:
                pass
            n += 1
            slot = perm[q]
            if kind == 'MeasureReset':
                want_qs = dict(zip(range(3), perm))
                ok = qs == want_qs and len(outputs) == 3 and [o for i, o in enumerate(outputs) if i != slot] == [o for i, o in enumerate(before) if i != slot]
            else:
                want_qs = dict((k, v - (1 if v > slot else 0)) for k, v in zip(range(3), perm) if k != q)
                ok = qs == want_qs and outputs == [o for i, o in enumerate(before) if i != slot]
            if not ok:
                return False, ('%s of qubit %d with the qubit -> slot map %s: the map becomes %s and the outputs %s; expected the map %s and the outputs %s'
                               % (kind, q, dict(zip(range(3), perm)), qs, outputs, want_qs, [o for i, o in enumerate(before) if i != slot] if kind != 'MeasureReset' else 'with only slot %d replaced' % slot)), n
    return True, '', n


# uninterpreted guard conditions / early exits present in today's rule bodies (counted 2026-09-26): only ADDITIONAL ones make a mismatch undecided
BASELINE_OPAQUE = {'basic_rules::remove_pair_unchecked': 4}
BASELINE_EXITS = {}


def run(ck):
    facts = ck.facts
    ck.decided('D1 phase/vars co-transfer: wherever a vertex\'s phase flows into another vertex\'s phase, its parity flows there too, in the same loop context (also through loop accumulators)',
               'D2 vars-consistency of scalars: for pi-copy, local comp, pivot, remove single, remove pair the scalar effect with parities present equals the parameter-free effect at phases shifted by the parities, for every presence pattern and every assignment (exact algebra in Q(omega))',
               'D3 a rule either handles a vertex\'s parameters or its matcher requires them absent',
               'D4 Parity/Expr normal forms: zero()/is_zero and one()/is_one agree (recogniser evaluated on the constructor\'s literal and on a single variable), Expr::quadratic sorts, drops a constant-one factor and deduplicates, tuple fields private, both back ends multiply scalar factors on key collision',
               'D5 Measure and MeasureReset both attach the given parity or a fresh variable (counter incremented exactly when fresh) to their X effect')
    ck.not_decided('the merge loop of Parity + Parity (value-level)', 'instantiation semantics', 'circuits with measurements end to end', 'that adjoint conjugates parametrised scalar factors (outside the statement)')
    # D0: the statement itself on the members of the small-diagram family (C04, qxlib/zxsem.py) that carry boolean variables: every checked rule, every assignment
    ck.decided('D0 (evaluation, small scope) on every diagram of the small-diagram family that carries boolean variables, every checked rule of basic_rules leaves the denoted map unchanged under EVERY assignment of the variables '
               '(a spider with parity b is evaluated at phase p + b*pi, a parametrised scalar factor is applied exactly when its expression is true), or returns false and leaves the diagram untouched')
    from . import C04 as _c04
    plan = [('one-core', 'vec_graph::Graph', 1), ('gadgets', 'vec_graph::Graph', 1), ('two-cores', 'vec_graph::Graph', 3), ('boundary', 'vec_graph::Graph', 1), ('one-core', 'hash_graph::Graph', 5), ('boundary', 'hash_graph::Graph', 5)] \
        if ck.tier == 'thorough' else [('one-core', 'vec_graph::Graph', 17), ('gadgets', 'vec_graph::Graph', 17), ('two-cores', 'vec_graph::Graph', 151), ('boundary', 'vec_graph::Graph', 11), ('boundary', 'hash_graph::Graph', 61)]
    _c04.ev_rules(ck, plan=plan, vars_only=True, rule_name='E3-rules-vars')
    # D1
    nt = 0
    for key in TRANSFER_FNS:
        ck.fn(key)
        res, ex = co_transfer(facts, key)
        for i, (ok, tgt, src, why) in enumerate(res):
            nt += 1
            ck.ob('R-PAIR-cotransfer', '%s/%s<-%s' % (key, tgt, src), ok, ck.site(key), why, sample={'target': tgt, 'source': src})
    ck.floor('R-PAIR-cotransfer', nt, 7)
    # D2
    for key, dom in CONSISTENCY.items():
        ck.fn(key)
        r = rvars.check_rule(facts, key, dom)
        analysable = r['effects'] >= 1 and r['unknown'] == 0 and r['checked'] >= 2
        # conditions the walker could not interpret are explored as free booleans; a mismatch that appears only with such free conditions
        # (or after an early exit whose negation is not tracked) is not a refutation
        baseline = BASELINE_OPAQUE.get(key, 0)
        if not analysable or ((r['opaque'] > baseline or r.get('early_exits', 0) > BASELINE_EXITS.get(key, 0)) and r['mismatches']):
            ck.ob3('R-VARS-consistency', key, None if (r['mismatches'] or not analysable) else True, ck.site(key),
                   'the scalar effects of the rule are guarded by conditions the rule does not interpret (%d uninterpreted conditions, %d early exits, %d effects with unknown values): vars-consistency is not decided' % (r['opaque'], r.get('early_exits', 0), r['unknown']))
            continue
        ck.ob('R-VARS-consistency', key + '/analysable', True, ck.site(key), '', sample={k: (v if k != 'mismatches' else len(v)) for k, v in r.items()})
        ck.ob('R-VARS-consistency', key, not r['mismatches'], ck.site(key),
              'with boolean parameters the scalar differs from the parameter-free scalar at the shifted phases in %d of %d cases, e.g. %s' % (len(r['mismatches']), r['checked'], r['mismatches'][:2]),
              sample={'checked': r['checked'], 'symbols': r['symbols']})
    # D3
    ha = handle_or_absent(facts)
    for ok, matcher, rule, v, why in ha:
        ck.ob('R-VARS-handle', '%s/%s' % (rule, v), ok, ck.site(matcher), why, sample={'matcher': matcher, 'vertex': v})
    ck.floor('R-VARS-handle', len(ha), 6)
    # the inline matcher of fuse_gadgets: the hub's phase is constrained (zero), so its parity must be absent
    from .C01 import fuse_gadgets_point, CENTRE
    ds, _cx = fuse_gadgets_point(facts)
    if not ds:
        ck.violation('R-VARS-handle', 'simplify::fuse_gadgets/centre', ck.site('simplify::fuse_gadgets'), 'anchor-missing: gadget record point not found')
    else:
        closed = [closure_lits(d) for d in ds]
        ph = all(any(pol and a[0] == 'phase' and a[1] == CENTRE for (pol, a) in fs) for fs in closed)
        ab = all((True, ('vars_empty', CENTRE)) in fs for fs in closed)
        ck.ob('R-VARS-handle', 'simplify::fuse_gadgets/centre', (not ph) or ab, ck.site('simplify::fuse_gadgets'),
              'fuse_gadgets constrains the phase of a gadget hub but does not require its parity to be absent: a hub with an odd parity is a pi hub, which negates the gadget angle')
    # D4
    P = 'params::Parity'
    params_decided = False
    try:
        sem, nev = ev_params(facts)
        for name, (ok, cex) in sorted(sem.items()):
            rule = 'R-NORMAL-FORM' if name.startswith('quadratic') else 'R-CTOR-RECOG' if name == 'constants-and-recognisers' else 'E3-params'
            ck.ob(rule, ('Expr::' if name.startswith('quadratic') else 'Parity/') + name, ok, 'quizx/src/params.rs', 'params.rs evaluated over every parity on three variables (%d evaluations): %s' % (nev, cex), sample={'evaluations': nev})
        ck.floor('E3-params-evaluations', nev, 854)
        ck.note('params.rs: decided by evaluation over every parity on three variables (%d evaluations)' % nev)
        params_decided = True
    except minirust.Panics as ex:
        ck.ob('E3-params', 'no-panic', False, 'quizx/src/params.rs', 'a parity operation panics on a small parity: %s' % ex)
        params_decided = True
    except (minirust.NoEval, minirust.Proceed, TypeError, KeyError, IndexError, AttributeError, ValueError) as ex:
        ck.note('params.rs: the evaluator declined (%s); syntactic readings used, positive matches only' % ex)
    for ctor, rec, other in (('params::Parity::one', 'params::Parity::is_one', ([0], False)), ('<params::Parity as num::Zero>::zero', '<params::Parity as num::Zero>::is_zero', ([], True))):
        cf, rf = ck.fn(ctor), ck.fn(rec)
        if params_decided:
            continue
        lit = ctor_literal(cf)
        if lit is None:
            ck.violation('R-CTOR-RECOG', ctor + '/literal', ck.site(ctor), 'constructor literal not recognised (anchor-missing)')
            continue
        try:
            acc = parity_eval(rf, lit[0], lit[1])
        except IndexError:
            acc = 'panics'
        except ValueError as ex:
            acc = str(ex)
        ck.ob3('R-CTOR-RECOG', '%s~%s/accepts-own-constructor' % (ctor.rsplit('::', 1)[1], rec.rsplit('::', 1)[1]), True if acc is True else (False if acc is False else None), ck.site(rec),
               '%s() builds Parity(%s, %s) but %s answers %s on it' % (ctor, lit[0], lit[1], rec, acc), sample={'literal': str(lit), 'recogniser_says': str(acc)})
    if not params_decided:
        qs = quadratic_shape(ck.fn('params::Expr::quadratic'))
        for name, ok in zip(('sorts', 'drops-constant-one', 'deduplicates'), qs):
            ck.ob3('R-NORMAL-FORM', 'Expr::quadratic/' + name, True if ok else None, ck.site('params::Expr::quadratic'), 'Expr::quadratic is not evaluable and was not recognised to %s its factors' % name)
    else:
        ck.fn('params::Expr::quadratic')
    for adt in (P, 'params::Expr'):
        for name, _ty, vis in rencap.adt_fields(facts, adt) or []:
            ck.ob('R-ENCAP', '%s/private-field/%s' % (adt.rsplit('::', 1)[1], name), vis.startswith('Restricted'), adt, 'field %s of %s is visible outside params.rs' % (name, adt))
    for be in ('vec_graph', 'hash_graph'):
        key = '<%s::Graph as graph::GraphLike>::mul_scalar_factor' % be
        ck.ob('R-SIB', key + '/multiply-on-collision', scalar_factor_collision(ck.fn(key)), ck.site(key), 'a second factor for the same boolean expression must be multiplied into the stored one, not replace it')
    # D5
    ag = ck.fn('gate::Gate::add_to_graph')
    ms = rtable.enum_matches(ag, 'gate::GType')
    if len(ms) != 1:
        ck.violation('R-SIB-measure', 'shape', ck.site('gate::Gate::add_to_graph'), 'anchor-missing: no single match over GType')
    else:
        t, _ = rtable.match_table(ms[0], 'gate::GType', rtable.enum_variants(facts, 'gate::GType'))
        descs = {}
        for kind in ('Measure', 'MeasureReset'):
            try:
                sem = measure_semantics(facts, kind)
                for name, (ok, detail) in sorted(sem.items()):
                    ck.ob('R-SIB-measure', '%s/%s' % (kind, name), ok, ck.site('gate::Gate::add_to_graph'), '%s, evaluated on a three-wire diagram: %s' % (kind, detail))
                ck.note('%s: D5 decided by evaluation on a tracing host graph' % kind)
                continue
            except (minirust.NoEval, minirust.Proceed, TypeError, KeyError, IndexError, AttributeError) as ex:
                ck.note('%s: the evaluator declined (%s); syntactic arm descriptor used' % (kind, ex))
                why = str(ex)
            d = measure_arm_descriptor(t[kind]['body'])
            descs[kind] = d
            for name in ('given-parity-used', 'fresh-variable-otherwise', 'counter-incremented-once-when-fresh', 'same-target', 'target-is-the-X-effect'):
                ck.ob3('R-SIB-measure', '%s/%s' % (kind, name), True if d.get(name) else None, ck.site('gate::Gate::add_to_graph'), '%s arm is neither evaluable (%s) nor of the known shape: %s' % (kind, why, name))
        # the measurement arms remove the measured wire from the qubit -> output-slot map exactly like post-selection does (shared rule with C02-D2):
        # a map keyed by anything but the removed slot sends every later gate (and the recorded parities) to the wrong wire once a SWAP made the map non-monotone
        from .C02 import shift_block
        a = shift_block(t['PostSelect']['body'])
        for kind in ('Measure',):
            b = shift_block(t[kind]['body'])
            try:
                okv, detail, nev = slot_shift_semantics(facts, kind)      # decided by evaluating the arm on concrete qubit -> slot maps (as in C02)
                ck.ob('R-SIB-measure', '%s/index-shift' % kind, okv, ck.site('gate::Gate::add_to_graph'), detail, sample={'evaluations': nev})
                continue
            except (minirust.NoEval, minirust.Proceed, TypeError, KeyError, IndexError, AttributeError, ValueError) as ex:
                ck.note('%s: the slot bookkeeping is not evaluable (%s); sibling comparison used, positive matches only' % (kind, ex))
            same = (a == b and len(a) >= 3 and any('> SLOT' in x for x in a))
            ck.ob3('R-SIB-measure', '%s/index-shift' % kind, True if same else None, ck.site('gate::Gate::add_to_graph'),
                  'the %s arm must remove the output slot, forget the qubit and shift every map entry above the removed SLOT down by one, exactly as PostSelect does: %s vs %s' % (kind, b, a))
    # positive controls
    fx = fixture()
    res, _ex = co_transfer(fx, 'simplify::bad_transfer')
    ck.control('R-PAIR-cotransfer flags a phase transferred without its parity', any(not ok for ok, _t, _s, _w in res))
