"""C05 — stabiliser decomposition: parallel = sequential by construction, sums vs products, driver
contracts, replacement edge discipline, dispatch/config tables, structural schemas."""
import os
import sys

from .. import hir, rmatch, redge, reffect, rtable, rencap
from ..rmatch import V, W, Z, H, has, closure_lits, dnf, thaw_formula, Blowup
from ..controls import fixture

sys.path.insert(0, os.path.dirname(os.path.dirname(os.path.dirname(os.path.abspath(__file__)))))

DEC = 'decompose::Decomposer::<G>::'
NODE = 'decompose::ComputationNode'
DECOMP = 'decompose::Decomp'

APPLY_TABLE = {
    'Magic5FromCat': 'decompose::apply_magic5_from_cat_decomp', 'TDecomp': 'decompose::apply_ts_decomp', 'CatDecomp': 'decompose::apply_cat_decomp',
    'BssDecomp': 'decompose::apply_bss_decomp', 'SymDecomp': 'decompose::apply_sym_decomp', 'SingleDecomp': 'decompose::apply_single_decomp',
    'TPairDecomp': 'decompose::apply_tpair_decomp', 'SpiderCuttingDecomp': 'decompose::apply_spider_cutting_decomp',
}


def par_seq_sites(f):
    """`if parallel { A } else { B }` sites with their branch descriptors"""
    out = []
    for n in hir.nodes(f['hir']):
        if n.get('k') == 'If' and hir.local_name(n['cond']) == 'parallel' and n.get('else'):
            out.append((n, _branch_desc(n['then']), _branch_desc(n['else'])))
    return out


def _branch_desc(b):
    """descriptor of one branch: iterated collection, iterator kind, the recursive call (callee, args text), receiver kind, post-processing chain"""
    d = {'iter': None, 'source': None, 'call': None, 'args': None, 'recv': None, 'post': [], 'other_calls': []}
    chain = hir.strip(hir.stmts_of(b)[-1]) if hir.stmts_of(b) else None
    names = []
    e = chain
    while e is not None and e.get('k') == 'MethodCall':
        names.append(e['name'])
        if e['name'] in ('into_par_iter', 'into_iter', 'par_iter', 'iter'):
            d['iter'] = e['name']
            d['source'] = hir.pp(e['recv'])
        e = hir.strip(e['recv'])
    d['post'] = [n for n in reversed(names) if n not in ('into_par_iter', 'into_iter', 'par_iter', 'iter')]
    for c in hir.calls(b):
        cal = hir.callee(c) or ''
        if cal.endswith('::decompose_node'):
            d['call'] = cal
            d['args'] = [hir.pp(a) for a in c['args']]
            r = hir.local(c['recv'])
            if r and r[0] == 'self':
                d['recv'] = 'self'
            elif r:
                # a local: must be a clone of self
                init = None
                for n in hir.nodes(b):
                    if n.get('k') == 'Let' and n['pat'].get('k') == 'Bind' and n['pat']['id'] == r[1] and n.get('init') is not None:
                        init = n['init']
                d['recv'] = 'clone-of-self' if init is not None and hir.local_name(hir.strip(init)) == 'self' else 'other:' + r[0]
        elif cal.startswith('decompose::') or cal.startswith('simplify::'):
            d['other_calls'].append(cal)
    return d


def reductions(node):
    """reduction method names (.sum/.product) and ComputationNode constructors used in a subtree"""
    red = [c['name'] for c in hir.calls(node) if c.get('k') == 'MethodCall' and c['name'] in ('sum', 'product') and (hir.callee(c) or '').startswith('std::iter::Iterator')]
    ctors = []
    for c in hir.calls(node):
        cal = hir.callee(c) or ''
        if c.get('k') == 'Call' and cal.startswith(NODE + '::') and cal.rsplit('::', 1)[1] in ('Sum', 'Prod'):
            ctors.append(cal.rsplit('::', 1)[1])
    return red, ctors


CAT_LEG = [('leg ty=Z', lambda fs: has(fs, ('ty', W, Z))), ('leg is T', lambda fs: has(fs, ('phase', W, 't')))]


def cat_contract(centre):
    def legs(fs):
        for (pol, a) in fs:
            if pol and a[0] == 'forall' and a[1] == ('nbrs', centre):
                try:
                    bd = dnf(thaw_formula(a[2]))
                except Blowup:
                    continue
                ok = bool(bd)
                for d in bd:
                    c = closure_lits(d)
                    if not (has(c, ('ty', W, Z)) and has(c, ('phase', W, 't')) and any(has(c, ('etype', x, y, H)) for x, y in ((centre, W), (W, centre)))):
                        ok = False
                if ok:
                    return True
        return False
    return [('centre ty=Z', lambda fs: has(fs, ('ty', centre, Z))), ('centre Pauli', lambda fs: has(fs, ('phase', centre, 'pauli'))),
            ('the legs are ALL the centre\'s neighbours, each a Z spider with a T phase on a Hadamard edge', legs)]


def cat_ts_facts(facts):
    eng = rmatch.Engine(facts)

    def is_record(s):
        s = hir.strip(s)
        return s.get('k') == 'Assign' and hir.local_name(s['l']) == 'res'
    ds, cx = eng.facts_at('decompose::cat_ts', is_record)
    return ds


def sherlock_cat_facts(facts, key):
    """facts at the point where the Sherlock driver builds a CatDecomp inside its filter_map closure"""
    f = facts['fns'][key]
    eng = rmatch.Engine(facts)
    for c in hir.calls(f['hir']):
        if c.get('k') == 'MethodCall' and c['name'] == 'filter_map' and hir.strip(c['args'][0]).get('k') == 'Closure':
            cl = hir.strip(c['args'][0])
            if not any((hir.callee(x) or '') == DECOMP + '::CatDecomp' for x in hir.calls(cl['body'])):
                continue
            env = {}
            nm = None
            for n, i in hir.bindings(cl['params'][0]):
                env[i] = ('var', n)
                nm = n

            def target(s):
                return any((hir.callee(x) or '') == DECOMP + '::CatDecomp' for x in hir.calls(s)) if s.get('k') not in ('If', 'Match', 'Block', 'Let') else False
            ds, cx = eng.facts_in(key, hir.stmts_of(cl['body']), target, env, {(True, ('exists', ('var', nm)))})
            return ds, nm
    return None, None


def len_bounds(fs, centre):
    lo = hi = None
    for (pol, a) in fs:
        if pol and a[0] == 'cmp' and a[2] == ('len', ('nbrs', centre)) and a[3][0] == 'lit':
            if a[1] == 'Le':
                hi = a[3][1]
            if a[1] == 'Lt':
                hi = a[3][1] - 1
            if a[1] == 'Ge':
                lo = a[3][1]
            if a[1] == 'Gt':
                lo = a[3][1] + 1
    return lo, hi


def _d0(ck, facts):
    """every decomposition step the deterministic drivers choose, on small Clifford+T diagrams: the terms sum to the diagram (qxlib/zxsem.py)"""
    from .. import zxsem, minirust
    ck.decided('D0 (evaluation, small scope) "each individual decomposition step replaces a diagram by terms whose values sum to the original": the drivers BssTOnly, BssWithCats (first-T choice) and SpiderCutting and apply_decomp '
               'with every replace_* function they reach (single-T, symmetric pair, BSS 6 -> 7 terms, magic-5, cat 3 / 4 / 5 / 6 with centre phase 0 and pi and with adjacent legs, spider cutting) interpreted from their HIR on graph-like '
               'diagrams with 1..7 T-type spiders (all four T-type phases) or a cat state, attached to two context spiders with outputs: the linear maps of the terms, scalars included, sum exactly to the map of the diagram '
               '(brute-force contraction over exact numbers in Q(e^{i pi/4})); the hard-coded Z[omega] coefficients are thereby checked as values')
    plan = [('t-spiders', 'vec_graph::Graph', 1), ('cats', 'vec_graph::Graph', 1), ('t-spiders', 'hash_graph::Graph', 11), ('cats', 'hash_graph::Graph', 5)] if ck.tier == 'thorough' else \
        [('t-spiders', 'vec_graph::Graph', 11), ('cats', 'vec_graph::Graph', 3), ('t-spiders', 'hash_graph::Graph', 97), ('cats', 'hash_graph::Graph', 41)]
    try:
        tot, bad, declined = zxsem.run_decomps(facts, plan, procs=16 if ck.tier == 'thorough' else 8)
    except (minirust.NoEval, minirust.Proceed) as ex:
        ck.ob3('E3-steps', 'evaluation', None, ck.site('decompose::apply_decomp'), 'the evaluator declined (%s: %s)' % (type(ex).__name__, ex))
        return
    by = {}
    for fam, ty, drv, dia, _a, what in bad:
        by.setdefault(drv, []).append((ty, dia, what))
    for drv, _f in zxsem.DRIVERS:
        fs = by.get(drv, [])
        site = ck.site('decompose::apply_decomp')
        for clause, pred in (('terms-sum-to-the-diagram', lambda w: not w.startswith('panics')), ('no-panic', lambda w: w.startswith('panics'))):
            hit = [f for f in fs if pred(f[2])]
            if hit:
                ty, dia, what = hit[0]
                ck.ob('E3-steps', '%s/%s' % (drv, clause), False, site, 'on the diagram %s (%s) one step of %s: %s [%d such cases in this run]' % (dia, ty.split('::')[0], drv.rsplit('::', 1)[-1], what, len(hit)))
            else:
                ck.ob('E3-steps', '%s/%s' % (drv, clause), True, site, '', sample={'driver': drv, 'steps_by_decomposition': tot['per_decomp']} if clause.startswith('terms') else None)
    ck.floor('E3-steps-decompositions-chosen', len(tot['per_decomp']), 4)
    ck.floor('E3-steps', tot['steps'], 6000 if ck.tier == 'thorough' else 800)
    _c1, _c2 = zxsem.oracle_controls()
    ck.control('E3 oracle: the fast contraction agrees with the reference contraction on a fixed sample of every family', _c1)
    ck.control('E3 oracle: a diagram with one phase changed, one edge type flipped or the scalar negated is told apart from the original', _c2)
    if tot['declined'] * 20 > max(1, tot['steps']):
        k0 = sorted(declined)[0]
        ck.ob3('E3-steps', 'declined', None, ck.site('decompose::apply_decomp'), 'the evaluator declined %d steps, e.g. %s on %s' % (tot['declined'], k0, declined[k0][1]))
    ck.note('E3-steps: %d diagrams, %d decomposition steps decided (%s), %d declined' % (tot['diagrams'], tot['steps'], ', '.join('%s %d' % kv for kv in sorted(tot['per_decomp'].items())), tot['declined']))


def cat_size_tables(ck, facts):
    """every `match <cat_ts result>.len() { .. }` in decompose.rs, evaluated arm by arm for every length cat_ts can return (no cat: 0; a Pauli centre plus
    3..6 T legs: 4..7): no reachable length may fall into a panicking arm.  (The set of lengths is what R-MATCH-point establishes for cat_ts.)"""
    from .. import minirust
    n = 0
    for key, f in sorted(facts['fns'].items()):
        if not key.startswith(('decompose::', '<decompose::')) or f.get('from_macro'):
            continue
        cat_locals = {}
        for node in hir.nodes(f['hir']):
            if node.get('k') == 'Let' and node.get('init') is not None and node['pat'].get('k') == 'Bind':
                i = hir.strip(node['init'])
                if i.get('k') == 'Call' and (hir.callee(i) or '') == 'decompose::cat_ts':
                    cat_locals[node['pat']['id']] = node['pat']['name']
        if not cat_locals:
            continue
        for m in hir.find(f['hir'], 'Match'):
            sc = hir.strip(m['scrut'])
            if not (sc.get('k') == 'MethodCall' and sc['name'] == 'len' and not sc['args']):
                continue
            loc = hir.local(hir.strip(sc['recv']))
            if not loc or loc[1] not in cat_locals:
                continue
            n += 1
            bad, und = [], None
            for L in (0, 4, 5, 6, 7):
                it = minirust.Interp(fuel=2000, facts=facts, inline=lambda c: False)
                try:
                    it.ev(m, {loc[1]: list(range(100, 100 + L))})
                except minirust.Panics as ex:
                    bad.append('%d (%s)' % (L, 'no cat' if L == 0 else 'a cat with %d legs' % (L - 1)))
                except (minirust._Return, minirust._Break, minirust._Continue):
                    pass
                except (minirust.NoEval, minirust.Proceed, TypeError, KeyError, IndexError, AttributeError) as ex:
                    und = str(ex)[:80]
            ck.fn(key)
            ck.ob3('R-TABLE-catsize', '%s/every-cat-size-has-an-arm' % key, False if bad else (None if und else True), ck.site(key, m),
                   ('the table keyed by the length of the cat_ts result panics for the length(s) %s, which cat_ts returns (centre + 3..6 legs)' % ', '.join(bad)) if bad else 'an arm of the table is not evaluable (%s)' % und,
                   sample={'function': key, 'lengths': [0, 4, 5, 6, 7]})
    ck.floor('R-TABLE-catsize', n, 1)


def _run_own(ck):
    facts = ck.facts
    from refs import effects_ref as E
    cat_size_tables(ck, facts)
    ck.decided('D1 parallel = sequential by construction: in decompose_graph and try_decompose_by_components the two branches of `if parallel` differ only in into_par_iter vs into_iter and a cloned decomposer as receiver (same source, same recursive call and arguments, same post-processing); no unsafe block, no interior mutability in Decomposer / drivers / graphs',
               'D2 terms are summed, components multiplied (reduction and node constructor agree with the node kind in every function and match arm), the graph scalar is assigned to exactly one component',
               'D3 drivers hand each decomposition what it needs: cat_ts and the Sherlock inline matcher establish the cat contract at the point a cat is built, cat sizes are within 3..6, CatDecomp arguments flow from cat_ts under a non-empty guard, Magic5FromCat gets exactly 5 T vertices, T selectors pick only T spiders, apply_ts_decomp dispatches 6 / >=2 / 1 to BSS / sym / single',
               'D4 replacements are safe inside a host graph: raw edge insertion only to fresh vertices in all replace_* / apply_* / reverse_pivot / cut_spider bodies',
               'D5 apply_decomp is an exhaustive match calling the function of each variant\'s name; configuration setters store what they say; decompose and decompose_parallel differ only in the parallel argument; the simplifier dispatch calls the simplifier of its name',
               'D6 structural schemas: the pi-normalisation and padding of apply_cat_decomp, cut_spider and reverse_pivot equal their reference effect schemas')
    ck.not_decided('the hard-coded Z[omega] coefficients of the replace_* terms and the sum identities themselves', 'agreement of the final number with the diagram\'s value',
                   'Sherlock / dynamic heuristics float arithmetic', 'the saved-terms clause')
    _d0(ck, facts)
    # ---- D1
    nsites = 0
    for key in (DEC + 'decompose_graph', DEC + 'try_decompose_by_components'):
        f = ck.fn(key)
        for i, (node, a, b) in enumerate(par_seq_sites(f)):
            nsites += 1
            diffs = []
            if a['iter'] != 'into_par_iter' or b['iter'] != 'into_iter':
                diffs.append('iterators %s / %s' % (a['iter'], b['iter']))
            for fld in ('source', 'call', 'args', 'post', 'other_calls'):
                if a[fld] != b[fld]:
                    diffs.append('%s differs: %s vs %s' % (fld, a[fld], b[fld]))
            if a['recv'] != 'clone-of-self' or b['recv'] != 'self':
                diffs.append('receivers %s / %s' % (a['recv'], b['recv']))
            if a['call'] is None:
                diffs.append('no recursive decompose_node call found')
            ck.ob('R-SIB-parallel', '%s/site-%d' % (key, i), not diffs, ck.site(key, node), 'the parallel and the sequential branch differ: %s' % '; '.join(diffs),
                  sample={'parallel': {k: str(v)[:120] for k, v in a.items()}, 'sequential_args': b['args']})
    ck.floor('R-SIB-parallel', nsites, 2)
    unsafe = sum(1 for f in facts['fns'].values() if not f.get('macro') for n in hir.nodes(f['hir']) if n.get('k') == 'Block' and n.get('unsafe') and not hir.from_macro(n))
    ck.ob('R-SCHEDULE', 'no-unsafe-blocks', unsafe == 0, 'quizx lib', '%d unsafe blocks in the lib: shared mutable state could be captured by the rayon closures' % unsafe, sample={'unsafe_blocks': unsafe})
    for adt in list(facts['adts']):
        if adt.startswith('decompose::') or adt in ('vec_graph::Graph', 'hash_graph::Graph', 'graph::VData', 'scalar::Scalar4', 'params::Parity', 'params::Expr'):
            flds = rencap.adt_fields(facts, adt) or []
            bad = [n for n, t, _v in flds if any(x in t for x in ('Cell<', 'RefCell<', 'Mutex<', 'RwLock<', 'Atomic', 'std::rc::Rc<', 'UnsafeCell', '*mut', '*const'))]
            ck.ob('R-SCHEDULE', 'no-interior-mutability/' + adt, not bad, adt, 'fields with interior mutability or raw sharing: %s' % bad)
    # ---- D2
    dg = ck.fn(DEC + 'decompose_graph')
    red, ctors = reductions(dg['hir'])
    ck.ob('R-REDUCE', 'decompose_graph', red == ['sum'] and ctors == ['Sum'], ck.site(DEC + 'decompose_graph'), 'the terms of a decomposition must be summed (found reductions %s, constructors %s)' % (red, ctors), sample={'reductions': red, 'constructors': ctors})
    tc = ck.fn(DEC + 'try_decompose_by_components')
    red, ctors = reductions(tc['hir'])
    ck.ob('R-REDUCE', 'try_decompose_by_components', red == ['product'] and ctors == ['Prod'], ck.site(DEC + 'try_decompose_by_components'), 'the components of a diagram must be multiplied (found reductions %s, constructors %s)' % (red, ctors))
    dn = ck.fn(DEC + 'decompose_node')
    ms = [m for m in hir.find(dn['hir'], 'Match')]
    narm = 0
    for m in ms:
        for a in m['arms']:
            ctor = hir.pat_ctor(a['pat']) or ''
            if ctor.startswith(NODE + '::') and ctor.rsplit('::', 1)[1] in ('Sum', 'Prod'):
                kind = ctor.rsplit('::', 1)[1]
                red, ctors = reductions(a['body'])
                want_r, want_c = ('sum', 'Sum') if kind == 'Sum' else ('product', 'Prod')
                narm += 1
                ck.ob('R-REDUCE', 'decompose_node/' + kind, bool(red) and all(r == want_r for r in red) and all(c == want_c for c in ctors), ck.site(DEC + 'decompose_node'),
                      'the %s arm must reduce with .%s() and rebuild %s nodes (found reductions %s, constructors %s)' % (kind, want_r, want_c, red, ctors), sample={'reductions': red, 'constructors': ctors})
    ck.floor('R-REDUCE', narm, 2)
    # scalar assigned to exactly one component
    asg = [n for n in hir.nodes(tc['hir']) if n.get('k') == 'Assign' and any(c.get('k') == 'MethodCall' and c['name'] == 'scalar_mut' for c in hir.calls(n['l']))]
    from .. import hfacts
    _prov, of_expr = hfacts.provenance(tc)
    gparam = [p_['name'] for p_ in tc['params'] if p_.get('k') == 'Bind' and p_['name'] != 'self'][:1]
    if not asg:
        ok = None if any(c.get('k') == 'MethodCall' and c['name'] in ('scalar_mut', 'mul_scalar', 'set_scalar') for c in hir.calls(tc['hir'])) else False
    else:
        one_component = len(asg) == 1 and any(x.get('k') == 'Index' and hir.lit_int(x['i']) is not None for x in hir.nodes(asg[0]['l'])) and not any(True for par in hir.ancestors(asg[0], hir.parent_map(tc['hir'])) if par[0].get('k') in ('For', 'While', 'Loop', 'Closure'))
        from_diagram = '.scalar' in of_expr(asg[0]['r'])
        ok = bool(one_component and from_diagram)
    ck.ob3('R-REDUCE', 'scalar-assigned-once', ok, ck.site(DEC + 'try_decompose_by_components'), 'exactly one component must receive the diagram\'s scalar (the others keep the 1 that subgraph_from_vertices gives them)')
    for be in ('vec_graph', 'hash_graph'):
        nk = hir.impl_method(facts, 'graph::GraphLike', be + '::Graph', 'new')
        ok = False
        if nk:
            for n in hir.nodes(facts['fns'][nk]['hir']):
                if n.get('k') == 'Struct':
                    for fn_, e in n['fields']:
                        if fn_ == 'scalar':
                            e0 = hir.strip(e)
                            ok = any((hir.callee(c) or '').endswith(('One>::one', '::one')) for c in hir.calls(e)) or hir.lit_int(e) == 1 or \
                                (e0.get('k') == 'MethodCall' and e0['name'] == 'into' and hir.lit_int(e0['recv']) == 1)
        ck.ob('R-REDUCE', 'new-graph-scalar-one/' + be, ok, be + '.rs', 'a new graph must start with scalar 1')
    # ---- D3
    ck.fn('decompose::cat_ts')
    ds = cat_ts_facts(facts)
    if not ds:
        ck.violation('R-MATCH-point', 'decompose::cat_ts/record-point', ck.site('decompose::cat_ts'), 'anchor-missing: the point where a cat occurrence is recorded was not found')
    else:
        closed = [closure_lits(d) for d in ds]
        for name, pred in cat_contract(V('v')):
            ck.ob('R-MATCH-point', 'decompose::cat_ts/' + name.split(',')[0], all(pred(fs) for fs in closed), ck.site('decompose::cat_ts'), 'a cat occurrence is recorded without establishing: %s' % name, sample={'conjunct': name})
    sizes = None
    for n in hir.nodes(facts['fns']['decompose::cat_ts']['hir']):
        if n.get('k') == 'Let' and n['pat'].get('k') == 'Bind' and n['pat']['name'] == 'preferred_order':
            items = hir.vec_literal(n['init']) or (hir.strip(n['init'])['items'] if hir.strip(n['init']).get('k') == 'Array' else None)
            sizes = sorted(hir.lit_int(i) for i in items) if items else None
    ck.ob('R-MATCH-point', 'decompose::cat_ts/sizes', sizes is not None and set(sizes) <= {3, 4, 5, 6} and len(sizes) >= 1, ck.site('decompose::cat_ts'), 'cat sizes accepted are %s; decompositions exist for 3..6 legs only' % sizes, sample={'sizes': sizes})
    sk = hir.impl_method(facts, 'decompose::Driver', 'decompose::SherlockDriver', 'choose_decomp')
    ds2, nm = sherlock_cat_facts(facts, sk) if sk else (None, None)
    if not ds2:
        ck.violation('R-MATCH-point', 'SherlockDriver/cat-point', 'decompose.rs', 'anchor-missing: Sherlock cat construction not found')
    else:
        closed = [closure_lits(d) for d in ds2]
        for name, pred in cat_contract(V(nm)):
            ck.ob('R-MATCH-point', 'SherlockDriver/' + name.split(',')[0], all(pred(fs) for fs in closed), ck.site(sk), 'the Sherlock driver builds a CatDecomp without establishing: %s' % name)
        lb = [len_bounds(fs, V(nm)) for fs in closed]
        ck.ob('R-MATCH-point', 'SherlockDriver/sizes', all(lo is not None and hi is not None and lo >= 3 and hi <= 6 for lo, hi in lb), ck.site(sk), 'cat sizes not confined to 3..6: %s' % lb)
    # construction sites of each Decomp
    ncat = 0
    for key, f in facts['fns'].items():
        if not key.startswith(('decompose::', '<decompose::')):
            continue
        pm = None
        for c in hir.calls(f['hir']):
            cal = hir.callee(c) or ''
            if c.get('k') != 'Call' or not cal.startswith(DECOMP + '::'):
                continue
            var = cal.rsplit('::', 1)[1]
            arg = hir.strip(c['args'][0])
            if var == 'CatDecomp' and key != sk:
                ncat += 1
                l = hir.local(arg)
                prov = None
                if l:
                    for n in hir.nodes(f['hir']):
                        if n.get('k') == 'Let' and n['pat'].get('k') == 'Bind' and n['pat']['id'] == l[1] and n.get('init') is not None:
                            prov = hir.callee(hir.strip(n['init'])) if hir.strip(n['init']).get('k') == 'Call' else None
                from .. import paths
                pm = pm or hir.parent_map(f['hir'])
                guards = [hir.pp(x[1]) for x in paths.dominating_conds(c, pm) if x[0] == 'cond']
                nonempty = any((l and l[0] + '.len()' in g and ('>' in g)) or (l and ('!' + l[0] + '.is_empty()') in g) for g in guards)
                via_alpha = any('cat_alpha' in g for g in guards)
                if via_alpha and not nonempty:
                    # the alpha of an empty cat is a sentinel larger than every heuristic alpha
                    tbl = [n for n in hir.nodes(f['hir']) if n.get('k') == 'Match' and 'cat_nodes.len()' in hir.pp(n['scrut'])]
                    sentinel = False
                    if tbl:
                        for a in tbl[0]['arms']:
                            if a['pat'].get('k') == 'Lit' and hir.lit_int({'k': 'Lit', 'v': a['pat']['v']}) == 0:
                                sentinel = '10' in hir.pp(a['body'])
                    nonempty = sentinel
                    ck.exception('%s/CatDecomp' % key, 'guarded through the alpha table: an empty cat has the sentinel alpha 10, larger than every heuristic alpha')
                ck.ob('R-GUARD-decomp', '%s/CatDecomp' % key, prov == 'decompose::cat_ts' and nonempty, ck.site(key, c),
                      'CatDecomp argument must flow from cat_ts(g) under a guard that excludes the empty result (provenance %s, guards %s)' % (prov, guards[:2]), sample={'provenance': prov, 'guards': guards[:2]})
            if var == 'Magic5FromCat':
                txt = hir.pp(arg)
                ok = False
                for n in hir.nodes(arg):
                    if n.get('k') == 'Index':
                        rb = hir.range_bounds(n['i'])
                        if rb and hir.lit_int(rb[0]) == 0 and hir.lit_int(rb[1]) == 5 and not rb[2]:
                            ok = True
                    if n.get('k') == 'MethodCall' and n['name'] == 'choose_multiple' and hir.lit_int(n['args'][-1]) == 5:
                        ok = True
                ck.ob('R-GUARD-decomp', '%s/Magic5FromCat-%d' % (key, hir.line(c) % 1000), ok, ck.site(key, c), 'Magic5FromCat must receive exactly 5 vertices: `%s`' % txt[:50])
    ck.floor('R-GUARD-decomp-cat', ncat, 2)
    for sel in ('decompose::first_ts', 'decompose::random_ts'):
        f = ck.fn(sel)
        ok = any(hir.callee(c) == 'phase::Phase::is_t' for c in hir.calls(f['hir']))
        others = [hir.callee(c) for c in hir.calls(f['hir']) if (hir.callee(c) or '').startswith('phase::Phase::is_') and hir.callee(c) != 'phase::Phase::is_t']
        ck.ob('R-MATCH-point', sel + '/selects-T', ok and not others, ck.site(sel), 'the T selector must filter on is_t only')
    ts = ck.fn('decompose::apply_ts_decomp')
    from .. import paths
    tbl = []
    for p in paths.return_paths(ts):
        r = hir.strip(p.ret) if p.ret is not None else None
        tbl.append((tuple(p.cond_texts()), (hir.callee(r) or '').rsplit('::', 1)[-1] if r is not None and r.get('k') == 'Call' else p.kind))
    want = [(('(ts.len() == 6)',), 'apply_bss_decomp'), (('!(ts.len() == 6)', '(ts.len() >= 2)'), 'apply_sym_decomp'),
            (('!(ts.len() == 6)', '!(ts.len() >= 2)', '!ts.is_empty()'), 'apply_single_decomp')]
    got3 = [t for t in tbl if t[1].startswith('apply_')]
    ck.ob('R-PATH', 'apply_ts_decomp/dispatch', got3 == want, ck.site('decompose::apply_ts_decomp'), 'T decomposition dispatch is %s, expected 6 -> BSS, >=2 -> sym, 1 -> single' % got3, sample={'table': str(got3)})
    # ---- D4
    keys = [k for k in facts['fns'] if k.startswith('decompose::') and (k.split('::')[1].startswith(('replace_', 'apply_')) or k.split('::')[1] in ('reverse_pivot', 'cut_spider'))]
    rs = redge.raw_sites(facts, keys)
    for i, (key, c, just, detail) in enumerate(rs):
        ck.ob3('R-EDGE', '%s/%s-%d' % (key, hir.callee(c).rsplit('::', 1)[1], i), redge.verdict(just, detail), ck.site(key, c),
               'raw edge insertion `%s` between two vertices of the host graph: %s (an existing edge makes the back ends inconsistent; use add_edge_smart)' % (hir.pp(c)[:60], detail.replace('UNRECOGNISED: ', '')))
    ck.floor('R-EDGE', len(rs), 10)
    ck.floor('R-EDGE-bodies', len(keys), 27)
    # ---- D5
    ad = ck.fn('decompose::apply_decomp')
    variants = rtable.enum_variants(facts, DECOMP)
    ms = rtable.enum_matches(ad, DECOMP)
    if len(ms) != 1:
        ck.violation('R-TABLE-dispatch', 'apply_decomp/shape', ck.site('decompose::apply_decomp'), 'anchor-missing')
    else:
        t, problems = rtable.match_table(ms[0], DECOMP, variants)
        wild = any(a['pat'].get('k') in ('Wild',) for a in ms[0]['arms'])
        ck.ob('R-TABLE-dispatch', 'apply_decomp/no-wildcard', not wild, ck.site('decompose::apply_decomp'), 'apply_decomp has a wildcard arm: a new variant would be silently mis-dispatched')
        for v in variants:
            called = [hir.callee(c) for c in hir.calls(t[v]['body']) if (hir.callee(c) or '').startswith('decompose::apply_')] if v in t else []
            ck.ob('R-TABLE-dispatch', 'apply_decomp/' + v, called == [APPLY_TABLE.get(v)], ck.site('decompose::apply_decomp'), '%s dispatches to %s, expected %s' % (v, called, APPLY_TABLE.get(v)), sample={'variant': v, 'calls': called})
    for key, fld in ((DEC + 'with_split_graphs_components', 'split_graph_components'), (DEC + 'with_save', 'save'), (DEC + 'with_simp', 'simp_func')):
        f = ck.fn(key)
        ps = [p for p in f['params'] if p.get('k') == 'Bind']
        asg = [n for n in hir.nodes(f['hir']) if n.get('k') == 'Assign']
        ok = len(asg) == 1 and hir.strip(asg[0]['l']).get('k') == 'Field' and hir.strip(asg[0]['l'])['name'] == fld and hir.local(asg[0]['r']) and hir.local(asg[0]['r'])[1] == ps[1]['id']
        ck.ob('R-SETTER', key, ok, ck.site(key), 'configuration setter must store its argument in self.%s' % fld)
    for key, want in ((DEC + 'with_full_simp', 'FullSimp'), (DEC + 'with_clifford_simp', 'CliffordSimp')):
        f = ck.fn(key)
        cs = hir.calls_to(f['hir'], DEC + 'with_simp')
        ok = len(cs) == 1 and (hir.def_path(cs[0]['args'][0]) or '').endswith('::' + want)
        ck.ob('R-SETTER', key, ok, ck.site(key), '%s must select %s' % (key, want))
    sm = [m for m in hir.find(dg['hir'], 'Match') if rtable.is_enum_ty(m['scrut'].get('ty', ''), 'decompose::SimpFunc') or 'simp_func' in hir.pp(m['scrut'])]
    ok = False
    if len(sm) == 1:
        tbl = {}
        for a in sm[0]['arms']:
            nm2 = (hir.pat_ctor(a['pat']) or '_').rsplit('::', 1)[-1]
            tbl[nm2] = [hir.callee(c) for c in hir.calls(a['body']) if (hir.callee(c) or '').startswith('simplify::')]
        ok = tbl.get('FullSimp') == ['simplify::full_simp'] and tbl.get('CliffordSimp') == ['simplify::clifford_simp'] and all(not v for k2, v in tbl.items() if k2 not in ('FullSimp', 'CliffordSimp'))
    ck.ob('R-TABLE-dispatch', 'decompose_graph/simp-dispatch', ok, ck.site(DEC + 'decompose_graph'), 'simplification level dispatch must be FullSimp -> full_simp, CliffordSimp -> clifford_simp, otherwise nothing')
    d1, d2 = ck.fn(DEC + 'decompose'), ck.fn(DEC + 'decompose_parallel')
    c1, c2 = hir.calls_to(d1['hir'], DEC + 'decompose_node'), hir.calls_to(d2['hir'], DEC + 'decompose_node')
    ok = False
    if len(c1) == 1 and len(c2) == 1:
        a1, a2 = [hir.pp(a) for a in c1[0]['args']], [hir.pp(a) for a in c2[0]['args']]
        diff = [i for i, (x, y) in enumerate(zip(a1, a2)) if x != y]
        ok = diff == [2] and a1[2] == 'false' and a2[2] == 'true'
    ck.ob('R-SIB-parallel', 'decompose~decompose_parallel', ok, ck.site(DEC + 'decompose_parallel'), 'decompose and decompose_parallel must differ only in the parallel argument (false / true)')
    # ---- D6
    for key in ('decompose::apply_cat_decomp', 'decompose::cut_spider', 'decompose::reverse_pivot', 'decompose::apply_spider_cutting_decomp'):
        reffect.check_schema(ck, 'R-EFFECT', key, E.C05_SCHEMAS[key], no_vars=False)
    # positive controls
    fx = fixture()
    sites = par_seq_sites(fx['fns']['decompose::Decomposer::decompose_graph'])
    ck.control('R-SIB-parallel flags a depth that differs between the branches', bool(sites) and sites[0][1]['args'] != sites[0][2]['args'])
    r2, c2_ = reductions(fx['fns']['decompose::Decomposer::prod_arm']['hir'])
    ck.control('R-REDUCE flags a product node reduced with sum', r2 == ['sum'])


def run(ck, **kw):
    _run_own(ck)
    ck.include('C01', 'every term is simplified before it is decomposed further: rule applications in simplify.rs must be guarded', parts=['D1', 'D2'])
    ck.include('C07', 'the terms are summed and multiplied in Scalar4 arithmetic (scalar.rs is anchored here too)')
