"""C16 — phases: canonical representative, operator consistency, classification predicates.

Decided: D1 canonical by construction (R-ENCAP), D2 range post-condition of Phase::normalize (E3),
D3 operator consistency (R-OPS), D4 classification predicates are the reference predicates on the
canonical representative.
"""
from fractions import Fraction as Fr

from .. import hir, rops, rencap, ai
from ..controls import fixture

PHASE = 'phase::Phase'


# ---------------------------------------------------------------- D1

def d1_encap(ck, facts, adt=PHASE, ctor_fn='phase::Phase::new', normaliser='phase::Phase::normalize', report=True):
    res = []
    flds = rencap.adt_fields(facts, adt)
    if flds is None:
        res.append(('adt', False, adt, 'type %s not found' % adt))
        return res
    for name, _ty, vis in flds:
        res.append(('private-field/%s' % name, vis.startswith('Restricted'), adt,
                    'field `%s` of %s is visible outside its module (%s): code elsewhere can store a non-canonical value' % (name, adt, vis)))
    cons = rencap.constructions(facts, adt)
    for key, node in cons:
        f = facts['fns'][key]
        ok = key == ctor_fn
        why = ''
        if not ok:
            why = '%s literal outside the sanctioned constructor %s' % (adt, ctor_fn)
        else:
            # the literal must be the receiver of the normaliser
            ok = False
            for c in hir.calls_to(f['hir'], normaliser):
                if hir.strip(c['recv']) is node:
                    ok = True
            why = 'the %s literal in %s does not flow into %s' % (adt, ctor_fn, normaliser)
        res.append(('literal/%s' % key, ok, key, why))
    aggs = set(rencap.mir_aggregates(facts, adt))
    hir_fns = {k for k, _ in cons}
    res.append(('mir-agrees', aggs == hir_fns, adt, 'MIR aggregates of %s occur in %s but HIR literals in %s' % (adt, sorted(aggs), sorted(hir_fns))))
    for key, node in rencap.field_writes(facts, adt):
        res.append(('field-write/%s' % key, False, key, 'writes a field of %s directly: %s' % (adt, hir.pp(node)[:100])))
    res.append(('literal-count', len(cons) >= 1, adt, 'no construction site of %s found' % adt))
    return res


# ---------------------------------------------------------------- D2

def _sym_normalize(e):
    if e['k'] == 'MethodCall' and e['name'] in ('denom', 'numer') and not e['args']:
        r = hir.strip(e['recv'])
        if r['k'] == 'Field' and r['name'] == 'r':
            return ai.aff(d=1) if e['name'] == 'denom' else ai.aff(N=1)
    return None


POST = [('Gt', Fr(-1), Fr(0)), ('Le', Fr(1), Fr(0))]


def d2_normalize(facts, key='phase::Phase::normalize'):
    """Every return path of normalize yields num with -d < num <= d (d = denominator >= 1)."""
    f = facts['fns'][key]
    it = ai.Interp(_sym_normalize)
    it.run(hir.stmts_of(f['hir']), ai.St(), [])
    out = []
    for trace, e, st in it.results:
        e = hir.strip(e) if e else e
        desc = hir.pp(e)[:80] if e else '()'
        shape_ok = False
        if e is not None and hir.local_name(e) == 'self':
            shape_ok = st.untouched and st.tracked is not None
            # returning *self: the facts are about the untouched initial numerator
        elif e is not None:
            # value built from the tracked variable and the denominator: Ratio::new(num, denom)
            news = [c for c in hir.calls(e) if (hir.callee(c) or '').endswith('Ratio::<T>::new') or (hir.callee(c) or '').endswith('::new')]
            for c in news:
                a = c['args']
                if len(a) == 2 and hir.local(a[0]) and hir.local(a[0])[1] == st.tracked:
                    d = it.ev(a[1], st)
                    if d[0] == 'aff' and d[1] == ai.aff(d=1):
                        shape_ok = True
        proved = [ai.implies(st.cons, w) for w in POST]
        out.append({'path': trace, 'returns': desc, 'facts': ai.show_cons(st.cons), 'shape_ok': shape_ok,
                    'lower': proved[0], 'upper': proved[1], 'ok': shape_ok and all(proved)})
    return out


# ---------------------------------------------------------------- D4

def _denom_abs(e):
    """matches self.r.denom() or self.r.denom().abs() (possibly dereferenced)"""
    e = hir.strip(e)
    if e.get('k') == 'MethodCall' and e['name'] == 'abs':
        e = hir.strip(e['recv'])
    if e.get('k') == 'MethodCall' and e['name'] == 'denom':
        r = hir.strip(e['recv'])
        return r.get('k') == 'Field' and r['name'] == 'r'
    return False


def _ratio_const(e):
    e = hir.strip(e)
    if e.get('k') == 'Call' and (hir.callee(e) or '').endswith('::new') and len(e['args']) == 2:
        a, b = hir.lit_int(e['args'][0]), hir.lit_int(e['args'][1])
        if a is not None and b:
            return Fr(a, b)
    return None


def pred_descriptor(f):
    """semantic descriptor of a classification predicate body"""
    body = hir.strip(f['hir'])

    def d(e):
        e = hir.strip(e)
        k = e.get('k')
        if k == 'Binary' and e['op'] == 'Or':
            a, b = d(e['l']), d(e['r'])
            if a and b and a[0] == b[0] == 'in':
                return ('in', a[1] | b[1])
            if a and b:
                return ('or', frozenset([a, b]))
            return None
        if k == 'Binary' and e['op'] in ('Eq', 'Le', 'Lt') and _denom_abs(e['l']):
            n = hir.lit_int(e['r'])
            if n is None:
                return None
            if e['op'] == 'Lt':
                return ('denom<=', n - 1)
            return ('denom==', n) if e['op'] == 'Eq' else ('denom<=', n)
        if k == 'Binary' and e['op'] == 'Eq':
            for x, y in ((e['l'], e['r']), (e['r'], e['l'])):
                xs = hir.strip(x)
                if xs.get('k') == 'Field' and xs['name'] == 'r':
                    c = _ratio_const(y)
                    if c is not None:
                        return ('in', frozenset([c]))
        if k == 'MethodCall' and e['name'] in ('is_zero', 'is_one') and not e['args']:
            r = hir.strip(e['recv'])
            if hir.local_name(r) == 'self' or (r.get('k') == 'Field' and r['name'] == 'r'):
                return ('in', frozenset([Fr(0) if e['name'] == 'is_zero' else Fr(1)]))
        return None
    return d(body)


PRED_REF = {
    'phase::Phase::is_clifford': ('denom<=', 2),
    'phase::Phase::is_t': ('denom==', 4),
    'phase::Phase::is_proper_clifford': ('in', frozenset([Fr(1, 2), Fr(-1, 2)])),
    'phase::Phase::is_pauli': ('in', frozenset([Fr(0), Fr(1)])),
    '<phase::Phase as num::Zero>::is_zero': ('in', frozenset([Fr(0)])),
    '<phase::Phase as num::One>::is_one': ('in', frozenset([Fr(1)])),
}


def run(ck):
    facts = ck.facts
    ck.decided('D1 Phase is canonical by construction: private field, the only literal is in Phase::new and flows into normalize, no field writes',
               'D2 Phase::normalize returns a numerator in (-denom, denom] on every return path (template-constraint abstract interpretation, for all inputs modulo i64 overflow)',
               'D3 the 13 arithmetic operator impls compute with their own operator in (self, rhs) order',
               'D4 the classification predicates are the reference predicates over the canonical representative',
               'D5 limit_denominator returns its argument unchanged when the denominator is within the bound (exact hits)')
    ck.decided('D6 limit_denominator is step for step CPython Fraction.limit_denominator (initial convergents, floor quotient, exit test before the update, state update, k, the tie rule 2*d*(q0+k*q1) <= denominator, both candidates), compared as polynomial transition functions modulo renaming')
    ck.not_decided('that the reference algorithm itself returns the closest fraction (number theory; the reference is the trusted base the statement names)', 'float round-trip', 'group laws as value-level equalities (they follow from D1-D3 and Ratio arithmetic, which is trusted)')
    # D1
    for key, ok, site, msg in d1_encap(ck, facts):
        ck.ob('R-ENCAP', 'Phase/' + key, ok, ck.site(site) if site in ck.fns else site, msg, sample={'check': key})
    for k in ('phase::Phase::new', 'phase::Phase::normalize'):
        ck.fn(k)
    # D2
    paths = d2_normalize(facts)
    for i, p in enumerate(paths):
        ck.ob('E3-range', 'phase::Phase::normalize/path-%d' % i, p['ok'], ck.site('phase::Phase::normalize'),
              'cannot prove -denom < num <= denom on return path %s returning `%s`; facts: %s' % (p['path'], p['returns'], p['facts']),
              sample={k: str(v) for k, v in p.items()})
    ck.floor('E3-range', len(paths), 2)
    # D3
    impls = rops.op_impls(facts, lambda s: s == PHASE)
    for key, op, is_assign, _s in impls:
        f = ck.fn(key)
        ok, why, summ = rops.check_impl(f, op, is_assign)
        ck.ob('R-OPS', key, ok, ck.site(key), why, sample={'op': op, 'assign': is_assign, 'applications': summ})
    ck.floor('R-OPS', len(impls), 12)
    # Neg: must negate
    neg = '<phase::Phase as std::ops::Neg>::neg'
    f = ck.fn(neg)
    negs = [n for n in hir.nodes(f['hir']) if n.get('k') == 'Unary' and n['op'] == 'Neg']
    ck.ob('R-OPS', neg, len(negs) == 1, ck.site(neg), 'Neg for Phase does not apply exactly one negation', sample={'negations': len(negs)})
    # D4
    for key, ref in PRED_REF.items():
        f = ck.fn(key)
        got = pred_descriptor(f)
        ck.ob('R-TABLE-pred', key, got == ref, ck.site(key),
              'classification predicate computes %s, reference is %s' % (_show(got), _show(ref)), sample={'descriptor': _show(got)})
        if got and got[0] == 'in':
            for c in got[1]:
                ck.ob('R-TABLE-pred', key + '/canonical-constant/%s' % c, -1 < c <= 1, ck.site(key),
                      'compares the stored phase with %s, which is outside (-1,1] and can never match a canonical phase' % c)
    # D5: exact hits of limit_denominator — a fraction whose denominator is within the bound is returned unchanged
    from .. import paths
    lk = 'phase::utils::limit_denominator'
    lf = ck.fn(lk)
    ps = [p for p in lf['params'] if p.get('k') == 'Bind']
    hit = False
    for p2 in paths.return_paths(lf):
        if p2.kind != 'return' or p2.ret is None or not hir.local(p2.ret) or hir.local(p2.ret)[1] != ps[0]['id']:
            continue
        for c in p2.conds:
            if c[0] != 'cond':
                continue
            e, pol = hir.strip(c[1]), c[2]
            if e.get('k') == 'Binary' and e['op'] in ('Le', 'Ge', 'Lt', 'Gt'):
                l, r = hir.local_name(e['l']), hir.local_name(e['r'])
                op = e['op'] if pol else {'Le': 'Gt', 'Gt': 'Le', 'Lt': 'Ge', 'Ge': 'Lt'}[e['op']]
                # denom <= max_denom  (or max_denom >= denom)
                if (op == 'Le' and (l, r) == ('denom', ps[1]['name'])) or (op == 'Ge' and (l, r) == (ps[1]['name'], 'denom')):
                    hit = True
    dl = [n for n in hir.nodes(lf['hir']) if n.get('k') == 'Let' and n['pat'].get('k') == 'Bind' and n['pat']['name'] == 'denom' and 'denom()' in hir.pp(n['init'])]
    ck.ob('R-PATH', lk + '/exact-hit', hit and len(dl) == 1, ck.site(lk), 'a fraction whose denominator is <= the bound must be returned unchanged (exact hits, as Python\'s Fraction.limit_denominator); with a strict comparison the bound itself enters the search loop')
    # D6: the algorithm is CPython's Fraction.limit_denominator (the reference the property names): transition functions compared on polynomial normal forms
    from .. import refequiv
    try:
        for slot, ok, msg in refequiv.analyse(ck.fn(lk)):
            if slot == 'naming':
                ck.note('limit_denominator: locals matched to the reference variables as ' + msg)
                continue
            ck.ob('R-REFEQ', lk + '/' + slot, ok, ck.site(lk), msg, sample={'slot': slot})
    except refequiv.NotUnderstood as ex:
        ck.violation('R-REFEQ', lk + '/shape', ck.site(lk), 'limit_denominator is no longer a straight-line continued-fraction loop the symbolic executor understands (%s) (not-established-by-recognised-idiom)' % ex)
    ck.floor('R-REFEQ', ck.rules.get('R-REFEQ', [0, 0])[0], 6)
    # positive controls
    fx = fixture()
    ck.control('E3-range refutes the `<=` mutant of normalize', any(not p['ok'] for p in d2_normalize(fx, 'phase::Phase::normalize')))
    ck.control('R-OPS flags a Sub impl that adds', not rops.check_impl(fx['fns']['<phase::Phase as std::ops::Sub>::sub'], 'Sub', False)[0])
    ck.control('R-OPS flags swapped operands', not rops.check_impl(fx['fns']['<phase::Phase as std::ops::Div>::div'], 'Div', False)[0])
    ck.control('R-ENCAP flags a literal outside the constructor', any(not ok for _k, ok, _s, _m in d1_encap(ck, fx)))
    try:
        rq = refequiv.analyse(fixture()['fns']['phase::utils::limit_denominator'])
    except refequiv.NotUnderstood:
        rq = []
    ck.control('R-REFEQ flags a tie that goes to the other candidate', any(slot == 'final-compare' and ok is False for slot, ok, _m in rq))


def _show(d):
    if d is None:
        return 'unrecognised'
    if d[0] == 'in':
        return 'phase in {%s}' % ', '.join(str(x) for x in sorted(d[1]))
    return '%s %s' % d
