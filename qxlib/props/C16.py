"""C16 — phases: canonical representative, operator consistency, classification predicates.

Decided: D1 canonical by construction (R-ENCAP), D2 range post-condition of Phase::normalize (E3),
D3 operator consistency (R-OPS), D4 classification predicates are the reference predicates on the
canonical representative.
"""
from fractions import Fraction as Fr

from .. import hir, rops, rencap, ai
from ..controls import fixture

PHASE = 'phase::Phase'


# ---------------------------------------------------------------- D1

def d1_encap(ck, facts, adt=PHASE, ctor_fn='phase::Phase::new', normaliser='phase::Phase::normalize', report=True):
    res = []
    flds = rencap.adt_fields(facts, adt)
    if flds is None:
        res.append(('adt', False, adt, 'type %s not found' % adt))
        return res
    for name, _ty, vis in flds:
        res.append(('private-field/%s' % name, vis.startswith('Restricted'), adt,
                    'field `%s` of %s is visible outside its module (%s): code elsewhere can store a non-canonical value' % (name, adt, vis)))
    cons = rencap.constructions(facts, adt)
    for key, node in cons:
        f = facts['fns'][key]
        ok = key in (ctor_fn, normaliser)
        why = ''
        if not ok:
            why = '%s literal outside the sanctioned constructor %s' % (adt, ctor_fn)
        elif key == normaliser:
            why = ''        # the values the normaliser itself returns are the subject of the range rule (E3-range)
        else:
            # the literal must be the receiver of the normaliser, directly or through a local that is used for nothing else
            ok = False
            for c in hir.calls_to(f['hir'], normaliser):
                rc = hir.strip(c['recv'])
                if rc is node:
                    ok = True
                l = hir.local(rc)
                if l:
                    lets = [n for n in hir.nodes(f['hir']) if n.get('k') == 'Let' and n['pat'].get('k') == 'Bind' and n['pat']['id'] == l[1] and n.get('init') is not None and hir.strip(n['init']) is node]
                    uses = [n for n in hir.nodes(f['hir']) if n.get('k') == 'Path' and n['res'].get('k') == 'Local' and n['res'].get('id') == l[1]]
                    if lets and len(uses) == 1:
                        ok = True
            why = 'the %s literal in %s does not flow into %s' % (adt, ctor_fn, normaliser)
        res.append(('literal/%s' % key, ok, key, why))
    aggs = set(rencap.mir_aggregates(facts, adt))
    hir_fns = {k for k, _ in cons}
    res.append(('mir-agrees', aggs == hir_fns, adt, 'MIR aggregates of %s occur in %s but HIR literals in %s' % (adt, sorted(aggs), sorted(hir_fns))))
    for key, node in rencap.field_writes(facts, adt):
        res.append(('field-write/%s' % key, False, key, 'writes a field of %s directly: %s' % (adt, hir.pp(node)[:100])))
    res.append(('literal-count', len(cons) >= 1, adt, 'no construction site of %s found' % adt))
    return res


# ---------------------------------------------------------------- D2

def _sym_normalize(e):
    if e['k'] == 'MethodCall' and e['name'] in ('denom', 'numer') and not e['args']:
        r = hir.strip(e['recv'])
        if r['k'] == 'Field' and r['name'] == 'r':
            return ai.aff(d=1) if e['name'] == 'denom' else ai.aff(N=1)
    return None


POST = [('Gt', Fr(-1), Fr(0)), ('Le', Fr(1), Fr(0))]


def d2_normalize(facts, key='phase::Phase::normalize'):
    """Every return path of normalize yields num with -d < num <= d (d = denominator >= 1)."""
    f = facts['fns'][key]
    it = ai.Interp(_sym_normalize)
    it.run(hir.stmts_of(f['hir']), ai.St(), [])
    out = []
    for trace, e, st in it.results:
        e = hir.strip(e) if e else e
        desc = hir.pp(e)[:80] if e else '()'
        shape_ok = False
        if e is not None and hir.local_name(e) == 'self':
            shape_ok = st.untouched and st.tracked is not None
            # returning *self: the facts are about the untouched initial numerator
        elif e is not None:
            # value built from the tracked variable and the denominator: Ratio::new(num, denom)
            news = [c for c in hir.calls(e) if (hir.callee(c) or '').endswith('Ratio::<T>::new') or (hir.callee(c) or '').endswith('::new')]
            for c in news:
                a = c['args']
                if len(a) == 2 and hir.local(a[0]) and hir.local(a[0])[1] == st.tracked:
                    d = it.ev(a[1], st)
                    if d[0] == 'aff' and d[1] == ai.aff(d=1):
                        shape_ok = True
        proved = [ai.implies(st.cons, w) for w in POST]
        out.append({'path': trace, 'returns': desc, 'facts': ai.show_cons(st.cons), 'shape_ok': shape_ok,
                    'lower': proved[0], 'upper': proved[1], 'ok': shape_ok and all(proved)})
    return out


# ---------------------------------------------------------------- D4

def _denom_abs(e):
    """matches self.r.denom() or self.r.denom().abs() (possibly dereferenced)"""
    e = hir.strip(e)
    if e.get('k') == 'MethodCall' and e['name'] == 'abs':
        e = hir.strip(e['recv'])
    if e.get('k') == 'MethodCall' and e['name'] == 'denom':
        r = hir.strip(e['recv'])
        return r.get('k') == 'Field' and r['name'] == 'r'
    return False


def _ratio_const(e):
    e = hir.strip(e)
    if e.get('k') == 'Call' and (hir.callee(e) or '').endswith('::new') and len(e['args']) == 2:
        a, b = hir.lit_int(e['args'][0]), hir.lit_int(e['args'][1])
        if a is not None and b:
            return Fr(a, b)
    return None


def pred_descriptor(f):
    """semantic descriptor of a classification predicate body"""
    body = hir.strip(f['hir'])

    def d(e):
        e = hir.strip(e)
        k = e.get('k')
        if k == 'Binary' and e['op'] == 'Or':
            a, b = d(e['l']), d(e['r'])
            if a and b and a[0] == b[0] == 'in':
                return ('in', a[1] | b[1])
            if a and b:
                return ('or', frozenset([a, b]))
            return None
        if k == 'Binary' and e['op'] in ('Eq', 'Le', 'Lt') and _denom_abs(e['l']):
            n = hir.lit_int(e['r'])
            if n is None:
                return None
            if e['op'] == 'Lt':
                return ('denom<=', n - 1)
            return ('denom==', n) if e['op'] == 'Eq' else ('denom<=', n)
        if k == 'Binary' and e['op'] == 'Eq':
            for x, y in ((e['l'], e['r']), (e['r'], e['l'])):
                xs = hir.strip(x)
                if xs.get('k') == 'Field' and xs['name'] == 'r':
                    c = _ratio_const(y)
                    if c is not None:
                        return ('in', frozenset([c]))
        if k == 'MethodCall' and e['name'] in ('is_zero', 'is_one') and not e['args']:
            r = hir.strip(e['recv'])
            if hir.local_name(r) == 'self' or (r.get('k') == 'Field' and r['name'] == 'r'):
                return ('in', frozenset([Fr(0) if e['name'] == 'is_zero' else Fr(1)]))
        return None
    return d(body)


PRED_REF = {
    'phase::Phase::is_clifford': ('denom<=', 2),
    'phase::Phase::is_t': ('denom==', 4),
    'phase::Phase::is_proper_clifford': ('in', frozenset([Fr(1, 2), Fr(-1, 2)])),
    'phase::Phase::is_pauli': ('in', frozenset([Fr(0), Fr(1)])),
    '<phase::Phase as num::Zero>::is_zero': ('in', frozenset([Fr(0)])),
    '<phase::Phase as num::One>::is_one': ('in', frozenset([Fr(1)])),
}


class _NoPred(Exception):
    pass


class _Ret(Exception):
    def __init__(self, v):
        self.v = v


def pred_eval(facts, key, r, depth=0):
    """value of a classification predicate of Phase on the stored rational r (a Fraction), by interpreting its body; raises _NoPred when a construct is not understood"""
    f = facts['fns'][key]

    def ev(e, env):
        e0 = e
        e = hir.strip(e)
        k = e.get('k')
        v = hir.lit_int(e)
        if v is not None:
            return v
        b = hir.lit_bool(e)
        if b is not None:
            return b
        l = hir.local(e)
        if l:
            if l[0] == 'self':
                return ('phase', r)
            if l[1] in env:
                return env[l[1]]
            raise _NoPred('local ' + l[0])
        if k == 'Field' and e['name'] == 'r':
            b2 = ev(e['e'], env)
            if isinstance(b2, tuple) and b2[0] == 'phase':
                return b2[1]
        if k == 'Unary' and e['op'] == 'Not':
            return not ev(e['e'], env)
        if k == 'Unary' and e['op'] == 'Neg':
            return -ev(e['e'], env)
        if k == 'Binary':
            op = e['op']
            if op == 'And':
                return bool(ev(e['l'], env)) and bool(ev(e['r'], env))
            if op == 'Or':
                return bool(ev(e['l'], env)) or bool(ev(e['r'], env))
            a, b2 = ev(e['l'], env), ev(e['r'], env)
            if isinstance(a, tuple) or isinstance(b2, tuple):
                raise _NoPred('comparison of phases')
            fn = {'Eq': lambda: a == b2, 'Ne': lambda: a != b2, 'Lt': lambda: a < b2, 'Le': lambda: a <= b2, 'Gt': lambda: a > b2, 'Ge': lambda: a >= b2,
                  'Add': lambda: a + b2, 'Sub': lambda: a - b2, 'Mul': lambda: a * b2, 'Rem': lambda: a % b2 if b2 else None,
                  'Div': lambda: (Fr(a) / Fr(b2)) if (isinstance(a, Fr) or isinstance(b2, Fr)) and b2 else None}.get(op)
            if fn:
                return fn()
        if k == 'Call':
            c = hir.callee(e) or ''
            if c.endswith('::new') and len(e['args']) == 2 and 'Ratio' in (c + (e.get('ty') or '')):
                a, b2 = ev(e['args'][0], env), ev(e['args'][1], env)
                if isinstance(a, int) and isinstance(b2, int) and b2:
                    return Fr(a, b2)
            if c.endswith(('Zero>::zero', 'Zero::zero')):
                return Fr(0)
            if c.endswith(('One>::one', 'One::one')):
                return Fr(1)
        if k == 'MethodCall':
            nm = e['name']
            if nm in ('into', 'clone', 'to_rational') and not e['args']:
                v2 = ev(e['recv'], env)
                if nm == 'into' and isinstance(v2, Fr) and 'Phase' in (e.get('ty') or ''):
                    # From<Rational64> for Phase is Phase::new: the value is re-normalised (inside normalize itself this is the recursive call)
                    if -1 < v2 <= 1:
                        return ('phase', v2)
                    if depth < 3 and 'phase::Phase::normalize' in facts['fns']:
                        return pred_eval(facts, 'phase::Phase::normalize', v2, depth + 1)
                    raise _NoPred('into() of an out-of-range rational')
                return v2[1] if isinstance(v2, tuple) and nm == 'to_rational' else v2
            recv = ev(e['recv'], env)
            if isinstance(recv, tuple) and recv[0] == 'phase':
                c = e.get('callee') or ''
                cands = [c] + [k2 for k2 in facts['fns'] if k2.endswith('::' + nm) and 'Phase' in k2]
                for k2 in cands:
                    if k2 in facts['fns'] and depth < 3 and (facts['fns'][k2].get('output') == 'bool' or k2.endswith('::normalize')) and len([p_ for p_ in facts['fns'][k2]['params'] if p_.get('k') == 'Bind']) == 1:
                        return pred_eval(facts, k2, recv[1], depth + 1)
                raise _NoPred('method %s on a phase' % nm)
            if isinstance(recv, Fr):
                import math
                if nm == 'round' and not e['args']:      # num::Ratio::round: half away from zero
                    fl = math.floor(recv)
                    fr = recv - fl
                    if fr > Fr(1, 2) or (fr == Fr(1, 2) and recv > 0):
                        return Fr(fl + 1)
                    return Fr(fl)
                if nm in ('floor', 'ceil', 'trunc') and not e['args']:
                    return Fr({'floor': math.floor, 'ceil': math.ceil, 'trunc': math.trunc}[nm](recv))
                if nm == 'to_integer' and not e['args']:
                    return math.trunc(recv)
                if nm == 'denom':
                    return recv.denominator
                if nm == 'numer':
                    return recv.numerator
                if nm == 'is_zero':
                    return recv == 0
                if nm == 'is_one':
                    return recv == 1
                if nm == 'is_integer':
                    return recv.denominator == 1
                if nm == 'abs':
                    return abs(recv)
            if isinstance(recv, int) and not isinstance(recv, bool):
                if nm == 'rem_euclid' and len(e['args']) == 1:
                    m_ = ev(e['args'][0], env)
                    if not m_:
                        raise _NoPred('rem_euclid by zero')
                    return recv % abs(m_)
                if nm == 'abs':
                    return abs(recv)
                if nm == 'is_zero':
                    return recv == 0
                if nm == 'is_one':
                    return recv == 1
                if nm == 'pow' and len(e['args']) == 1:
                    return recv ** ev(e['args'][0], env)
        if k == 'Struct' and (e['ctor'].get('path') or '').endswith('Phase'):
            d_ = dict(e['fields'])
            if 'r' in d_:
                return ('phase', ev(d_['r'], env))
        if k in ('Assign', 'AssignOp'):
            tl = hir.local(hir.strip(e['l']))
            if not tl:
                raise _NoPred('assignment to a non-local')
            rv = ev(e['r'], env)
            if k == 'Assign':
                env[tl[1]] = rv
            else:
                cur = env[tl[1]]
                env[tl[1]] = {'AddAssign': lambda: cur + rv, 'SubAssign': lambda: cur - rv, 'MulAssign': lambda: cur * rv}.get(e['op'], lambda: (_ for _ in ()).throw(_NoPred(e['op'])))()
            return None
        if k == 'If':
            c = ev(e['cond'], env)
            br = e['then'] if c else e.get('else')
            if br is None:
                return None
            return block(hir.stmts_of(br), env, share=True)
        if k == 'Block':
            return block(hir.stmts_of(e), env)
        if k == 'Ret':
            raise _Ret(ev(e['e'], env) if e.get('e') else None)
        if k == 'Match' and e['arms'] and all(hir.lit_bool(hir.strip(a['body'])) is not None for a in e['arms']):
            raise _NoPred('match')
        raise _NoPred(hir.pp(e)[:40])

    def block(st, env, share=False):
        env = env if share else dict(env)
        val = None
        for s_ in st:
            if s_.get('k') == 'Let':
                if s_['pat'].get('k') != 'Bind' or s_.get('init') is None:
                    raise _NoPred('pattern let')
                env[s_['pat']['id']] = ev(s_['init'], env)
                val = None
            else:
                val = ev(s_, env)
        return val
    env0 = {}
    for p_ in f['params']:
        if p_.get('k') == 'Bind' and p_['name'] != 'self':
            env0[p_['id']] = r          # a single value parameter (Phase::new(r)): the rational itself
    try:
        return block(hir.stmts_of(f['hir']), env0)
    except _Ret as rr:
        return rr.v


PRED_DOMAIN = sorted(set(Fr(n, d) for d in (1, 2, 3, 4, 5, 8) for n in range(-d + 1, d + 1)))
PRED_SEM = {
    'phase::Phase::is_clifford': lambda r: r.denominator <= 2,
    'phase::Phase::is_t': lambda r: r.denominator == 4,
    'phase::Phase::is_proper_clifford': lambda r: r in (Fr(1, 2), Fr(-1, 2)),
    'phase::Phase::is_pauli': lambda r: r in (Fr(0), Fr(1)),
    '<phase::Phase as num::Zero>::is_zero': lambda r: r == 0,
    '<phase::Phase as num::One>::is_one': lambda r: r == 1,
}



# ---------------------------------------------------------------- phase.rs evaluated on a finite domain with a host model of Rational64 (round 2)

PHT = 'phase::Phase'


def _ph_interp(facts):
    from .. import minirust, ratsem
    it = minirust.Interp(fuel=60000, facts=facts, inline=lambda c: c.startswith(('phase::', '<phase::')))
    it.host_call = ratsem.host_call
    it.host_into = ratsem.host_into
    return it


def _ph_call(facts, key, args):
    return _ph_interp(facts).local_call(key, args)


def _ph(v):
    from .. import ratsem
    return {'__struct__': PHT, 'r': ratsem.Rat(v)}


def _ph_val(p):
    from .. import minirust, ratsem
    if not (isinstance(p, dict) and p.get('__struct__') == PHT and isinstance(p.get('r'), ratsem.Rat)):
        raise minirust.NoEval('not a Phase: %r' % (p,))
    return p['r'].v


def _norm(q):
    from fractions import Fraction as Fr
    q = Fr(q) % 2
    return q - 2 if q > 1 else q


def ev_phase(facts):
    """Phase against exact arithmetic modulo 2 on the representatives in (-1, 1] with denominators 1, 2, 3, 4, 5, 8: construction from unnormalised
    fractions, every operator impl, the classification predicates, the conversions.  -> ({clause: (ok, counterexample)}, evaluations)"""
    from fractions import Fraction as Fr
    from .. import minirust, ratsem, rops
    res = dict((k, [True, '']) for k in ('new-normalises', 'operators', 'predicates', 'conversions', 'constants'))
    n = 0

    def fail(k, msg):
        if res[k][0]:
            res[k] = [False, msg]
    dens = (1, 2, 3, 4, 5, 8)
    for d in dens:
        for k in range(-3 * d - 1, 3 * d + 2):
            q = Fr(k, d)
            for key, arg in (('phase::Phase::new', ratsem.Rat(q)), ('<%s as std::convert::From<num::rational::Ratio<i64>>>::from' % PHT, ratsem.Rat(q)),
                             ('<%s as std::convert::From<(i64, i64)>>::from' % PHT, (k, d))):
                if key not in facts['fns']:
                    continue
                r = _ph_val(_ph_call(facts, key, [arg]))
                n += 1
                if r != _norm(q):
                    fail('new-normalises', '%s(%s) = %s, the representative in (-1, 1] is %s' % (key.rsplit('::', 1)[0].rsplit(' ', 1)[-1] + '::' + key.rsplit('::', 1)[1], q, r, _norm(q)))
    for i in range(-5, 6):
        key = '<%s as std::convert::From<i64>>::from' % PHT
        if key in facts['fns']:
            r = _ph_val(_ph_call(facts, key, [i]))
            n += 1
            if r != _norm(i):
                fail('conversions', 'Phase::from(%d) = %s' % (i, r))
    reps = sorted(set(_norm(Fr(k, d)) for d in dens for k in range(-d, d + 1)))
    z, o = _ph_val(_ph_call(facts, '<%s as num::Zero>::zero' % PHT, [])), _ph_val(_ph_call(facts, '<%s as num::One>::one' % PHT, []))
    n += 2
    if z != 0 or o != 1:
        fail('constants', 'zero() = %s, one() = %s' % (z, o))
    preds = {'<%s as num::Zero>::is_zero' % PHT: lambda q: q == 0, '<%s as num::One>::is_one' % PHT: lambda q: q == 1, PHT + '::is_pauli': lambda q: q.denominator == 1,
             PHT + '::is_clifford': lambda q: q.denominator <= 2, PHT + '::is_proper_clifford': lambda q: q.denominator == 2, PHT + '::is_t': lambda q: q.denominator == 4}
    for q in reps:
        for key, ref in preds.items():
            if key not in facts['fns']:
                continue
            r = _ph_call(facts, key, [_ph(q)])
            n += 1
            if r != ref(q):
                fail('predicates', '%s answers %s on the phase %s' % (key.rsplit('::', 1)[1], r, q))
        r = _ph_call(facts, PHT + '::to_rational', [_ph(q)])
        n += 1
        if not (isinstance(r, ratsem.Rat) and r.v == q):
            fail('conversions', 'to_rational(%s) = %s' % (q, r))
    # limit_denominator: CPython's Fraction.limit_denominator followed by normalisation (the closest fraction to -7/8 with denominator 1 is -1, i.e. the phase 1)
    res['limit-denominator'] = [True, '']
    lk = PHT + '::limit_denominator'
    if lk in facts['fns']:
        for q in reps:
            for md in (2, 3, 4, 6, 8):
                r = _ph_val(_ph_call(facts, lk, [_ph(q), md]))
                n += 1
                want = _norm(Fr(q).limit_denominator(md))
                if r != want:
                    fail('limit-denominator', 'limit_denominator(%s, %d) = %s, expected %s' % (q, md, r, want))
    ops = [(key, op, is_assign) for key, op, is_assign, _s in rops.op_impls(facts, lambda t: t.replace('&', '').strip() == PHT) if key in facts['fns'] and len(facts['fns'][key]['params']) == 2]
    negk = '<%s as std::ops::Neg>::neg' % PHT
    for a in reps:
        r = _ph_val(_ph_call(facts, negk, [_ph(a)]))
        n += 1
        if r != _norm(-a):
            fail('operators', '-(%s) = %s' % (a, r))
        for key, op, is_assign in ops:
            rhs_int = key.endswith('<i64>>::' + key.rsplit('::', 1)[1]) or '<i64>' in key
            for b in ((-3, -1, 0, 2, 5) if rhs_int else reps[::2]):
                if op == 'Div' and b == 0:
                    continue
                x, y = _ph(a), (b if rhs_int else _ph(b))
                r = _ph_call(facts, key, [x, y])
                n += 1
                got = _ph_val(x if is_assign else r)
                bv = Fr(b)
                want = _norm({'Add': a + bv, 'Sub': a - bv, 'Mul': a * bv, 'Div': (a / bv) if bv != 0 else 0}[op])
                if got != want:
                    fail('operators', '%s: %s %s %s = %s, expected %s' % (key, a, {'Add': '+', 'Sub': '-', 'Mul': '*', 'Div': '/'}[op], b, got, want))
    return dict((k, tuple(v)) for k, v in res.items()), n

def run(ck):
    facts = ck.facts
    ck.decided('D1 Phase is canonical by construction: private field, the only literal is in Phase::new and flows into normalize, no field writes',
               'D2 Phase::normalize returns a numerator in (-denom, denom] on every return path (template-constraint abstract interpretation, for all inputs modulo i64 overflow)',
               'D3 the 13 arithmetic operator impls compute with their own operator in (self, rhs) order',
               'D4 the classification predicates are the reference predicates over the canonical representative',
               'D5 limit_denominator returns its argument unchanged when the denominator is within the bound (exact hits)')
    ck.decided('D6 limit_denominator is step for step CPython Fraction.limit_denominator (initial convergents, floor quotient, exit test before the update, state update, k, the tie rule 2*d*(q0+k*q1) <= denominator, both candidates), compared as polynomial transition functions modulo renaming')
    ck.not_decided('that the reference algorithm itself returns the closest fraction (number theory; the reference is the trusted base the statement names)', 'float round-trip', 'phases with denominators outside the evaluated domain as values (D1-D3 cover all paths)')
    # D0 (round 2): phase.rs evaluated with a host model of Rational64 on the representatives with denominators 1, 2, 3, 4, 5, 8
    from .. import minirust as _mr
    try:
        sem, nev = ev_phase(facts)
        msgs = {'new-normalises': 'every constructor returns the representative in (-1, 1]', 'operators': 'every operator impl computes the operation modulo 2 in operand order and returns a normalised phase',
                'predicates': 'the classification predicates agree with the value', 'conversions': 'conversions preserve the value', 'constants': 'zero() and one() are 0 and 1', 'limit-denominator': 'limit_denominator is the closest fraction within the bound, normalised'}
        for name, (ok, cex) in sorted(sem.items()):
            ck.ob('E3-phase', name, ok, 'quizx/src/phase.rs', '%s: %s' % (msgs[name], cex), sample={'evaluations': nev})
        ck.floor('E3-phase-evaluations', nev, 4000)
        ck.note('phase.rs: %d evaluations against exact arithmetic modulo 2' % nev)
        if all(v[0] for v in sem.values()):
            why = 'the values were decided by E3-phase in this run'
            ck.positive_only = {'R-OPS': why, 'R-TABLE-pred': why, 'R-ENCAP': why}
    except _mr.Panics as ex:
        ck.ob('E3-phase', 'no-panic', False, 'quizx/src/phase.rs', 'a phase operation panics on a small phase: %s' % ex)
    except (_mr.NoEval, _mr.Proceed, TypeError, KeyError, IndexError, AttributeError, ValueError) as ex:
        ck.ob3('E3-phase', 'evaluable', None, 'quizx/src/phase.rs', 'phase.rs is not evaluable by the interpreter (%s: %s): the value-level clauses are not decided (the structural rules below still are)' % (type(ex).__name__, ex))
    # D1
    for key, ok, site, msg in d1_encap(ck, facts):
        ck.ob('R-ENCAP', 'Phase/' + key, ok, ck.site(site) if site in ck.fns else site, msg, sample={'check': key})
    for k in ('phase::Phase::new', 'phase::Phase::normalize'):
        ck.fn(k)
    # D2
    paths = d2_normalize(facts)
    proved_all = bool(paths) and all(p['ok'] for p in paths)
    # finite-domain cross-check / fallback: normalize is interpreted on every n/d with d in 1..6 and |n| <= 6d; the result must lie in (-1, 1] and differ from the input by an even integer
    witness = None
    evaluable = True
    n_eval = 0
    try:
        for d_ in range(1, 7):
            for n_ in range(-6 * d_, 6 * d_ + 1):
                r_ = Fr(n_, d_)
                out_ = pred_eval(facts, 'phase::Phase::normalize', r_)
                n_eval += 1
                if not (isinstance(out_, tuple) and out_[0] == 'phase' and isinstance(out_[1], Fr)):
                    raise _NoPred('normalize does not yield a Phase value')
                v_ = out_[1]
                if not (-1 < v_ <= 1) or ((v_ - r_) / 2).denominator != 1:
                    witness = (r_, v_)
                    break
            if witness:
                break
    except (_NoPred, KeyError, TypeError, ZeroDivisionError) as ex:
        evaluable = False
        ev_why = str(ex)
    if witness:
        ck.ob('E3-range', 'phase::Phase::normalize/representative', False, ck.site('phase::Phase::normalize'),
              'normalize(%s) = %s, which is not the representative in (-1, 1] of the same class modulo 2' % witness)
    elif proved_all:
        for i, p in enumerate(paths):
            ck.ob('E3-range', 'phase::Phase::normalize/path-%d' % i, True, ck.site('phase::Phase::normalize'), '', sample={k: str(v) for k, v in p.items()})
        ck.ob('E3-range', 'phase::Phase::normalize/representative', evaluable, ck.site('phase::Phase::normalize'), '', sample={'inputs_evaluated': n_eval}) if evaluable else None
    elif evaluable:
        # the abstract interpreter does not understand this shape of the code; the finite-domain interpretation found no counterexample
        ck.ob('E3-range', 'phase::Phase::normalize/representative', True, ck.site('phase::Phase::normalize'), '', sample={'inputs_evaluated': n_eval, 'note': 'range not proved for all inputs by the template domain on this code shape; exhaustive for d <= 6, |n| <= 6d'})
    else:
        ck.ob3('E3-range', 'phase::Phase::normalize/representative', None, ck.site('phase::Phase::normalize'), 'normalize is neither provable in the template domain nor evaluable on integers (%s)' % ev_why)
    # D3
    impls = rops.op_impls(facts, lambda s: s == PHASE)
    for key, op, is_assign, _s in impls:
        f = ck.fn(key)
        ok, why, summ = rops.check_impl(f, op, is_assign)
        ck.ob('R-OPS', key, ok, ck.site(key), why, sample={'op': op, 'assign': is_assign, 'applications': summ})
    ck.floor('R-OPS', len(impls), 12)
    # Neg: must negate
    neg = '<phase::Phase as std::ops::Neg>::neg'
    f = ck.fn(neg)
    negs = [n for n in hir.nodes(f['hir']) if n.get('k') == 'Unary' and n['op'] == 'Neg']
    ck.ob('R-OPS', neg, len(negs) == 1, ck.site(neg), 'Neg for Phase does not apply exactly one negation', sample={'negations': len(negs)})
    # D4
    for key, ref in PRED_REF.items():
        f = ck.fn(key)
        # the predicate is evaluated, by interpreting its body, on every canonical phase with denominator 1, 2, 3, 4, 5, 8 and compared with the reference predicate
        bad = None
        try:
            for r_ in PRED_DOMAIN:
                got_v = pred_eval(facts, key, r_)
                if bool(got_v) != bool(PRED_SEM[key](r_)):
                    bad = (r_, got_v)
                    break
            ck.ob('R-TABLE-pred', key, bad is None, ck.site(key), ('the predicate answers %s for the phase %s, the reference classification (%s) answers %s' % (bad[1], bad[0], _show(ref), not bool(bad[1]))) if bad else '',
                  sample={'phases_evaluated': len(PRED_DOMAIN)})
        except _NoPred as ex:
            ck.ob3('R-TABLE-pred', key, None, ck.site(key), 'the predicate body is not evaluable by the rule (%s)' % ex)
    # D5: exact hits of limit_denominator — a fraction whose denominator is within the bound is returned unchanged
    from .. import paths
    lk = 'phase::utils::limit_denominator'
    lf = ck.fn(lk)
    ps = [p for p in lf['params'] if p.get('k') == 'Bind']
    hit = False
    for p2 in paths.return_paths(lf):
        if p2.kind != 'return' or p2.ret is None or not hir.local(p2.ret) or hir.local(p2.ret)[1] != ps[0]['id']:
            continue
        for c in p2.conds:
            if c[0] != 'cond':
                continue
            e, pol = hir.strip(c[1]), c[2]
            if e.get('k') == 'Binary' and e['op'] in ('Le', 'Ge', 'Lt', 'Gt'):
                l, r = hir.local_name(e['l']), hir.local_name(e['r'])
                op = e['op'] if pol else {'Le': 'Gt', 'Gt': 'Le', 'Lt': 'Ge', 'Ge': 'Lt'}[e['op']]
                # denom <= max_denom  (or max_denom >= denom)
                if (op == 'Le' and (l, r) == ('denom', ps[1]['name'])) or (op == 'Ge' and (l, r) == (ps[1]['name'], 'denom')):
                    hit = True
    dl = [n for n in hir.nodes(lf['hir']) if n.get('k') == 'Let' and n['pat'].get('k') == 'Bind' and n['pat']['name'] == 'denom' and 'denom()' in hir.pp(n['init'])]
    ck.ob('R-PATH', lk + '/exact-hit', hit and len(dl) == 1, ck.site(lk), 'a fraction whose denominator is <= the bound must be returned unchanged (exact hits, as Python\'s Fraction.limit_denominator); with a strict comparison the bound itself enters the search loop')
    # D6: the algorithm is CPython's Fraction.limit_denominator (the reference the property names): transition functions compared on polynomial normal forms
    from .. import refequiv
    try:
        for slot, ok, msg in refequiv.analyse(ck.fn(lk)):
            if slot == 'naming':
                ck.note('limit_denominator: locals matched to the reference variables as ' + msg)
                continue
            ck.ob('R-REFEQ', lk + '/' + slot, ok, ck.site(lk), msg, sample={'slot': slot})
    except refequiv.NotUnderstood as ex:
        ck.violation('R-REFEQ', lk + '/shape', ck.site(lk), 'limit_denominator is no longer a straight-line continued-fraction loop the symbolic executor understands (%s) (not-established-by-recognised-idiom)' % ex)
    ck.floor('R-REFEQ', ck.rules.get('R-REFEQ', [0, 0])[0], 6)
    # positive controls
    fx = fixture()
    ck.control('E3-range refutes the `<=` mutant of normalize', any(not p['ok'] for p in d2_normalize(fx, 'phase::Phase::normalize')))
    ck.control('R-OPS flags a Sub impl that adds', not rops.check_impl(fx['fns']['<phase::Phase as std::ops::Sub>::sub'], 'Sub', False)[0])
    ck.control('R-OPS flags swapped operands', not rops.check_impl(fx['fns']['<phase::Phase as std::ops::Div>::div'], 'Div', False)[0])
    ck.control('R-ENCAP flags a literal outside the constructor', any(not ok for _k, ok, _s, _m in d1_encap(ck, fx)))
    try:
        rq = refequiv.analyse(fixture()['fns']['phase::utils::limit_denominator'])
    except refequiv.NotUnderstood:
        rq = []
    ck.control('R-REFEQ flags a tie that goes to the other candidate', any(slot == 'final-compare' and ok is False for slot, ok, _m in rq))


def _show(d):
    if d is None:
        return 'unrecognised'
    if d[0] == 'in':
        return 'phase in {%s}' % ', '.join(str(x) for x in sorted(d[1]))
    return '%s %s' % d
