"""C11 — composition, adjoint and basis plugging."""
import os
import sys
from fractions import Fraction as Fr

import itertools

from .. import hir, rmatch, reffect, redge, paths, enumeval, minirust
from ..rmatch import closure_lits, dnf, thaw_formula, Blowup, N as EN
from ..controls import fixture

sys.path.insert(0, os.path.dirname(os.path.dirname(os.path.dirname(os.path.abspath(__file__)))))

ISID = 'graph::GraphLike::is_identity'


def is_identity_contract(facts, key=ISID):
    eng = rmatch.Engine(facts)
    f, ds, cx = eng.matcher(key, vertex_params=())
    if not ds:
        return None
    res = []
    closed = [closure_lits(d) for d in ds]

    def len_eq(fs, a, b):
        for (pol, at) in fs:
            if pol and at[0] == 'cmp' and at[1] == 'Eq' and {at[2], at[3]} == {('len', (a,)), ('len', (b,))}:
                return True
        return False

    def numv(fs):
        for (pol, at) in fs:
            if pol and at[0] == 'cmp' and at[1] == 'Eq' and ('num_vertices',) in (at[2], at[3]):
                other = at[3] if at[2] == ('num_vertices',) else at[2]
                if other[0] == 'arith' and other[1] == 'Mul' and ('lit', 2) in other[2:4] and ('len', ('inputs',)) in other[2:4]:
                    return True
        return False

    def wires(fs):
        for (pol, at) in fs:
            if pol and at[0] == 'forall':
                try:
                    bd = dnf(thaw_formula(at[2]))
                except Blowup:
                    continue
                ok = True
                for d in bd:
                    c = closure_lits(d)
                    if not any(p2 and a2[0] == 'etype' and a2[3] == EN and {a2[1][0], a2[2][0]} == {'idx'} and {a2[1][1], a2[2][1]} == {('inputs',), ('outputs',)} and a2[1][2] == a2[2][2] for (p2, a2) in c):
                        ok = False
                if ok and bd:
                    return True
        return False
    res.append(('|outputs| = |inputs|', all(len_eq(fs, 'inputs', 'outputs') for fs in closed)))
    res.append(('num_vertices = 2 * |inputs| (nothing but the boundary vertices)', all(numv(fs) for fs in closed)))
    res.append(('every i: the edge between input i and output i is a plain (non-Hadamard) edge', all(wires(fs) for fs in closed)))
    return res


class _EConst:
    """an enum constant that equals the interpreter's ('const', <def path>) whenever the last path segment agrees"""

    def __init__(self, name):
        self.name = name

    def __eq__(self, o):
        if isinstance(o, _EConst):
            return o.name == self.name
        return isinstance(o, tuple) and len(o) == 2 and o[0] == 'const' and str(o[1]).rsplit('::', 1)[-1] == self.name

    def __ne__(self, o):
        return not self == o
    __hash__ = None

    def __repr__(self):
        return self.name


def _host_graph(ins, outs, extra, edges):
    """a read-only host graph for the interpreter: vertices = ins + outs + extra; edges {(a, b): 'N' | 'H'} (a < b)"""
    vs = list(ins) + list(outs) + list(extra)

    def et(a, b):
        return edges.get((min(a, b), max(a, b)))

    def edge_type(a):
        t = et(a[0], a[1])
        if t is None:
            raise minirust.Panics('edge_type of vertices that are not connected')
        return _EConst(t)
    m = {
        'inputs': lambda a: list(ins), 'outputs': lambda a: list(outs), 'num_vertices': lambda a: len(vs), 'num_edges': lambda a: len(edges),
        'vertices': lambda a: sorted(vs), 'vertex_vec': lambda a: sorted(vs), 'contains_vertex': lambda a: a[0] in vs,
        'edge_type_opt': lambda a: minirust.some(_EConst(et(a[0], a[1]))) if et(a[0], a[1]) else minirust.NONE,
        'connected': lambda a: et(a[0], a[1]) is not None, 'edge_type': edge_type,
        'degree': lambda a: sum(1 for e in edges if a[0] in e), 'neighbors': lambda a: sorted(x for e in edges if a[0] in e for x in e if x != a[0]),
        'neighbor_vec': lambda a: sorted(x for e in edges if a[0] in e for x in e if x != a[0]),
        'vertex_type': lambda a: _EConst('B' if (a[0] in ins or a[0] in outs) else 'Z'),
        'incident_edges': lambda a: sorted(((x, _EConst(t)) for e, t in edges.items() if a[0] in e for x in e if x != a[0]), key=lambda z: z[0]),
        'incident_edge_vec': lambda a: sorted(((x, _EConst(t)) for e, t in edges.items() if a[0] in e for x in e if x != a[0]), key=lambda z: z[0]),
        'edges': lambda a: sorted(((e[0], e[1], _EConst(t)) for e, t in edges.items()), key=lambda z: z[:2]),
        'edge_vec': lambda a: sorted(((e[0], e[1], _EConst(t)) for e, t in edges.items()), key=lambda z: z[:2]),
    }
    return minirust.Obj('graph', m, strict=False)


def is_identity_semantics(f):
    """is_identity evaluated on every small boundary configuration: up to 2 inputs, 2 outputs, 1 interior vertex, every assignment of
    {none, plain, Hadamard} to the input-output pairs (plus an edge to the interior vertex).  Returns {conjunct: (ok, counterexample, n)}.
    Soundness only: whenever the function answers true the reference conjunct must hold; a panic is reported under 'answers without panicking'."""
    ps = [p for p in f['params'] if p.get('k') == 'Bind']
    if len(ps) != 1:
        raise minirust.NoEval('a single receiver expected')
    names = ('|outputs| = |inputs|', 'num_vertices = 2 * |inputs|', 'every i: the edge between input i and output i is a plain', 'answers without panicking')
    res = {n: [True, None, 0] for n in names}
    total = 0
    for ni, no, nx in itertools.product(range(3), range(3), range(2)):
        # vertex ids deliberately not in boundary order
        ins = [5, 2][:ni]
        outs = [7, 3][:no]
        extra = [9][:nx]
        pairs = [(min(a, b), max(a, b)) for a in ins for b in outs] + [(min(a, 9), max(a, 9)) for a in (ins[:1] if nx else [])]
        for choice in itertools.product((None, 'N', 'H'), repeat=len(pairs)):
            edges = dict((p_, c) for p_, c in zip(pairs, choice) if c)
            g = _host_graph(ins, outs, extra, edges)
            it = minirust.Interp(fuel=3000)
            total += 1
            desc = 'inputs %s, outputs %s, %d vertices, edges %s' % (ins, outs, ni + no + nx, edges)
            try:
                try:
                    got = it.ev(f['hir'], {ps[0]['id']: g})
                except minirust._Return as ex:
                    got = ex.v
            except minirust.Panics as ex:
                r = res['answers without panicking']
                r[2] += 1
                if r[0]:
                    r[0], r[1] = False, 'panics (%s) on %s' % (ex, desc)
                continue
            if not isinstance(got, bool):
                raise minirust.NoEval('result %r' % (got,))
            res['answers without panicking'][2] += 1
            conj = {'|outputs| = |inputs|': ni == no, 'num_vertices = 2 * |inputs|': ni + no + nx == 2 * ni,
                    'every i: the edge between input i and output i is a plain': all(edges.get((min(a, b), max(a, b))) == 'N' for a, b in zip(ins, outs))}
            for n, holds in conj.items():
                r = res[n]
                r[2] += 1
                if got and not holds and r[0]:
                    r[0], r[1] = False, 'answers true on %s' % desc
    return dict((k, tuple(v)) for k, v in res.items()), total


def is_identity_obligations(ck, facts, why=''):
    """D1, decided by evaluation; the must-fact reading of the accepting condition is the fallback when the evaluator declines."""
    key = ISID
    try:
        sem, total = is_identity_semantics(facts['fns'][key])
        for name, (ok, cex, n) in sem.items():
            ck.ob('R-MATCH', ISID + '/' + name, ok, ck.site(ISID), 'is_identity%s, evaluated on %d small diagrams: %s' % (why, total, cex), sample={'conjunct': name, 'diagrams': n})
        ck.floor('R-MATCH-is_identity-diagrams', total, 422)
        ck.note('is_identity: decided by evaluation on %d small diagrams' % total)
        return
    except (minirust.NoEval, minirust.Proceed, TypeError, KeyError, IndexError) as ex:
        why2 = str(ex)
    ck.note('is_identity: the evaluator declined (%s); decided from the must-facts of the accepting condition' % why2)
    r = is_identity_contract(facts)
    if r is None:
        ck.ob3('R-MATCH', ISID + '/analysable', None, ck.site(ISID), 'is_identity is neither evaluable (%s) nor is its accepting condition analysable' % why2)
        return
    for name, ok in r:
        ck.ob3('R-MATCH', ISID + '/' + name.split(' (')[0], True if ok else None, ck.site(ISID), 'is_identity%s: not evaluable (%s) and the accepting condition does not establish: %s' % (why, why2, name), sample={'conjunct': name})


def bounds_obligations(f, param):
    """every index `param[i]` is dominated by `i < param.len()` (also within one && chain: the test must come first)"""
    pid = None
    for p in f['params']:
        if p.get('k') == 'Bind' and p['name'] == param:
            pid = p['id']
    if pid is None:
        return None
    pm = hir.parent_map(f['hir'])
    res = []
    for n in hir.nodes(f['hir']):
        if n.get('k') == 'Index' and hir.local(n['e']) and hir.local(n['e'])[1] == pid:
            idx = n['i']
            ok = False
            for c in paths.dominating_conds(n, pm):
                if c[0] == 'cond' and c[2]:
                    e = hir.strip(c[1])
                    if e.get('k') == 'Binary' and e['op'] in ('Lt', 'Gt'):
                        a, b = (e['l'], e['r']) if e['op'] == 'Lt' else (e['r'], e['l'])
                        b0 = hir.strip(b)
                        if hir.same_expr(a, idx) and b0.get('k') == 'MethodCall' and b0['name'] == 'len' and hir.local(b0['recv']) and hir.local(b0['recv'])[1] == pid:
                            ok = True
            res.append((ok, n))
    # `param.get(i)` is a bounded access by construction
    for n in hir.nodes(f['hir']):
        if n.get('k') == 'MethodCall' and n['name'] == 'get' and len(n['args']) == 1 and hir.local(n['recv']) and hir.local(n['recv'])[1] == pid:
            res.append((True, n))
    return res


_IO_REN = {'inputs': 'IO', 'outputs': 'IO', 'inputs_mut': 'IO_mut', 'outputs_mut': 'IO_mut', 'set_inputs': 'set_IO', 'set_outputs': 'set_IO'}


def sibling_text(facts, key):
    """effect summary with inputs<->outputs neutralised and locals alpha-renamed"""
    lines, unk, subj = reffect.effects_of(facts, key, full=True)
    out = []
    for l in lines:
        for a, b in (('inputs', 'IO'), ('outputs', 'IO')):
            l = l.replace(a, b)
        out.append(l)
    unk = list(unk) + [l for l in out if reffect._UNK_MARK.search(l)][:2]
    return sorted(out), unk, subj


# ---------------------------------------------------------------- graph-level methods decided by evaluation on both interpreted back ends (round 2)

_GFN_CACHE = {}


def graph_function_results(facts):
    """{method name: (ok, counterexample)} from graphfn.run_all, or an exception instance when the evaluator declines (cached per fact base)"""
    from .. import graphfn
    k = id(facts)
    if k not in _GFN_CACHE:
        try:
            res, n = graphfn.run_all(facts)
            _GFN_CACHE[k] = (res, n)
        except minirust.Panics as ex:
            _GFN_CACHE[k] = ({'*': (False, 'a method panics on a small well-formed diagram: %s' % ex)}, 0)
        except (minirust.NoEval, minirust.Proceed, TypeError, KeyError, IndexError, AttributeError, ValueError) as ex:
            _GFN_CACHE[k] = ex
    return _GFN_CACHE[k]


def graph_function_obligations(ck, facts, keys, schemas, rule='R-EFFECT'):
    """for every GraphLike default method in `keys`: decided by evaluation (both back ends, every small diagram of graphfn.diagrams, every basis
    element / plug list / pair of diagrams); the effect-schema comparison is the fallback when the evaluator declines, and then only a positive
    match discharges (a difference in spelling is not a refutation).  Returns the set of method names decided by evaluation."""
    r = graph_function_results(facts)
    decided = set()
    if not isinstance(r, Exception):
        res, n = r
        for key in keys:
            name = key.rsplit('::', 1)[1]
            ck.fn(key)
            if '*' in res:
                ck.ob(rule, key + '/schema', False, ck.site(key), res['*'][1])
                decided.add(name)
            elif name in res:
                okv, cex = res[name]
                ck.ob(rule, key + '/schema', okv, ck.site(key), 'evaluated on small diagrams on both back ends: %s' % cex, sample={'evaluations': n})
                decided.add(name)
        ck.note('graph-level methods %s: decided by evaluation on both interpreted back ends (%d evaluations)' % (sorted(decided), n))
    else:
        ck.note('graph-level methods: the evaluator declined (%s: %s); effect schemas used, positive matches only' % (type(r).__name__, r))
    for key in keys:
        name = key.rsplit('::', 1)[1]
        if name in decided:
            continue
        got, unknown, subjects = reffect.effects_of(facts, key, no_vars=False, full=True)
        ck.fn(key)
        verdict, msg = reffect.compare_summaries(facts, got, schemas[key], subjects)
        ck.ob3(rule, key + '/schema', True if (verdict is True and not unknown) else None, ck.site(key),
               'the method is not evaluable and its effect summary does not match the schema as spelled (%s)' % (msg or unknown[:1]))
    return decided


_SEAM_CACHE = {}


def composition_obligations(ck, facts):
    """plug as a linear map on seams that merge into parallel edges of either colour (qxlib/plugsem.py): [[plug(g1, g2)]] = [[g2]] o [[g1]]"""
    from .. import plugsem, minirust
    site = ck.site('graph::GraphLike::plug') if ck.has_fn('graph::GraphLike::plug') else 'quizx/src/graph.rs'
    every = 1 if ck.tier == 'thorough' else 3
    key = (id(facts), every)
    if key not in _SEAM_CACHE:
        try:
            _SEAM_CACHE[key] = plugsem.run(facts, every=every)
        except (minirust.NoEval, minirust.Proceed, TypeError, KeyError, IndexError, AttributeError) as ex:
            _SEAM_CACHE[key] = ex
    r = _SEAM_CACHE[key]
    if isinstance(r, Exception):
        ck.ob3('E3-compose', 'plug/denotes-the-composition', None, site, 'the evaluator declined (%s: %s)' % (type(r).__name__, str(r)[:160]))
        return
    n, bad = r
    ck.ob('E3-compose', 'plug/denotes-the-composition', not bad, site, ('%s [%d of %d seams in this run]' % (bad[0][1], len(bad), n)) if bad else '', sample={'seams': n})
    ck.floor('E3-compose-seams', n, 1300 if every == 1 else 450)


def run(ck):
    facts = ck.facts
    from refs import effects_ref as E
    ck.decided('D6 (evaluation, small scope) plug denotes sequential composition, scalar included, on seams of one to three wires between two spiders of either colour with every combination of boundary edge types — every such seam '
               'merges into parallel edges that add_edge_smart fuses, cancels or turns into a phase — and on bare wires, swaps and multi-spider sides, on both back ends; the linear maps are computed by the brute-force contraction of qxlib/zxsem.py')
    composition_obligations(ck, facts)
    ck.decided('D1 is_identity establishes |in| = |out|, num_vertices = 2n and a PLAIN edge between input i and output i for every i (must-facts)',
               'D2 plug_inputs/plug_outputs index the basis list only under a dominating bound test; the four plug functions agree pairwise under inputs<->outputs; each plugged element costs sqrt2^-1 (count of non-SKIP in-range entries); basis table Z0/Z1 -> toggled edge with phase 0/pi, X0/X1 -> Z spider with phase 0/pi',
               'D3 adjoint negates every phase, exchanges inputs and outputs (old values) and conjugates the scalar; to_adjoint is clone + adjoint',
               'D4 plug: append, per seam read neighbour and edge type on both sides, EType::merge (table N.x = x, H.x = opposite x), smart insertion, BOTH boundary vertices removed, outputs replaced through the vertex map, arity mismatch panics; append_graph multiplies the scalars',
               'D5 x_to_z toggles every incident edge of every X spider exactly once; subgraph/copy obey the injective-copy edge idiom')
    ck.not_decided('tensor equalities (values)', 'cups/caps inside the plugged graph')
    # D1
    ck.fn(ISID)
    is_identity_obligations(ck, facts)
    # D2
    nb = 0
    for key in ('graph::GraphLike::plug_inputs', 'graph::GraphLike::plug_outputs'):
        f = ck.fn(key)
        bo = bounds_obligations(f, 'plug')
        nb += bool(bo)      # the floor counts functions in which accesses to the list were found, not spellings of the access
        for i, (ok, n) in enumerate(bo or []):
            ck.ob('R-BOUNDS', '%s/plug-index-%d' % (key, i), ok, ck.site(key, n),
                  '`%s` is evaluated without a dominating `i < plug.len()` test (a bound test placed after the index in the same && chain does not protect it): a list shorter than the wires panics' % hir.pp(n))
    ck.floor('R-BOUNDS', nb, 2)
    gkeys = ['graph::GraphLike::plug_input', 'graph::GraphLike::plug_output', 'graph::GraphLike::plug_inputs', 'graph::GraphLike::plug_outputs',
             'graph::GraphLike::adjoint', 'graph::GraphLike::to_adjoint', 'graph::GraphLike::plug', 'graph::GraphLike::append_graph', 'graph::GraphLike::x_to_z']
    decided = graph_function_obligations(ck, facts, gkeys, E.C11_SCHEMAS)
    # plug_vertex is exercised through plug_input / plug_output for every basis element
    if {'plug_input', 'plug_output'} <= decided:
        ck.fn('graph::GraphLike::plug_vertex')
    else:
        graph_function_obligations(ck, facts, ['graph::GraphLike::plug_vertex'], E.C11_SCHEMAS)
    for a, b in (('graph::GraphLike::plug_input', 'graph::GraphLike::plug_output'), ('graph::GraphLike::plug_inputs', 'graph::GraphLike::plug_outputs')):
        na, nb_ = a.rsplit('::', 1)[1], b.rsplit('::', 1)[1]
        if na in decided and nb_ in decided:
            continue          # both variants are held against the same reference semantics: their agreement follows
        ta, ua, sa = sibling_text(facts, a)
        tb, ub, sb = sibling_text(facts, b)
        subj = dict(sa)
        subj.update(sb)
        verdict, msg = reffect.compare_summaries(facts, ta, tb, subj)
        ck.ob3('R-SIB', '%s~%s' % (na, nb_), True if (verdict is True and not ua and not ub) else None, ck.site(a),
               'the variants are not evaluable and their effect summaries differ beyond inputs<->outputs as spelled: %s' % msg, sample={'effects': ta})
    B = 'graph::BasisElem::'
    ph = enumeval.table(facts, 'graph::BasisElem::phase', [[B + v for v in ('Z0', 'Z1', 'X0', 'X1')]])
    want = {(B + 'Z0',): Fr(0), (B + 'Z1',): Fr(1), (B + 'X0',): Fr(0), (B + 'X1',): Fr(1)}
    ck.ob('R-TABLE-basis', 'BasisElem::phase', ph == want, ck.site('graph::BasisElem::phase'), 'phase table is %s, expected Z0,X0 -> 0 and Z1,X1 -> pi' % {k[0].rsplit('::', 1)[1]: str(v) for k, v in ph.items()})
    iz = enumeval.table(facts, 'graph::BasisElem::is_z', [[B + v for v in ('Z0', 'Z1', 'X0', 'X1', 'SKIP')]])
    wantz = {(B + 'Z0',): True, (B + 'Z1',): True, (B + 'X0',): False, (B + 'X1',): False, (B + 'SKIP',): False}
    ck.ob('R-TABLE-basis', 'BasisElem::is_z', iz == wantz, ck.site('graph::BasisElem::is_z'), 'is_z table is %s' % {k[0].rsplit('::', 1)[1]: v for k, v in iz.items()})
    ET = 'graph::EType::'
    mg = enumeval.table(facts, 'graph::EType::merge', [[ET + 'N', ET + 'H'], [ET + 'N', ET + 'H']])
    wantm = {(ET + 'N', ET + 'N'): ET + 'N', (ET + 'N', ET + 'H'): ET + 'H', (ET + 'H', ET + 'N'): ET + 'H', (ET + 'H', ET + 'H'): ET + 'N'}
    ck.ob('R-TABLE-basis', 'EType::merge', mg == wantm, ck.site('graph::EType::merge'), 'merge table is %s; two wires in series carry the parity of their Hadamards' % {tuple(x.rsplit('::', 1)[1] for x in k): str(v).rsplit('::', 1)[-1] for k, v in mg.items()})
    op = enumeval.table(facts, 'graph::EType::opposite', [[ET + 'N', ET + 'H', ET + 'Wio']])
    ck.ob('R-TABLE-basis', 'EType::opposite', op == {(ET + 'N',): ET + 'H', (ET + 'H',): ET + 'N', (ET + 'Wio',): ET + 'Wio'}, ck.site('graph::EType::opposite'), 'opposite table is %s' % op)
    # D5
    copied = graph_function_obligations(ck, facts, ['graph::GraphLike::subgraph_from_vertices', 'graph::GraphLike::copy'], {}, rule='R-EDGE') if not isinstance(graph_function_results(facts), Exception) else set()
    rs = redge.raw_sites(facts, [k for k in ('graph::GraphLike::subgraph_from_vertices', 'graph::GraphLike::copy', 'graph::GraphLike::append_graph') if k.rsplit('::', 1)[1] not in (copied | decided)])
    from .C01 import _is_injective_copy
    for i, (key, c, just, detail) in enumerate(rs):
        ok = just is not None or _is_injective_copy(facts['fns'][key], c)
        ck.ob3('R-EDGE', '%s/copy-%d' % (key, i), True if ok else None, ck.site(key, c), 'the method is not evaluable and an edge is copied with a raw insertion whose endpoints were not recognised as images under one vertex map')
    ck.floor('R-EDGE', len(rs) + len(copied | (decided & {'append_graph'})), 3)
    # positive controls
    fx = fixture()
    bo = bounds_obligations(fx['fns']['graph::plug_inputs_bad'], 'plug')
    ck.control('R-BOUNDS flags an index evaluated before its bound test', bool(bo) and any(not ok for ok, _n in bo))
