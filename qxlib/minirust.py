"""A small interpreter for collection-manipulating fragments of the HIR (Vec / HashMap / iterator chains / closures / tuples / Option) on concrete
Python values.  Used by rules whose clause is about WHAT a fragment computes (an order, a permutation, a table) rather than how it is spelled:
the fragment is evaluated on a few small, well-chosen inputs and the result is compared with the reference.  It interprets the source tree of
/repo; nothing of the analysed crate is compiled or executed.  Anything outside the supported subset raises NoEval (the caller reports
"undecided")."""
from . import hir


import re

_FLOAT = re.compile(r'^Float\("([^"]*)"')


class NoEval(Exception):
    pass


class Panics(NoEval):
    """the fragment would panic on this input (index out of bounds, unwrap on None): callers that care may treat it as an observed outcome"""


_FMT_CACHE = {}


def rust_float(x, debug=False):
    """`{}` / `{:?}` of an f64 as Rust prints it: the shortest digits that round-trip; Display is always positional (and drops a trailing `.0`);
    Debug keeps `.0` and switches to exponent form below 1e-4 and from 1e16 on"""
    import math
    from decimal import Decimal
    if math.isnan(x):
        return 'NaN'
    if math.isinf(x):
        return 'inf' if x > 0 else '-inf'
    d = Decimal(repr(x))
    if debug and x != 0 and (abs(x) < 1e-4 or abs(x) >= 1e16):
        sign, digits, exp = d.as_tuple()
        digits = list(digits)
        while len(digits) > 1 and digits[-1] == 0:
            digits.pop()
            exp += 1
        e10 = exp + len(digits) - 1
        m = str(digits[0]) + ('.' + ''.join(map(str, digits[1:])) if len(digits) > 1 else '')
        return '%s%se%d' % ('-' if sign else '', m, e10)
    s = format(d, 'f')
    if '.' in s:
        s = s.rstrip('0')
        if s.endswith('.'):
            s = s[:-1]
    if debug and '.' not in s:
        s += '.0'
    if s in ('-0', '-0.0') and not math.copysign(1, x) < 0:
        s = s[1:]
    return s


class FmtArgs(str):
    """the text of an evaluated format_args!"""


class _Break(Exception):
    def __init__(self, target=None, value=None):
        Exception.__init__(self)
        self.target, self.value = target, value


class _Continue(Exception):
    def __init__(self, target=None):
        Exception.__init__(self)
        self.target = target


class _Return(Exception):
    def __init__(self, v):
        self.v = v


class Proceed(Exception):
    """raised by a host object when the fragment reaches an operation the host does not model: evaluation got this far"""

    def __init__(self, what):
        Exception.__init__(self, what)
        self.what = what


class Obj:
    """an opaque object with host-provided methods: methods[name](args) -> value; with strict=False every other method raises Proceed"""

    def __init__(self, name, methods, strict=True):
        self.name = name
        self.methods = methods
        self.strict = strict

    def __repr__(self):
        return '<%s>' % self.name


class Cell:
    """a `&mut` to a scalar slot of a container (element of iter_mut() / values_mut()): reads and writes go through"""

    def __init__(self, base, key):
        self.base, self.key = base, key

    def get(self):
        return self.base[self.key]

    def set(self, v):
        self.base[self.key] = v

    def __repr__(self):
        return '&mut %r' % (self.get(),)


def _scalar(v):
    return isinstance(v, (int, float, str, bool)) or (isinstance(v, tuple) and not isinstance(v, Obj))


class _OptSlot:
    """view of the payload of a `Some(x)` stored in a cell: index 0 reads / writes x"""

    def __init__(self, cell):
        self.cell = cell

    def __getitem__(self, i):
        return self.cell.get()[1]

    def __setitem__(self, i, v):
        self.cell.set(some(v))


class Deque(list):
    """a VecDeque whose ring buffer is laid out as two slices: elements [0, split) and [split, len).  Code that treats the two slices
    separately (as_slices / as_mut_slices) sees exactly this layout; make_contiguous() removes it."""

    def __init__(self, items=(), split=None):
        list.__init__(self, items)
        self.split = len(self) if split is None else split


class View(Obj):
    """a mutable sub-slice [lo, hi) of a list (writes go through)"""

    def __init__(self, base, lo, hi):
        self.base, self.lo, self.hi = base, lo, hi

        def rev(a):
            self.base[self.lo:self.hi] = self.base[self.lo:self.hi][::-1]

        def swap(a):
            i, j = a
            if not (0 <= i < self.hi - self.lo and 0 <= j < self.hi - self.lo):
                raise Panics('swap out of bounds')
            self.base[self.lo + i], self.base[self.lo + j] = self.base[self.lo + j], self.base[self.lo + i]
        Obj.__init__(self, 'slice', {'reverse': rev, 'swap': swap, 'len': lambda a: self.hi - self.lo, 'is_empty': lambda a: self.hi == self.lo,
                                     'iter': lambda a: self.base[self.lo:self.hi],
                                     'iter_mut': lambda a: [(Cell(self.base, i_) if (_scalar(self.base[i_]) or _is_opt(self.base[i_])) else self.base[i_]) for i_ in range(self.lo, self.hi)],
                                     'to_vec': lambda a: deep_clone(self.base[self.lo:self.hi])}, strict=True)

    def getitem(self, i):
        if isinstance(i, int) and 0 <= i < self.hi - self.lo:
            return self.base[self.lo + i]
        raise Panics('index out of bounds')


_INT_TY = {'u8': (8, False), 'u16': (16, False), 'u32': (32, False), 'u64': (64, False), 'u128': (128, False), 'usize': (64, False),
           'i8': (8, True), 'i16': (16, True), 'i32': (32, True), 'i64': (64, True), 'i128': (128, True), 'isize': (64, True)}


def int_ty(t):
    return _INT_TY.get((t or '').replace('&', '').replace('mut ', '').strip())


def wrap_int(v, ty):
    """two's-complement value of v in integer type ty"""
    w, signed = ty
    v &= (1 << w) - 1
    if signed and v >> (w - 1):
        v -= 1 << w
    return v


def in_range(v, ty):
    w, signed = ty
    return (-(1 << (w - 1)) <= v < (1 << (w - 1))) if signed else (0 <= v < (1 << w))


def _is_log_guard(c):
    """the level test the `log` crate's macros expand to"""
    for n in hir.nodes(c):
        if n.get('k') in ('Call', 'Path'):
            p_ = hir.callee(n) if n.get('k') == 'Call' else ((n.get('res') or {}).get('path') or '')
            if p_ in ('log::max_level', 'log::STATIC_MAX_LEVEL'):
                return True
    return False


def _exp(v):
    import math
    try:
        return math.exp(v)
    except OverflowError:
        return float('inf')


def _float_method(nm, x, args):
    import math
    if not isinstance(x, (int, float)) or isinstance(x, bool):
        return NotImplemented
    x = float(x)
    if nm in ('cos', 'sin', 'sqrt', 'abs', 'floor', 'ceil', 'round', 'exp', 'ln', 'tan', 'atan') and not args:
        if nm == 'sqrt' and x < 0:
            return float('nan')
        return {'cos': math.cos, 'sin': math.sin, 'sqrt': math.sqrt, 'abs': abs, 'floor': lambda v: float(math.floor(v)), 'ceil': lambda v: float(math.ceil(v)),
                'round': lambda v: float(math.floor(abs(v) + 0.5)) * (1 if v >= 0 else -1), 'exp': _exp, 'ln': math.log, 'tan': math.tan, 'atan': math.atan}[nm](x)
    if nm == 'clamp' and len(args) == 2 and all(isinstance(a_, (int, float)) and not isinstance(a_, bool) for a_ in args):
        lo, hi = float(args[0]), float(args[1])
        if not lo <= hi:
            raise Panics('clamp with min > max or a NaN bound')
        return x if x != x else min(max(x, lo), hi)
    if nm in ('min', 'max') and len(args) == 1 and isinstance(args[0], float):
        y = args[0]
        if x != x:
            return y
        if y != y:
            return x
        return min(x, y) if nm == 'min' else max(x, y)
    if nm == 'powi' and len(args) == 1:
        return x ** args[0]
    if nm == 'atan2' and len(args) == 1:
        return math.atan2(x, args[0])
    if nm == 'is_zero' and not args:
        return x == 0.0
    if nm in ('is_nan', 'is_finite', 'is_infinite') and not args:
        return {'is_nan': math.isnan, 'is_finite': math.isfinite, 'is_infinite': math.isinf}[nm](x)
    if nm == 'integer_decode' and not args:
        if x == 0.0:
            return (0, -1075, -1 if math.copysign(1.0, x) < 0 else 1)
        if not math.isfinite(x):
            raise NoEval('integer_decode of %r' % x)
        m, e = math.frexp(abs(x))
        return (int(m * (1 << 53)), e - 53, -1 if x < 0 else 1)
    if nm in ('to_f64', 'to_f32') and not args:
        return some(x)
    return NotImplemented


def _hashable(k):
    if isinstance(k, Cell):
        k = k.get()
    if isinstance(k, list):
        return tuple(_hashable(x) for x in k)
    if isinstance(k, tuple):
        return tuple(_hashable(x) for x in k)
    return k


class PeekIter(Obj):
    """a stateful iterator (`.peekable()`, or an iterator bound to a local and advanced with next())"""

    def __init__(self, items):
        self.items, self.pos = list(items), 0
        Obj.__init__(self, 'iterator', {
            'peek': lambda a: some(self.items[self.pos]) if self.pos < len(self.items) else NONE,
            'next': self._next, 'by_ref': lambda a: self, 'peekable': lambda a: self,
            'collect': lambda a: self._rest(), 'count': lambda a: len(self._rest()),
            'next_if_eq': self._next_if_eq, 'next_if': self._next_if,
        }, strict=True)

    def _next_if_eq(self, a):
        x = a[0].get() if isinstance(a[0], Cell) else a[0]
        if self.pos < len(self.items) and self.items[self.pos] == x:
            return self._next(())
        return NONE

    def _next_if(self, a):
        if self.pos < len(self.items) and a[0](self.items[self.pos]):
            return self._next(())
        return NONE

    def _next(self, a):
        if self.pos < len(self.items):
            self.pos += 1
            return some(self.items[self.pos - 1])
        return NONE

    def _rest(self):
        r = self.items[self.pos:]
        self.pos = len(self.items)
        return r


def deep_clone(v):
    """Rust's Clone on the modelled containers (host objects are shared: they are immutable values or deliberate references)"""
    if isinstance(v, dict):
        return dict((k, deep_clone(x)) for k, x in v.items())
    if hasattr(v, 'mr_clone'):
        return v.mr_clone()
    if isinstance(v, Deque):
        return Deque([deep_clone(x) for x in v], v.split)
    if isinstance(v, list):
        return [deep_clone(x) for x in v]
    if isinstance(v, tuple) and not isinstance(v, Obj) and any(isinstance(x, (dict, list, tuple)) for x in v):
        return tuple(deep_clone(x) for x in v)
    return v


HASH_ITER_SORTED = False      # an evaluator may fix an iteration order for hash sets where the property must hold for every order


class HSet(Obj):
    """HashSet / BTreeSet of hashable values: membership only (iteration order of a hash set is unspecified, so iterating one is not evaluated)"""
    def __init__(self, items=(), ordered=False):
        self.s = set(_hashable(x) for x in items)
        self.ordered = ordered
        Obj.__init__(self, 'set', {
            'insert': self._insert, 'contains': lambda a: _hashable(_uncell(a[0])) in self.s, 'remove': self._remove,
            'len': lambda a: len(self.s), 'is_empty': lambda a: not self.s, 'clear': lambda a: self.s.clear() or (),
            'iter': self._iter, 'into_iter': self._iter, 'extend': lambda a: self.s.update(_hashable(x) for x in a[0]) or (),
        }, strict=True)

    def _insert(self, a):
        x = _hashable(_uncell(a[0]))
        new = x not in self.s
        self.s.add(x)
        return new

    def _remove(self, a):
        x = _hashable(_uncell(a[0]))
        had = x in self.s
        self.s.discard(x)
        return had

    def _iter(self, a):
        if self.ordered or HASH_ITER_SORTED:
            return sorted(self.s)
        if len(self.s) <= 1:
            return list(self.s)
        raise NoEval('iteration over a hash set')

    def mr_clone(self):
        r = HSet((), self.ordered)
        r.s = set(self.s)
        return r

    def __eq__(self, o):
        return isinstance(o, HSet) and self.s == o.s

    def __hash__(self):
        return hash(frozenset(self.s))


def _uncell(x):
    return x.get() if isinstance(x, Cell) else x


SOME = 'Some'
NONE = ('None',)


def some(x):
    return (SOME, x)


def _is_opt(v):
    return isinstance(v, tuple) and len(v) in (1, 2) and v[0] in (SOME, 'None') and (v == NONE or len(v) == 2)


class Interp:
    def __init__(self, fuel=20000, facts=None, inline=None):
        self.fuel = fuel
        self.facts = facts        # when given, calls of functions of the analysed crate are interpreted from their HIR (if `inline(key)` allows it)
        self.inline = inline
        self.depth = 0
        self.copy_types = set()      # ADTs passed by value are copied at calls (set by the user for Copy types)
        self.self_ty = []            # implementing type while a provided trait method is interpreted

    def _format_args(self, b, env):
        """a `format_args!` expansion evaluates to its text (arguments printed with str(); only plain `{}` placeholders)"""
        cache = _FMT_CACHE
        key = id(b)
        if key not in cache:
            hit = None
            if any(n_.get('k') == 'Lit' and str(n_.get('v', '')).startswith('ByteStr(') for n_ in hir.nodes(b)):
                for tmpl, args, node in hir.format_calls(b):
                    if node is b:
                        hit = (tmpl, args, node)
            cache[key] = (b, hit)      # the node is kept so that its id stays valid
        hit = cache[key][1]
        for tmpl, args, node in ([hit] if hit else []):
            if node is b:
                if tmpl is None:
                    raise NoEval('format template')
                vals = [self.ev(a, env) for a in args]
                parts = tmpl.split('{}')
                if len(parts) != len(vals) + 1:
                    raise NoEval('format placeholders')
                # the formatting trait of each placeholder: `let args = [Argument::new_display(args.0), Argument::new_debug(args.1), ..]`
                kinds = []
                if len(b['stmts']) >= 2 and b['stmts'][1].get('k') == 'Let' and b['stmts'][1].get('init') is not None:
                    arr_ = hir.strip(b['stmts'][1]['init'])
                    for it_ in (arr_.get('items') or []) if arr_.get('k') == 'Array' else []:
                        it_ = hir.strip(it_)
                        cn_ = (hir.callee(it_) or '') if it_.get('k') == 'Call' else ''
                        fld_ = hir.strip(it_['args'][0]) if it_.get('k') == 'Call' and it_.get('args') else {}
                        kinds.append((cn_.rsplit('::', 1)[-1], int(fld_['name']) if fld_.get('k') == 'Field' and str(fld_.get('name', '')).isdigit() else None))
                if kinds and (len(kinds) != len(vals) or [k_[1] for k_ in kinds] != list(range(len(vals)))):
                    raise NoEval('format arguments used out of order or more than once')
                out = parts[0]
                for i_, (v, rest) in enumerate(zip(vals, parts[1:])):
                    kind_ = kinds[i_][0] if kinds else 'new_display'
                    if kind_ not in ('new_display', 'new_debug'):
                        raise NoEval('formatting trait %s' % kind_)
                    dbg_ = kind_ == 'new_debug'
                    if isinstance(v, Cell):
                        v = v.get()
                    if isinstance(v, bool):
                        v = 'true' if v else 'false'
                    elif isinstance(v, float):
                        v = rust_float(v, dbg_)
                    elif dbg_ and isinstance(v, str):
                        if any(ch in v for ch in '"\\\n\t\r') or not v.isprintable():
                            raise NoEval('debug formatting of a string with escapes')
                        v = '"%s"' % v
                    elif dbg_ and hasattr(v, 'fmt_debug'):
                        v = v.fmt_debug()
                    elif dbg_ and not isinstance(v, int):
                        raise NoEval('debug formatting of %r' % (v,))
                    elif not isinstance(v, (str, int)) and not hasattr(v, 'fmt_display'):
                        raise NoEval('formatting of %r' % (v,))
                    out += (v.fmt_display() if hasattr(v, 'fmt_display') else str(v)) + rest
                return FmtArgs(out)
        return None

    def local_call(self, key, argvals):
        f = self.facts['fns'][key]
        if self.depth >= 24:
            raise NoEval('call depth')
        if len(f['params']) != len(argvals):
            raise NoEval('arity of %s' % key)
        env = {}
        for p, a in zip(f['params'], argvals):
            if isinstance(a, dict) and '__struct__' in a and not (p.get('ty') or '&').startswith('&'):
                a = deep_clone(a)        # passed by value (copy or move): the callee works on its own value
            if not self.bind(p, a, env):
                raise NoEval('parameter pattern of %s' % key)
        self.depth += 1
        try:
            return self.ev(f['hir'], env)
        except _Return as r:
            return r.v
        finally:
            self.depth -= 1

    def _op_impl(self, trait, lty, rty):
        """impl fn of an overloaded operator of the analysed crate, chosen by the operand types as written"""
        if self.facts is None:
            return None
        lty, rty = (lty or '').strip(), (rty or '').strip()
        cands = []
        for im in self.facts.get('impls', []):
            t = im.get('trait') or ''
            if not (t == 'std::ops::' + trait or t.startswith('std::ops::' + trait + '<')):
                continue
            arg = t[len('std::ops::' + trait):]
            arg = arg[1:-1] if arg.startswith('<') else im['self'].replace('&', '').strip()
            if im['self'].replace('mut ', '').strip() == lty.replace('mut ', '') and arg.replace('mut ', '').strip() == rty.replace('mut ', ''):
                cands.append(im['methods'][0][1])
        return cands[0] if len(cands) == 1 and self._inlinable(cands[0]) else None

    def _impl_method(self, self_ty, name, trait_prefix=None):
        """fn key of method `name` in an impl block for `self_ty` of the analysed crate (trait impls and inherent impls)"""
        if self.facts is None:
            return None
        out = []
        for im in self.facts.get('impls', []):
            if im['self'].replace('&', '').replace('mut ', '').strip() != self_ty:
                continue
            if trait_prefix is not None and not (im.get('trait') or '').startswith(trait_prefix):
                continue
            for n, k in im['methods']:
                if n == name:
                    out.append(k)
        out = [k for k in out if self._inlinable(k)]
        return out[0] if len(out) == 1 else None

    def _tryfrom_key(self, src_ty, res_ty):
        """fn key of `impl TryFrom<src> for dst` of the analysed crate, dst read off the result type `Result<dst, _>`"""
        t = (res_ty or '').replace('std::result::', '').strip()
        if not t.startswith('Result<'):
            return None
        depth, dst = 0, None
        for i_, ch in enumerate(t[7:]):
            if ch in '<([':
                depth += 1
            elif ch in '>)]':
                depth -= 1
            elif ch == ',' and depth == 0:
                dst = t[7:7 + i_].strip()
                break
        if dst is None:
            return None
        src = (src_ty or '').strip()
        cands = []
        for s_ in (src, src.lstrip('&').replace('mut ', '').strip()):
            suffix = '<impl std::convert::TryFrom<%s> for %s>::try_from' % (s_, dst)
            cands = [k for k in self.facts['fns'] if k.endswith(suffix)]
            if cands:
                break
        return cands[0] if len(cands) == 1 and self._inlinable(cands[0]) else None

    def _inlinable(self, c):
        return self.facts is not None and c in self.facts['fns'] and (self.inline is None or self.inline(c))

    def tick(self):
        self.fuel -= 1
        if self.fuel < 0:
            raise NoEval('evaluation budget exhausted')

    # ------------------------------------------------------------ patterns
    def bind(self, p, v, env):
        k = p.get('k')
        if isinstance(v, Cell) and k not in ('Bind', 'Wild'):
            inner_ = v.get()
            if _is_opt(inner_) and inner_ != NONE and not _scalar(inner_[1]):
                v = inner_            # Some(container): the container itself is the reference
            elif _is_opt(inner_) and k == 'TupleStruct':
                # Some(scalar) behind a &mut: bind the payload as a cell into a one-slot box so that writes reach the option
                if inner_ == NONE:
                    v = inner_
                else:
                    box_ = _OptSlot(v)
                    return self.bind(p['sub'][0], Cell(box_, 0), env) if (hir.pat_ctor(p) or '').endswith('Some') else False
            else:
                v = inner_
        if k == 'Bind':
            env[p['id']] = v
            if p.get('sub'):
                return self.bind(p['sub'], v, env)
            return True
        if k == 'Wild':
            return True
        if k == 'Ref':
            return self.bind(p['sub'], v, env)
        if k == 'Tuple':
            if not isinstance(v, (tuple, list)) or len(v) != len(p['sub']) or _is_opt(v):
                raise NoEval('tuple pattern on %r' % (v,))
            return all(self.bind(sp, x, env) for sp, x in zip(p['sub'], v))
        if k == 'TupleStruct':
            c = (hir.pat_ctor(p) or '')
            if c.endswith('Some'):
                if _is_opt(v) and v[0] == SOME:
                    return self.bind(p['sub'][0], v[1], env)
                if v == NONE:
                    return False
            if isinstance(v, tuple) and len(v) == 3 and v[0] == 'ctor' and c:
                if v[1] != c:
                    if (v[1] or '').rsplit('::', 1)[0] != c.rsplit('::', 1)[0]:
                        raise NoEval('pattern %s on a value of another type' % hir.pp_pat(p))
                    return False
                if len(v[2]) != len(p['sub']):
                    raise NoEval('pattern %s arity' % hir.pp_pat(p))
                return all(self.bind(sp, x, env) for sp, x in zip(p['sub'], v[2]))
            raise NoEval('pattern %s' % hir.pp_pat(p))
        if k == 'Struct':
            if isinstance(v, Cell):
                v = v.get()
            ct_ = p.get('ctor') or {}
            if ct_.get('dk') == 'Variant' and ct_.get('path') and isinstance(v, tuple) and len(v) in (2, 3) and v[0] in ('const', 'ctor') \
                    and str(v[1]).rsplit('::', 1)[0] == ct_['path'].rsplit('::', 1)[0] and v[1] != ct_['path']:
                return False          # a unit / tuple variant of the same enum
            if not (isinstance(v, dict) and '__struct__' in v):
                raise NoEval('struct pattern on %r' % (v,))
            if ct_.get('dk') == 'Variant' and ct_.get('path') and v['__struct__'] != ct_['path']:
                # a struct-like enum variant: another variant of the same enum does not match
                if str(v['__struct__']).rsplit('::', 1)[0] == ct_['path'].rsplit('::', 1)[0]:
                    return False
                raise NoEval('variant pattern %s on a value of another type' % ct_['path'])
            for n_, sp in p['fields']:
                if n_ not in v:
                    raise NoEval('field %s in a struct pattern' % n_)
                if not self.bind(sp, v[n_], env):
                    return False
            return True
        if k == 'Path':
            c = p['res'].get('path') or ''
            if c.endswith('None'):
                if _is_opt(v):
                    return v == NONE
                raise NoEval('None pattern on a non-option')
            return v == ('const', c)
        if k == 'Lit':
            lv_ = hir.lit_int({'k': 'Lit', 'v': p['v']})
            if lv_ is None:
                lb_ = hir.lit_bool({'k': 'Lit', 'v': p['v']})
                if lb_ is not None:
                    return lb_ == v
                ls_ = hir.lit_str({'k': 'Lit', 'v': p['v']})
                if ls_ is not None:
                    return ls_ == v
                mc_ = re.match(r"^Char\('(.*)'\)$", p.get('v') or '', re.S)
                if mc_:
                    return (hir._unescape(mc_.group(1)) if hasattr(hir, '_unescape') else mc_.group(1)) == v
                raise NoEval('literal pattern %s' % hir.pp_pat(p))
            v = v.get() if isinstance(v, Cell) else v
            return (-lv_ if p.get('neg') else lv_) == v
        if k == 'Range':
            v = v.get() if isinstance(v, Cell) else v

            def bound(b):
                if b is None:
                    return None
                if b.get('k') == 'Lit':
                    x = hir.lit_int({'k': 'Lit', 'v': b['v']})
                    if x is None:
                        mc_ = re.match(r"^Char\('(.*)'\)$", b.get('v') or '', re.S)
                        if mc_:
                            return hir._unescape(mc_.group(1))
                        raise NoEval('range pattern bound %s' % b.get('v'))
                    return -x if b.get('neg') else x
                if b.get('k') == 'Path':
                    return self.ev({'k': 'Path', 'res': b['res'], 'ty': ''}, env)
                raise NoEval('range pattern bound')
            if 'lo' not in p:
                raise NoEval('range pattern')
            lo_, hi_ = bound(p.get('lo')), bound(p.get('hi'))
            if isinstance(v, bool) or not isinstance(v, (int, str)) or any(b is not None and type(b) is not type(v) for b in (lo_, hi_)):
                raise NoEval('range pattern on %r' % (v,))
            return (lo_ is None or lo_ <= v) and (hi_ is None or (v <= hi_ if p.get('incl') else v < hi_))
        if k == 'Or':
            return any(self.bind(sp, v, env) for sp in p['sub'])
        if k == 'Slice':
            if not isinstance(v, list):
                raise NoEval('slice pattern on %s' % type(v).__name__)
            pre, mid, post = p.get('pre') or [], p.get('mid'), p.get('post') or []
            if mid is None:
                if len(v) != len(pre) + len(post):
                    return False
            elif len(v) < len(pre) + len(post):
                return False
            ok = all(self.bind(sp, x, env) for sp, x in zip(pre, v[:len(pre)]))
            ok = ok and all(self.bind(sp, x, env) for sp, x in zip(post, v[len(v) - len(post):] if post else []))
            if ok and mid is not None and isinstance(mid, dict):
                ok = self.bind(mid, v[len(pre):len(v) - len(post)], env)
            return ok
        raise NoEval('pattern %s' % hir.pp_pat(p))

    # ------------------------------------------------------------ expressions
    def val(self, e, env):
        """evaluate in a value context: a struct read out of a place (local, field, element, *reference) is a copy or a move, never an alias"""
        v = self.ev(e, env)
        if isinstance(v, dict) and '__struct__' in v and e.get('k') != 'AddrOf' and not (e.get('ty') or '').startswith('&'):
            e1 = e
            while e1.get('k') == 'Block' and not e1['stmts'] and e1.get('expr') is not None:
                e1 = e1['expr']
            if e1.get('k') in ('Path', 'Field', 'Index') or (e1.get('k') == 'Unary' and e1.get('op') == 'Deref'):
                return deep_clone(v)
        if isinstance(v, tuple) and len(v) == 3 and v[0] == 'ctor' and v[2] and e.get('k') in ('Path', 'Field', 'Index', 'Unary') and not (e.get('ty') or '').startswith('&'):
            return deep_clone(v)       # an enum value with a payload read out of a place: a copy or a move, never an alias
        return v

    def ev(self, e, env):
        self.tick()
        e0 = e
        if e.get('k') == 'AddrOf' and e.get('mut') and (e.get('ty') or '').startswith('&mut ') and int_ty((e.get('ty') or '')[5:].strip()) is not None:
            # `&mut n` of an integer local: a reference to the variable's slot, so that writes through it in a callee reach the variable
            in_ = hir.strip(e['e'])
            l_ = hir.local(in_) if in_ is not None else None
            if l_ and l_[1] in env and isinstance(env[l_[1]], int) and not isinstance(env[l_[1]], bool):
                return Cell(env, l_[1])
        deref_ = False
        while e is not None and (e.get('k') == 'AddrOf' or (e.get('k') == 'Unary' and e['op'] == 'Deref') or (e.get('k') == 'Block' and not e['stmts'] and e['expr'] is not None)):
            deref_ = deref_ or e.get('k') == 'Unary'
            e = e['e'] if e.get('k') != 'Block' else e['expr']
        if deref_ or e0 is not e:
            v_ = self.ev(e, env)
            return v_.get() if (deref_ and isinstance(v_, Cell)) else v_
        k = e.get('k')
        if k == 'Block' and e['stmts'] and e['stmts'][0].get('k') == 'Let':
            ft = self._format_args(e, env)
            if ft is not None:
                return ft
        rb_ = hir.range_bounds(e) if k in ('Struct', 'Call') else None
        if rb_ is not None and rb_[0] is not None and rb_[1] is not None:
            lo_, hi_ = self.ev(rb_[0], env), self.ev(rb_[1], env)
            if isinstance(lo_, int) and isinstance(hi_, int):
                return list(range(lo_, hi_ + (1 if rb_[2] else 0)))
        if k == 'Lit':
            v = hir.lit_int(e)
            if v is not None:
                return v
            b = hir.lit_bool(e)
            if b is not None:
                return b
            s = hir.lit_str(e)
            if s is not None:
                return s
            mc_ = re.match(r"^Char\('(.*)'\)$", e.get('v') or '', re.S)
            if mc_:
                return hir._unescape(mc_.group(1)) if hasattr(hir, '_unescape') else mc_.group(1)
            m_ = _FLOAT.match(e.get('v') or '')
            if m_:
                return float(m_.group(1))
            raise NoEval('literal')
        if k == 'Path':
            r = e['res']
            if r.get('k') == 'Local':
                if r['id'] in env:
                    return env[r['id']]
                raise NoEval('unbound local %s' % r.get('name'))
            p = r.get('path') or ''
            if p.endswith('::None') or p == 'None':
                return NONE
            m_ = re.match(r'^(?:std::|core::)?(?:primitive::)?([iu](?:8|16|32|64|128|size))::(MAX|MIN|BITS)$', p) or \
                re.match(r'^(?:std|core)::([iu](?:8|16|32|64|128|size))::(MAX|MIN|BITS)$', p) or \
                re.match(r'^(?:[a-z_0-9]+::)*num::<impl ([iu](?:8|16|32|64|128|size))>::(MAX|MIN|BITS)$', p)
            if m_:
                w_, sg_ = _INT_TY[m_.group(1)]
                return w_ if m_.group(2) == 'BITS' else ((1 << (w_ - 1)) - 1 if sg_ else (1 << w_) - 1) if m_.group(2) == 'MAX' else (-(1 << (w_ - 1)) if sg_ else 0)
            mfa_ = re.match(r'^(?:[a-z_]+::)*(?:f64::|<impl f64>::|f64::<impl f64>::)(MIN_EXP|MAX_EXP|MIN_10_EXP|MAX_10_EXP|DIGITS|MAX|MIN|EPSILON|INFINITY|NEG_INFINITY|NAN|MIN_POSITIVE|MANTISSA_DIGITS|RADIX)$', p)
            if mfa_:
                import sys as _sys
                return {'MIN_EXP': -1021, 'MAX_EXP': 1024, 'MIN_10_EXP': -307, 'MAX_10_EXP': 308, 'DIGITS': 15, 'MAX': _sys.float_info.max, 'MIN': -_sys.float_info.max, 'EPSILON': _sys.float_info.epsilon, 'INFINITY': float('inf'),
                        'NEG_INFINITY': float('-inf'), 'NAN': float('nan'), 'MIN_POSITIVE': _sys.float_info.min, 'MANTISSA_DIGITS': 53, 'RADIX': 2}[mfa_.group(1)]
            mf_ = re.match(r'^(?:std|core)::(f32|f64)::consts::([A-Z_0-9]+)$', p)
            if mf_:
                import math as _m
                tbl_ = {'PI': _m.pi, 'TAU': _m.tau, 'E': _m.e, 'SQRT_2': _m.sqrt(2), 'FRAC_1_SQRT_2': 1 / _m.sqrt(2), 'FRAC_PI_2': _m.pi / 2, 'FRAC_PI_4': _m.pi / 4, 'LN_2': _m.log(2)}
                if mf_.group(2) in tbl_:
                    return tbl_[mf_.group(2)]
            if self.facts is not None and 'Const' in (r.get('dk') or '') and 'Ctor' not in (r.get('dk') or '') and p in self.facts.get('consts', {}):
                return self.ev(self.facts['consts'][p]['hir'], {})
            if ('Fn' in (r.get('dk') or '')) and 'Ctor' not in (r.get('dk') or '') and self._inlinable(p):
                return lambda *a, _p=p: self.local_call(_p, list(a))
            return ('const', p)
        if k == 'Tup':
            return tuple(self.val(x, env) for x in e['items'])
        if k == 'Array':
            return [self.val(x, env) for x in e['items']]
        items = hir.vec_literal(e)
        if items is not None:
            return [self.val(x, env) for x in items]
        if k == 'Cast':
            v_ = self.ev(e['e'], env)
            v_ = v_.get() if isinstance(v_, Cell) else v_
            ty_ = int_ty(e.get('ty'))
            if ty_ is not None and isinstance(v_, bool):
                return int(v_)
            if ty_ is not None and isinstance(v_, int):
                return wrap_int(v_, ty_)
            if ty_ is not None and isinstance(v_, float):
                raise NoEval('float to integer cast')
            if (e.get('ty') or '') in ('f32', 'f64') and isinstance(v_, int) and not isinstance(v_, bool):
                return float(v_)
            return v_
        if k == 'Unary':
            v = self.ev(e['e'], env)
            v = v.get() if isinstance(v, Cell) else v
            ty_ = int_ty(e.get('ty'))
            if isinstance(v, dict) and '__struct__' in v and e['op'] in ('Neg', 'Not'):
                k_ = self._impl_method(v['__struct__'], 'neg' if e['op'] == 'Neg' else 'not', 'std::ops::')
                if k_ is None:
                    raise NoEval('operator %s on %s' % (e['op'], v['__struct__']))
                return self.local_call(k_, [v])
            if e['op'] == 'Not':
                if ty_ is not None and isinstance(v, int) and not isinstance(v, bool):
                    return wrap_int(~v, ty_)
                return not v
            if e['op'] == 'Neg':
                if ty_ is not None and isinstance(v, int) and not isinstance(v, bool) and not in_range(-v, ty_):
                    raise Panics('attempt to negate with overflow')
                return -v
        if k == 'Binary':
            op = e['op']
            if op == 'And':
                return bool(self.ev(e['l'], env)) and bool(self.ev(e['r'], env))
            if op == 'Or':
                return bool(self.ev(e['l'], env)) or bool(self.ev(e['r'], env))
            a, b = self.ev(e['l'], env), self.ev(e['r'], env)
            a = a.get() if isinstance(a, Cell) else a
            b = b.get() if isinstance(b, Cell) else b
            if isinstance(a, dict) and '__struct__' in a and op in ('Lt', 'Le', 'Gt', 'Ge'):
                k_ = self._impl_method(a['__struct__'], 'partial_cmp', 'std::cmp::PartialOrd')
                der_ = [im for im in (self.facts or {}).get('impls', []) if im['self'] == a['__struct__'] and (im.get('trait') or '').startswith('std::cmp::PartialOrd') and im.get('derived')]
                if der_ and isinstance(b, dict) and b.get('__struct__') == a['__struct__']:
                    # derive(PartialOrd): lexicographic over the fields in declaration order
                    adt_ = self.facts['adts'].get(a['__struct__'])
                    order_ = [f_[0] for f_ in adt_['variants'][0]['fields']] if adt_ else sorted(k for k in a if k != '__struct__')

                    def key_(x):
                        if isinstance(x, dict) and '__struct__' in x:
                            ad2_ = self.facts['adts'].get(x['__struct__'])
                            return tuple(key_(x[f_[0]]) for f_ in ad2_['variants'][0]['fields']) if ad2_ else tuple(key_(x[k]) for k in sorted(x) if k != '__struct__')
                        if isinstance(x, (list, tuple)):
                            return tuple(key_(y) for y in x)
                        if isinstance(x, (int, bool, str, float)):
                            return x
                        raise NoEval('derived comparison of %r' % (x,))
                    ka_, kb_ = tuple(key_(a[f_]) for f_ in order_), tuple(key_(b[f_]) for f_ in order_)
                    return {'Lt': ka_ < kb_, 'Le': ka_ <= kb_, 'Gt': ka_ > kb_, 'Ge': ka_ >= kb_}[op]
                if k_ is None:
                    raise NoEval('comparison of %s' % a['__struct__'])
                o_ = self.local_call(k_, [a, b])
                if not (_is_opt(o_) and o_ != NONE and isinstance(o_[1], tuple) and 'Ordering::' in str(o_[1][1])):
                    raise NoEval('partial_cmp returned %r' % (o_,))
                c_ = {'Less': -1, 'Equal': 0, 'Greater': 1}[o_[1][1].rsplit('::', 1)[-1]]
                return {'Lt': c_ < 0, 'Le': c_ <= 0, 'Gt': c_ > 0, 'Ge': c_ >= 0}[op]
            if isinstance(a, dict) and '__struct__' in a and op in ('Add', 'Sub', 'Mul', 'Div', 'Rem', 'BitXor', 'BitAnd', 'BitOr'):
                k_ = self._op_impl(op, e['l'].get('ty'), e['r'].get('ty'))
                if k_ is None:
                    raise NoEval('operator %s on %s' % (op, a['__struct__']))
                return self.local_call(k_, [a, b])
            try:
                if op == 'Sub' and isinstance(a, int) and isinstance(b, int) and a < b and 'usize' in (e.get('ty') or ''):
                    raise NoEval('usize underflow')
                ty_ = int_ty(e.get('ty'))
                if op in ('BitXor', 'BitAnd', 'BitOr', 'Shl', 'Shr'):
                    if isinstance(a, bool) and isinstance(b, bool):
                        return {'BitXor': a != b, 'BitAnd': a and b, 'BitOr': a or b}[op]
                    if isinstance(a, int) and isinstance(b, int):
                        if op in ('Shl', 'Shr') and ty_ is not None and not (0 <= b < ty_[0]):
                            raise Panics('attempt to shift with overflow')
                        if op in ('Shl', 'Shr') and not (0 <= b < 4096):
                            raise Panics('attempt to shift with overflow')
                        r_ = (a ^ b) if op == 'BitXor' else (a & b) if op == 'BitAnd' else (a | b) if op == 'BitOr' else (a << b) if op == 'Shl' else (a >> b)
                        return wrap_int(r_, ty_) if (ty_ is not None and op == 'Shl') else r_
                    raise NoEval('binary %s' % op)
                if ty_ is not None and op in ('Add', 'Sub', 'Mul') and isinstance(a, int) and isinstance(b, int) and not isinstance(a, bool) and not isinstance(b, bool) \
                        and ty_ != _INT_TY['usize']:
                    r_ = {'Add': a + b, 'Sub': a - b, 'Mul': a * b}[op]
                    if not in_range(r_, ty_):
                        raise Panics('arithmetic overflow in %s' % (e.get('ty'),))
                    return r_
                if op in ('Div', 'Rem') and isinstance(a, int) and isinstance(b, int) and not isinstance(a, bool) and not isinstance(b, bool):
                    if b == 0:
                        raise Panics('attempt to divide by zero')
                    q_ = abs(a) // abs(b) * (1 if (a >= 0) == (b >= 0) else -1)      # Rust truncates toward zero
                    return q_ if op == 'Div' else a - b * q_
                if op in ('Div', 'Rem') and (isinstance(a, float) or isinstance(b, float)) and all(isinstance(x, (int, float)) and not isinstance(x, bool) for x in (a, b)):
                    a, b = float(a), float(b)
                    import math
                    if op == 'Rem':
                        return math.fmod(a, b) if (b != 0 and not math.isinf(a)) else float('nan')
                    if b == 0:
                        return float('nan') if (a == 0 or a != a) else math.copysign(float('inf'), a) * math.copysign(1.0, b)
                    return a / b
                return {'Add': lambda: a + b, 'Sub': lambda: a - b, 'Mul': lambda: a * b, 'Div': lambda: a // b, 'Rem': lambda: a % b,
                        'Eq': lambda: a == b, 'Ne': lambda: a != b, 'Lt': lambda: a < b, 'Le': lambda: a <= b, 'Gt': lambda: a > b, 'Ge': lambda: a >= b}[op]()
            except (KeyError, TypeError, ZeroDivisionError):
                raise NoEval('binary %s' % op)
        if k == 'Field':
            b = self.ev(e['e'], env)
            b = b.get() if isinstance(b, Cell) else b
            if isinstance(b, (tuple, list)) and e['name'].isdigit() and int(e['name']) < len(b) and not _is_opt(b):
                return b[int(e['name'])]
            if isinstance(b, dict) and '__struct__' in b and e['name'] in b:
                return b[e['name']]
            raise NoEval('field .%s' % e['name'])
        if k == 'Index':
            b = self.ev(e['e'], env)
            b = b.get() if isinstance(b, Cell) else b
            rb = hir.range_bounds(e['i'])
            if rb is not None and isinstance(b, list):
                lo = self.ev(rb[0], env) if rb[0] is not None else 0
                hi = self.ev(rb[1], env) + (1 if rb[2] else 0) if rb[1] is not None else len(b)
                if not 0 <= lo <= hi <= len(b):
                    raise NoEval('slice out of range')
                return b[lo:hi]
            i = self.ev(e['i'], env)
            if isinstance(b, Obj) and hasattr(b, 'getitem'):
                return b.getitem(i)
            if isinstance(b, dict) and '__struct__' in b:
                it_ = (e['i'].get('ty') or '').strip()
                k_ = None
                for im in (self.facts or {}).get('impls', []):
                    if im['self'] == b['__struct__'] and (im.get('trait') or '') == 'std::ops::Index<%s>' % it_:
                        k_ = im['methods'][0][1]
                if k_ is None or not self._inlinable(k_):
                    raise NoEval('index on %s' % b['__struct__'])
                return self.local_call(k_, [b, i])
            try:
                if isinstance(b, dict):
                    return b[i]
                if isinstance(b, list) and isinstance(i, int) and 0 <= i < len(b):
                    return b[i]
            except (KeyError, TypeError):
                pass
            if isinstance(b, list) and isinstance(i, int) and not isinstance(i, bool):
                raise Panics('index %d out of bounds (len %d)' % (i, len(b)))
            raise NoEval('index %r' % (i,))
        if k == 'Closure':
            params, body, cenv = e['params'], e['body'], env

            def fn(*args):
                e2 = cenv                # closures see (and may assign to) the enclosing bindings: binding ids are unique, so sharing is safe
                if len(args) != len(params):
                    if len(params) == 1:
                        args = (tuple(args),)
                    else:
                        raise NoEval('closure arity')
                for p, a in zip(params, args):
                    if not self.bind(p, a, e2):
                        raise NoEval('closure pattern')
                try:
                    return self.ev(body, e2)
                except _Return as r:
                    return r.v
            return fn
        if k == 'Block':
            return self.block(hir.stmts_of(e), env)
        if k == 'LetCond':
            return bool(self.bind(e['pat'], self.ev(e['init'], env), env))
        if k == 'If':
            c = hir.strip(e['cond'])
            if e.get('else') is None and _is_log_guard(c):
                return None          # the `log` crate's macros: `if lvl <= STATIC_MAX_LEVEL && lvl <= log::max_level() { .. }` — logging does not take part in the computation
            if c.get('k') == 'LetCond':
                e2 = env
                ok = self.bind(c['pat'], self.ev(c['init'], env), e2)
            else:
                ok = self.ev(e['cond'], env)
            br = e['then'] if ok else e.get('else')
            if br is None:
                return None
            return self.block(hir.stmts_of(br), env, scoped=True)
        if k == 'Match':
            v = self.ev(e['scrut'], env)
            for a in e['arms']:
                e2 = env
                if self.bind(a['pat'], v, e2):
                    if a.get('guard') and not self.ev(a['guard'], e2):
                        continue
                    return self.block(hir.stmts_of(a['body']), e2, scoped=True)
            raise NoEval('no match arm')
        if k == 'Ret':
            raise _Return(self.ev(e['e'], env) if e.get('e') else None)
        if k == 'Break':
            raise _Break(e.get('target'), self.ev(e['e'], env) if e.get('e') is not None else None)
        if k == 'Continue':
            raise _Continue(e.get('target'))
        if k == 'Labeled':
            try:
                return self.block(hir.stmts_of(e['body']), env)
            except _Break as b_:
                if b_.target is not None and b_.target == e.get('id'):
                    return b_.value
                raise
        if k == 'Call':
            return self.call(e, env)
        if k == 'MethodCall':
            return self.method(e, env)
        if k in ('Assign', 'AssignOp', 'Let', 'For', 'While', 'Loop'):
            return self.stmt(e, env)
        if k == 'Try':
            v = self.ev(e['e'], env)
            if isinstance(v, tuple) and v and v[0] == 'Err':
                raise _Return(v)
            if isinstance(v, tuple) and v and v[0] == 'Ok':
                return v[1]
            if _is_opt(v):
                if v == NONE:
                    raise _Return(NONE)
                return v[1]
            raise NoEval('? on %r' % (v,))
        if k == 'Struct':
            d = {'__struct__': (e['ctor'].get('path') or '')}
            if e.get('base') is not None:
                b_ = self.ev(e['base'], env)
                if not isinstance(b_, dict):
                    raise NoEval('struct base %r' % (b_,))
                d.update(deep_clone(b_))
                d['__struct__'] = (e['ctor'].get('path') or '')
            for n, v in e['fields']:
                d[n] = self.val(v, env)
            return d
        raise NoEval('expression %s' % k)

    def call(self, e, env):
        c = hir.callee(e) or ''
        a = hir.ctor_call(e, 'Some')
        if a is not None:
            return some(self.ev(a[0], env))
        for nm_ in ('Ok', 'Err'):
            a2 = hir.ctor_call(e, nm_)
            if a2 is not None:
                return (nm_, self.ev(a2[0], env))
        if c.rsplit('::', 1)[-1] in ('from', 'into', 'try_from') and len(e['args']) == 1 and (e.get('ty') or '') in ('u8', 'u16', 'u32', 'u64', 'u128', 'usize', 'i8', 'i16', 'i32', 'i64', 'i128', 'isize'):
            v_ = self.ev(e['args'][0], env)
            v_ = v_.get() if isinstance(v_, Cell) else v_
            if isinstance(v_, (bool, int)):
                return int(v_)
        if c.endswith(('panic_fmt', 'begin_panic', 'panic_display', 'panic_explicit', 'assert_failed', 'panic_nounwind', 'unreachable_display', 'panic_str')) or c in ('core::panicking::panic', 'std::rt::panic_fmt'):
            raise Panics('explicit panic / failed assertion')
        mfc_ = re.search(r'<impl f(?:32|64)>::([a-z0-9_]+)$', c)
        if mfc_ and e['args']:
            a_ = [self.ev(x, env) for x in e['args']]
            r_ = _float_method(mfc_.group(1), a_[0], a_[1:])
            if r_ is not NotImplemented:
                return r_
        if c.endswith('mem::size_of') and not e['args']:
            m_ = re.search(r'size_of::<([a-z0-9]+)>', (e['fun'].get('ty') or ''))
            if m_ and int_ty(m_.group(1)):
                return int_ty(m_.group(1))[0] // 8
        if c.endswith('mem::swap') and len(e['args']) == 2:
            a_, b_ = self.ev(e['args'][0], env), self.ev(e['args'][1], env)
            a_ = a_.get() if isinstance(a_, Cell) else a_
            b_ = b_.get() if isinstance(b_, Cell) else b_
            self.place_set(e['args'][0], b_, env)
            self.place_set(e['args'][1], a_, env)
            return None
        if c.endswith('mem::take') and len(e['args']) == 1:
            a_ = self.ev(e['args'][0], env)
            a_ = a_.get() if isinstance(a_, Cell) else a_
            if _is_opt(a_):
                dflt_ = NONE
            elif isinstance(a_, list):
                dflt_ = []
            elif isinstance(a_, dict) and '__struct__' not in a_:
                dflt_ = {}
            elif isinstance(a_, int) and not isinstance(a_, bool):
                dflt_ = 0
            else:
                raise NoEval('mem::take of %r' % (a_,))
            old_ = deep_clone(a_) if isinstance(a_, (list, dict)) else a_
            self.place_set(e['args'][0], dflt_, env)
            return old_
        if c.endswith('mem::replace') and len(e['args']) == 2:
            a_ = self.ev(e['args'][0], env)
            a_ = a_.get() if isinstance(a_, Cell) else a_
            self.place_set(e['args'][0], self.ev(e['args'][1], env), env)
            return a_
        if c.endswith(('fmt::format', 'hint::must_use')) and len(e['args']) == 1:
            v_ = self.ev(e['args'][0], env)
            if isinstance(v_, str):
                return str(v_)
            raise NoEval('format of %r' % (v_,))
        if c.endswith(('Arguments::<\'a>::from_str', 'Arguments::<\'a>::new_const', 'Arguments::from_str', 'Arguments::new_const', 'from_str_nonconst')) and e['args']:
            v_ = self.ev(e['args'][0], env)
            if isinstance(v_, list) and len(v_) == 1:
                v_ = v_[0]
            if isinstance(v_, str):
                return FmtArgs(v_)
        if (e.get('ty') or '').endswith('string::String') and len(e['args']) == 1 and c.rsplit('::', 1)[-1] in ('from', 'into', 'to_string', 'to_owned'):
            v_ = self.ev(e['args'][0], env)
            if isinstance(v_, str):
                return str(v_)
        if (e.get('ty') or '').endswith('string::String') and not e['args'] and c.rsplit('::', 1)[-1] in ('new', 'default'):
            return ''
        if c.endswith(('boxed::Box::<T>::new', 'rc::Rc::<T>::new', 'sync::Arc::<T>::new')) and len(e['args']) == 1:
            return self.val(e['args'][0], env)          # a box is its content (deref and auto-deref are transparent here)
        if c.endswith('vec::from_elem') and len(e['args']) == 2:
            x_, n_ = self.val(e['args'][0], env), self.ev(e['args'][1], env)
            return [deep_clone(x_) for _ in range(n_)]
        fnode = hir.strip(e['fun'])
        if fnode.get('k') == 'Path' and fnode['res'].get('k') == 'SelfCtor' and self.facts is not None and (e.get('ty') or '') in self.facts.get('adts', {}):
            d_ = {'__struct__': e['ty']}
            for i_, x in enumerate(e['args']):
                d_[str(i_)] = self.ev(x, env)
            return d_
        if fnode.get('k') == 'Path' and 'Ctor' in (fnode['res'].get('dk') or ''):
            if 'Ctor(Struct' in (fnode['res'].get('dk') or '') and self.facts is not None and (e.get('ty') or '') in self.facts.get('adts', {}):
                # a tuple struct of the analysed crate: a struct value with positional fields
                d_ = {'__struct__': e['ty']}
                for i_, x in enumerate(e['args']):
                    d_[str(i_)] = self.ev(x, env)
                return d_
            return ('ctor', fnode['res'].get('path'), tuple(self.ev(x, env) for x in e['args']))
        if c.endswith('convert::TryFrom::try_from') and len(e['args']) == 1 and self.facts is not None:
            at_ = (e['args'][0].get('ty') or hir.strip(e['args'][0]).get('ty') or '').strip()
            k_ = self._tryfrom_key(at_, e.get('ty'))
            if k_ is not None:
                return self.local_call(k_, [self.val(e['args'][0], env)])
        if c in getattr(self, 'host_fns', {}):
            return self.host_fns[c]([self.ev(x, env) for x in e['args']])
        if getattr(self, 'host_call', None) is not None:
            r_ = self.host_call(c, e, lambda: [self.ev(x, env) for x in e['args']])
            if r_ is not NotImplemented:
                return r_
        th_ = (e.get('ty') or '').replace('std::collections::', '').replace('std::vec::', '').replace('alloc::vec::', '').replace('rustc_hash::', '').strip()
        if c.endswith(('Vec::<T>::new', 'Vec::new', 'VecDeque::<T>::new')) or (c.endswith('::new') and th_.startswith(('Vec<', 'VecDeque<'))):
            return Deque() if th_.startswith('VecDeque<') else []
        if c.endswith('with_capacity') and 'Vec' in (e.get('ty') or '') + c:
            return []
        if re.search(r'\b(Hash|BTree)Set<', (e.get('ty') or '')) and c.endswith(('::new', '::default', '::with_capacity')) and ('Set' in c or 'Default' in c) and len(e['args']) <= 1:
            return HSet((), 'BTreeSet' in (e.get('ty') or ''))
        if c.endswith(('HashMap::<K, V, S>::default', 'Default>::default', 'Default::default')) or ('HashMap' in (e.get('ty') or '') and c.endswith(('::new', '::default'))):
            t = e.get('ty') or ''
            if 'HashMap' in t or 'BTreeMap' in t:
                return {}
            if re.search(r'\b(Hash|BTree)Set<', t):
                return HSet((), 'BTreeSet' in t)
            if 'Vec' in t:
                return []
        if c in ('num::One::one', 'num::Zero::zero', 'num_traits::One::one', 'num_traits::Zero::zero') and not e['args']:
            t0_ = (e.get('ty') or '').strip()
            if int_ty(t0_) is not None or re.match(r'^[A-Z][A-Za-z0-9]?$', t0_):
                return 1 if c.endswith('one') else 0       # an integer type (a type parameter instantiated with one in every evaluated use)
        if c.endswith(('Default>::default', 'Default::default')) and not e['args']:
            t0_ = (e.get('ty') or '').strip()
            if int_ty(t0_) is not None:
                return 0
            if t0_ == 'bool':
                return False
            if t0_.endswith('string::String'):
                return ''
            if t0_.startswith(('std::option::Option<', 'Option<')):
                return NONE
            if t0_ == '()':
                return ()
            if t0_.startswith(('std::boxed::Box<[', 'Box<[', 'std::vec::Vec<', 'alloc::vec::Vec<', 'Vec<')):
                return []
            if t0_ in ('f64', 'f32'):
                return 0.0
        if c.endswith(('Default>::default', 'Default::default')) and not e['args'] and self.facts is not None:
            t_ = (e.get('ty') or '').strip()
            k_ = '<%s as std::default::Default>::default' % t_
            if self._inlinable(k_):
                return self.local_call(k_, [])
        if c.endswith('cmp::min') and len(e['args']) == 2:
            return min(self.ev(e['args'][0], env), self.ev(e['args'][1], env))
        if c.endswith('cmp::max') and len(e['args']) == 2:
            return max(self.ev(e['args'][0], env), self.ev(e['args'][1], env))
        if c.endswith(('convert::From::from', 'Vec::<T>::from', 'to_vec')) and len(e['args']) == 1 and (e.get('ty') or '').replace('std::vec::', '').replace('alloc::vec::', '').startswith('Vec<'):
            v_ = self.ev(e['args'][0], env)
            if isinstance(v_, list):
                return [deep_clone(x) for x in v_]      # Vec::from(slice / array / vec)
        if c.endswith('from_iter') and len(e['args']) == 1:
            v = self.ev(e['args'][0], env)
            return dict(v) if 'Map' in (e.get('ty') or '') else list(v)
        f = hir.strip(e['fun'])
        if f.get('k') == 'Path' and f['res'].get('k') == 'Local':
            fn = self.ev(f, env)
            if callable(fn):
                return fn(*[self.ev(x, env) for x in e['args']])
        t_ = (e.get('ty') or '').strip()
        if t_ == 'Self' and self.self_ty:
            t_ = self.self_ty[-1]
        if self._inlinable(c):
            # (a provided trait method keeps track of the implementing type through its result type)
            push_ = self.facts is not None and t_ in self.facts.get('adts', {}) and not c.startswith('<')
            if push_:
                self.self_ty.append(t_)
            try:
                return self.local_call(c, [self.ev(x, env) for x in e['args']])
            finally:
                if push_:
                    self.self_ty.pop()
        if c.rsplit('::', 1)[-1] == 'from' and len(e['args']) == 1 and self.facts is not None and (e.get('ty') or '').strip() in self.facts.get('adts', {}):
            at_ = (hir.strip(e['args'][0]).get('ty') or e['args'][0].get('ty') or '').strip()
            k_ = self._impl_method(e['ty'].strip(), 'from', 'std::convert::From<%s>' % at_)
            if k_ is not None:
                return self.local_call(k_, [self.ev(e['args'][0], env)])
        # an associated function of a trait called on a type of the analysed crate (`Scalar4::zero()`, `Self::sqrt2()`): the impl for the result type
        if self.facts is not None and t_ in self.facts.get('adts', {}):
            k_ = self._impl_method(t_, c.rsplit('::', 1)[-1])
            if k_ is not None and len(self.facts['fns'][k_]['params']) == len(e['args']):
                return self.local_call(k_, [self.ev(x, env) for x in e['args']])
        raise NoEval('call %s' % c)

    def method(self, e, env):
        nm = e['name']
        recv = self.ev(e['recv'], env)
        if isinstance(recv, Cell):
            recv = recv.get()
        args = e['args']

        def A(i=0):
            return self.val(args[i], env)
        if getattr(self, 'host_method', None) is not None:
            r_ = self.host_method(e.get('callee') or '', nm, recv, lambda: [self.ev(x, env) for x in args])
            if r_ is not NotImplemented:
                return r_
        if nm == 'into' and not args and getattr(self, 'host_into', None) is not None:
            r_ = self.host_into(recv, (e.get('ty') or '').strip())
            if r_ is not NotImplemented:
                return r_
        if nm == 'into' and not args and self.facts is not None and (e.get('ty') or '').strip() in self.facts.get('adts', {}) \
                and not (isinstance(recv, dict) and recv.get('__struct__') == e['ty'].strip()):
            rt_ = (hir.strip(e['recv']).get('ty') or e['recv'].get('ty') or '').strip()
            k_ = self._impl_method(e['ty'].strip(), 'from', 'std::convert::From<%s>' % rt_)
            if k_ is not None:
                return self.local_call(k_, [recv])
        if isinstance(recv, Obj):
            if nm in recv.methods:
                if hasattr(recv, 'mr_site'):
                    recv.mr_site = id(e)         # the call site, for hosts that budget per site (rejection loops)
                return recv.methods[nm]([self.ev(x, env) for x in args])
            if not recv.strict:
                raise Proceed('%s.%s' % (recv.name, nm))
            raise NoEval('method %s on %s' % (nm, recv.name))
        if nm == 'peekable' and isinstance(recv, list) and not args:
            return PeekIter(recv)
        if _is_opt(recv) and nm in ('into_iter', 'iter') and not args:
            return [] if recv == NONE else [recv[1]]          # an Option iterates over zero or one element
        if isinstance(recv, dict) and '__struct__' in recv and nm in ('iter', 'into_iter', 'iter_mut') and not args and self._inlinable(e.get('callee') or ''):
            return self.local_call(e['callee'], [recv])          # the type's own iterator method
        if nm == 'into' and not args and (e.get('ty') or '').strip() in ('f64', 'f32') and isinstance(recv, int) and not isinstance(recv, bool):
            return float(recv)
        if nm in ('clone', 'to_owned', 'copied', 'cloned', 'iter', 'into_iter', 'iter_mut', 'by_ref', 'as_slice', 'to_vec', 'as_ref', 'as_mut', 'borrow', 'peekable', 'into', 'as_deref') and not args:
            if nm in ('clone', 'to_owned', 'to_vec', 'cloned', 'copied') and isinstance(recv, (list, dict)):
                return deep_clone(recv)
            if isinstance(recv, dict) and nm == 'iter_mut' and '__struct__' not in recv:
                return [(k_, Cell(recv, k_) if _scalar(v_) else v_) for k_, v_ in list(recv.items())]
            if isinstance(recv, dict) and '__struct__' not in recv and nm in ('iter', 'into_iter', 'iter_mut'):
                return [(k_, v_) for k_, v_ in recv.items()]
            if isinstance(recv, list) and nm == 'iter_mut' and recv and all(_scalar(x) for x in recv):
                return [Cell(recv, i_) for i_ in range(len(recv))]
            return recv
        if _is_opt(recv):
            if nm == 'take' and not args:
                self.place_set(e['recv'], NONE, env)
                return recv
            if nm == 'replace' and len(args) == 1:
                self.place_set(e['recv'], some(A()), env)
                return recv
            if nm in ('as_mut', 'as_deref_mut') and not args and recv != NONE and _scalar(recv[1]) and not isinstance(recv[1], Obj):
                raise NoEval('a mutable reference into an Option of a scalar')      # (a copy would silently lose the writes)
            if nm in ('as_ref', 'as_mut', 'as_deref', 'as_deref_mut', 'copied', 'cloned') and not args:
                return recv
            if nm == 'and_then' and len(args) == 1:
                return A()(recv[1]) if recv != NONE else NONE
            if nm == 'is_some_and' and len(args) == 1:
                return bool(A()(recv[1])) if recv != NONE else False
            if nm == 'filter' and len(args) == 1:
                return recv if (recv != NONE and A()(recv[1])) else NONE
            if nm == 'unwrap_or_else' and len(args) == 1:
                if recv != NONE:
                    return recv[1]
                f_ = A()
                if callable(f_):
                    return f_()
                raise NoEval('unwrap_or_else with %r' % (f_,))
            if nm == 'unwrap_or_default' and not args:
                if recv != NONE:
                    return recv[1]
                t0_ = (e.get('ty') or '').strip()
                if int_ty(t0_) is not None:
                    return 0
                if t0_ == 'bool':
                    return False
                if t0_ in ('f64', 'f32'):
                    return 0.0
                if t0_.endswith('string::String'):
                    return ''
                if t0_.replace('std::vec::', '').replace('alloc::vec::', '').startswith('Vec<'):
                    return []
                if t0_.replace('std::option::', '').startswith('Option<'):
                    return NONE
                raise NoEval('unwrap_or_default on None of type %s' % t0_)
            if nm in ('ok_or', 'ok_or_else') and len(args) == 1:
                if recv != NONE:
                    return ('Ok', recv[1])
                a_ = A()
                return ('Err', a_() if (nm == 'ok_or_else' and callable(a_)) else a_)
            if nm in ('unwrap', 'expect'):
                if recv == NONE:
                    raise Panics('unwrap on None (the fragment would panic on this input)')
                return recv[1]
            if nm == 'is_some':
                return recv != NONE
            if nm == 'is_none':
                return recv == NONE
            if nm == 'unwrap_or':
                return recv[1] if recv != NONE else A()
            if nm == 'map':
                return some(A()(recv[1])) if recv != NONE else NONE
            if nm == 'map_or':
                return self.ev(args[1], env)(recv[1]) if recv != NONE else A()
            if nm in ('copied', 'cloned'):
                return recv
        if isinstance(recv, dict) and '__struct__' in recv and self._inlinable(e.get('callee') or ''):
            return self.local_call(e['callee'], [recv] + [self.ev(x, env) for x in args])
        if isinstance(recv, dict) and '__struct__' in recv and nm not in ('clone',):
            k_ = self._impl_method(recv['__struct__'], nm)
            if k_ is not None:
                return self.local_call(k_, [recv] + [self.ev(x, env) for x in args])
        if isinstance(recv, dict):
            if nm in ('get', 'get_mut'):
                k_ = _hashable(A())
                if k_ not in recv:
                    return NONE
                return some(Cell(recv, k_)) if (nm == 'get_mut' and (_scalar(recv[k_]) or _is_opt(recv[k_]))) else some(recv[k_])
            if nm == 'contains_key':
                return _hashable(A()) in recv
            if nm == 'insert':
                k_, v_ = _hashable(A(0)), A(1)
                old = some(recv[k_]) if k_ in recv else NONE
                recv[k_] = v_
                return old
            if nm == 'remove':
                k_ = _hashable(A())
                return some(recv.pop(k_)) if k_ in recv else NONE
            if nm in ('keys', 'into_keys'):
                return list(recv.keys())
            if nm == 'values_mut':
                return [(Cell(recv, k_) if (_scalar(v_) or _is_opt(v_)) else v_) for k_, v_ in list(recv.items())]
            if nm in ('values', 'into_values'):
                return list(recv.values())
            if nm == 'len':
                return len(recv)
            if nm == 'is_empty':
                return not recv
            if nm == 'clear' and '__struct__' not in recv:
                recv.clear()
                return ()
        if isinstance(recv, tuple) and len(recv) == 2 and recv[0] in ('Ok', 'Err') and not isinstance(recv, Obj):
            if nm in ('unwrap', 'expect'):
                if recv[0] == 'Ok':
                    return recv[1]
                raise Panics('unwrap on an Err value')
            if nm in ('unwrap_err', 'expect_err'):
                if recv[0] == 'Err':
                    return recv[1]
                raise Panics('unwrap_err on an Ok value')
            if nm == 'is_ok' and not args:
                return recv[0] == 'Ok'
            if nm == 'is_err' and not args:
                return recv[0] == 'Err'
            if nm == 'ok' and not args:
                return some(recv[1]) if recv[0] == 'Ok' else NONE
            if nm == 'err' and not args:
                return some(recv[1]) if recv[0] == 'Err' else NONE
            if nm == 'unwrap_or' and len(args) == 1:
                return recv[1] if recv[0] == 'Ok' else A()
            if nm == 'map' and len(args) == 1:
                return ('Ok', A()(recv[1])) if recv[0] == 'Ok' else recv
            if nm == 'map_err' and len(args) == 1:
                return ('Err', A()(recv[1])) if recv[0] == 'Err' else recv
        if nm == 'try_into' and not args and isinstance(recv, dict) and '__struct__' in recv and self.facts is not None:
            k_ = self._tryfrom_key((e['recv'].get('ty') or hir.strip(e['recv']).get('ty') or recv['__struct__']), e.get('ty'))
            if k_ is not None:
                return self.local_call(k_, [recv])
        if isinstance(recv, list) and nm == 'try_into' and not args:
            m_ = re.search(r'Result<\[.*; (\d+)\]', (e.get('ty') or '').replace('std::result::', ''))
            if m_ is None:
                raise NoEval('try_into to %s' % (e.get('ty'),))
            return ('Ok', recv) if len(recv) == int(m_.group(1)) else ('Err', recv)
        if isinstance(recv, (list, tuple)) and not _is_opt(recv):
            L = list(recv)
            if nm == 'len' or nm == 'count':
                return len(L)
            if nm == 'is_empty':
                return not L
            if nm == 'map':
                f = A()
                return [f(x) for x in L]
            if nm == 'filter':
                f = A()
                return [x for x in L if f(x)]
            if nm == 'filter_map':
                f = A()
                out = []
                for x in L:
                    r = f(x)
                    if r != NONE:
                        out.append(r[1])
                return out
            if nm == 'find_map':
                f = A()
                for x in L:
                    r = f(x)
                    if not _is_opt(r):
                        raise NoEval('find_map closure returned %r' % (r,))
                    if r != NONE:
                        return r
                return NONE
            if nm == 'flat_map':
                f = A()
                out = []
                for x in L:
                    r = f(x)
                    if _is_opt(r):
                        if r != NONE:
                            out.append(r[1])
                    else:
                        out.extend(list(r))
                return out
            if nm == 'flatten' and not args:
                out = []
                for x in L:
                    if _is_opt(x):
                        if x != NONE:
                            out.append(x[1])
                    elif isinstance(x, (list, tuple)):
                        out.extend(list(x))
                    else:
                        raise NoEval('flatten of %r' % (x,))
                return out
            if nm == 'enumerate':
                return [(i, x) for i, x in enumerate(L)]
            if nm == 'zip':
                return list(zip(L, A()))
            if nm == 'rev':
                return L[::-1]
            if nm == 'skip':
                return L[A():]
            if nm == 'take':
                return L[:A()]
            if nm == 'collect' and (e.get('ty') or '').strip().endswith('string::String') and all(isinstance(x, str) for x in L):
                return ''.join(L)
            if nm == 'collect' and (e.get('ty') or '').replace('std::result::', '').replace('std::option::', '').startswith(('Result<', 'Option<')):
                t_ = (e.get('ty') or '').replace('std::result::', '').replace('std::option::', '')
                out_ = []
                for x in L:
                    if t_.startswith('Result<'):
                        if isinstance(x, tuple) and x and x[0] == 'Err':
                            return x
                        if isinstance(x, tuple) and x and x[0] == 'Ok':
                            out_.append(x[1])
                            continue
                    else:
                        if x == NONE:
                            return NONE
                        if _is_opt(x):
                            out_.append(x[1])
                            continue
                    raise NoEval('collect of %r into %s' % (x, t_[:20]))
                return ('Ok', out_) if t_.startswith('Result<') else some(out_)
            if nm in ('collect', 'collect_vec', 'sorted'):
                t = e.get('ty') or ''
                if 'Map' in t:
                    return dict(L)
                if nm == 'collect' and re.search(r'\b(Hash|BTree)Set<', t):
                    return HSet(L, 'BTreeSet' in t)
                return sorted(L) if nm == 'sorted' else L
            if nm == 'any':
                f = A()
                return any(f(x) for x in L)
            if nm == 'all':
                f = A()
                return all(f(x) for x in L)
            if nm == 'find':
                f = A()
                for x in L:
                    if f(x):
                        return some(x)
                return NONE
            if nm == 'position':
                f = A()
                for i, x in enumerate(L):
                    if f(x):
                        return some(i)
                return NONE
            if nm == 'contains':
                return A() in L
            if nm == 'next' and not args and isinstance(recv, list) and not isinstance(recv, Deque):
                rl_ = hir.local(hir.strip(e['recv'])) if hir.strip(e['recv']).get('k') == 'Path' else None
                if rl_ and rl_[1] in env and env[rl_[1]] is recv and 'Vec<' not in (hir.strip(e['recv']).get('ty') or ''):
                    # an iterator bound to a local and advanced with next(): from now on it has a position
                    it_ = PeekIter(recv)
                    env[rl_[1]] = it_
                    return it_._next(())
            if nm in ('first', 'last', 'next', 'max', 'min'):
                if not L:
                    return NONE
                return some({'first': L[0], 'next': L[0], 'last': L[-1], 'max': max(L), 'min': min(L)}[nm])
            if nm in ('get', 'get_mut'):
                i = A()
                if not (isinstance(i, int) and not isinstance(i, bool) and 0 <= i < len(L)):
                    return NONE
                if nm == 'get_mut' and isinstance(recv, list) and (_scalar(L[i]) or _is_opt(L[i])):
                    return some(Cell(recv, i))
                return some(L[i])
            if nm == 'sum':
                return sum(L)
            if nm in ('make_contiguous', 'as_mut_slice') and isinstance(recv, list) and not args:
                if isinstance(recv, Deque):
                    recv.split = len(recv)
                return recv
            if nm in ('as_slices', 'as_mut_slices') and isinstance(recv, Deque) and not args:
                return (View(recv, 0, recv.split), View(recv, recv.split, len(recv)))
            if nm == 'split_last' and not args:
                return some((L[-1], L[:-1])) if L else NONE
            if nm == 'split_first' and not args:
                return some((L[0], L[1:])) if L else NONE
            if nm == 'chain' and len(args) == 1:
                return L + list(A())
            if nm in ('join', 'concat') and all(isinstance(x, str) for x in L):
                return (A() if args else '').join(L)
            if nm == 'try_for_each':
                f = A()
                for x in L:
                    r = f(x)
                    if isinstance(r, tuple) and r and r[0] == 'Err':
                        return r
                    if r == NONE:
                        return NONE
                return ('Ok', ())
            if nm in ('fold', 'try_fold') and len(args) == 2:
                acc, f = A(0), A(1)
                for x in L:
                    acc = f(acc, x)
                    if nm == 'try_fold':
                        if isinstance(acc, tuple) and acc and acc[0] == 'Err':
                            return acc
                        if isinstance(acc, tuple) and acc and acc[0] == 'Ok':
                            acc = acc[1]
                return ('Ok', acc) if nm == 'try_fold' else acc
            if nm == 'windows':
                w = A()
                return [L[i:i + w] for i in range(0, len(L) - w + 1)]
            if nm == 'for_each':
                f = A()
                for x in L:
                    f(x)
                return None
            if isinstance(recv, list):
                if nm in ('reserve', 'reserve_exact', 'shrink_to_fit', 'shrink_to'):
                    return None
                if nm == 'pop_front' and not args:
                    return some(recv.pop(0)) if recv else NONE
                if nm == 'pop_back' and not args:
                    return some(recv.pop()) if recv else NONE
                if nm in ('front', 'back') and not args:
                    return some(recv[0] if nm == 'front' else recv[-1]) if recv else NONE
                if nm in ('push', 'push_back'):
                    recv.append(A())
                    return None
                if nm == 'push_front':
                    recv.insert(0, A())
                    return None
                if nm in ('sort', 'sort_unstable'):
                    recv.sort()
                    return None
                if nm in ('sort_by_key', 'sort_unstable_by_key', 'sort_by_cached_key'):
                    f = A()
                    recv.sort(key=f)
                    return None
                if nm == 'reverse':
                    recv.reverse()
                    return None
                if nm == 'extend' or nm == 'extend_from_slice' or nm == 'append':
                    recv.extend(list(A()))
                    return None
                if nm == 'remove':
                    i = A()
                    if not (isinstance(i, int) and 0 <= i < len(recv)):
                        raise NoEval('remove out of range')
                    return recv.pop(i)
                if nm == 'retain' and len(args) == 1:
                    f_ = A()
                    if not callable(f_):
                        raise NoEval('retain with %r' % (f_,))
                    recv[:] = [x for x in list(recv) if f_(x)]
                    return ()
                if nm == 'swap_remove':
                    i = A()
                    if not (isinstance(i, int) and 0 <= i < len(recv)):
                        raise Panics('swap_remove out of range')
                    recv[i], recv[-1] = recv[-1], recv[i]
                    return recv.pop()
                if nm == 'insert':
                    recv.insert(A(0), A(1))
                    return None
                if nm == 'truncate':
                    del recv[A():]
                    return None
                if nm == 'dedup':
                    out = []
                    for x in recv:
                        if not out or out[-1] != x:
                            out.append(x)
                    recv[:] = out
                    return None
                if nm == 'pop':
                    return some(recv.pop()) if recv else NONE
                if nm == 'clear':
                    del recv[:]
                    return None
                if nm == 'swap':
                    i, j = A(0), A(1)
                    recv[i], recv[j] = recv[j], recv[i]
                    return None
        if isinstance(recv, tuple) and len(recv) == 2 and recv[0] == 'const' and 'Ordering::' in str(recv[1]):
            o_ = {'Less': -1, 'Equal': 0, 'Greater': 1}.get(recv[1].rsplit('::', 1)[-1])
            pre_ = recv[1].rsplit('::', 1)[0]
            if o_ is not None:
                if nm == 'reverse' and not args:
                    return ('const', pre_ + '::' + {-1: 'Greater', 0: 'Equal', 1: 'Less'}[o_])
                if nm in ('is_lt', 'is_le', 'is_gt', 'is_ge', 'is_eq', 'is_ne') and not args:
                    return {'is_lt': o_ < 0, 'is_le': o_ <= 0, 'is_gt': o_ > 0, 'is_ge': o_ >= 0, 'is_eq': o_ == 0, 'is_ne': o_ != 0}[nm]
                if nm == 'then' and len(args) == 1:
                    return recv if o_ != 0 else A()
                if nm == 'then_with' and len(args) == 1:
                    return recv if o_ != 0 else A()()
        if isinstance(recv, str):
            if nm in ('push_str', 'push') and len(args) == 1:
                a_ = A()
                if not isinstance(a_, str):
                    raise NoEval('push of %r' % (a_,))
                self.place_set(e['recv'], str(recv) + a_, env)
                return None
            if nm in ('to_string', 'to_owned', 'as_str', 'clone', 'as_ref', 'into'):
                return str(recv)
            if nm == 'is_empty':
                return not recv
            if nm == 'starts_with' and len(args) == 1:
                return recv.startswith(A())
            if nm == 'ends_with' and len(args) == 1:
                return recv.endswith(A())
            if nm == 'len':
                return len(recv)
            if nm == 'chars':
                return list(recv)
            if nm in ('to_ascii_uppercase', 'to_ascii_lowercase') and not args:
                tr_ = str.upper if nm.endswith('uppercase') else str.lower
                return ''.join(tr_(ch) if ord(ch) < 128 else ch for ch in recv)
            if nm in ('is_whitespace', 'is_ascii_digit', 'is_alphabetic', 'is_ascii_alphabetic', 'is_numeric', 'is_ascii_whitespace') and not args and len(recv) == 1:
                return {'is_whitespace': recv.isspace(), 'is_ascii_digit': recv in '0123456789', 'is_alphabetic': recv.isalpha(), 'is_ascii_alphabetic': recv.isalpha() and ord(recv) < 128,
                        'is_numeric': recv.isnumeric(), 'is_ascii_whitespace': recv in ' \t\n\x0c\r'}[nm]
            if nm == 'replace' and len(args) == 2:
                a_, b_ = A(0), A(1)
                if isinstance(a_, str) and isinstance(b_, str) and a_:
                    return recv.replace(a_, b_)
                raise NoEval('str::replace(%r, %r)' % (a_, b_))
            if nm in ('trim', 'trim_start', 'trim_end') and not args:
                return {'trim': recv.strip, 'trim_start': recv.lstrip, 'trim_end': recv.rstrip}[nm]()
            if nm in ('trim_start_matches', 'trim_end_matches', 'trim_matches') and len(args) == 1:
                a_ = A()
                if not (isinstance(a_, str) and a_):
                    raise NoEval('%s(%r)' % (nm, a_))
                r_ = recv
                if nm in ('trim_start_matches', 'trim_matches'):
                    while r_.startswith(a_):
                        r_ = r_[len(a_):]
                if nm in ('trim_end_matches', 'trim_matches'):
                    while r_.endswith(a_):
                        r_ = r_[:-len(a_)]
                return r_
            if nm == 'contains' and len(args) == 1:
                a_ = A()
                if isinstance(a_, str):
                    return a_ in recv
                raise NoEval('str::contains(%r)' % (a_,))
            if nm in ('strip_prefix', 'strip_suffix') and len(args) == 1:
                a_ = A()
                if isinstance(a_, str):
                    if nm == 'strip_prefix':
                        return some(recv[len(a_):]) if recv.startswith(a_) else NONE
                    return some(recv[:len(recv) - len(a_)]) if recv.endswith(a_) else NONE
            if nm == 'split' and len(args) == 1:
                a_ = A()
                if isinstance(a_, str) and a_:
                    return PeekIter(recv.split(a_))
                raise NoEval('str::split(%r)' % (a_,))
            if nm == 'parse' and not args:
                t_ = (e.get('ty') or '').replace('std::result::', '')
                mi_ = re.match(r'^Result<([iu](?:8|16|32|64|128|size)),', t_)
                if mi_:
                    ty_ = int_ty(mi_.group(1))
                    if re.match(r'^[+-]?[0-9]+$', recv) and (ty_[1] or not recv.startswith('-')) and in_range(int(recv), ty_):
                        return ('Ok', int(recv))
                    return ('Err', 'ParseIntError')
                if re.match(r'^Result<f64,', t_):
                    if re.match(r'^[+-]?(?:[0-9]+\.?[0-9]*(?:[eE][+-]?[0-9]+)?|\.[0-9]+(?:[eE][+-]?[0-9]+)?|inf|infinity|nan)$', recv, re.I):
                        return ('Ok', float(recv))
                    return ('Err', 'ParseFloatError')
                raise NoEval('str::parse to %s' % t_)
        if isinstance(recv, float):
            r_ = _float_method(nm, recv, [self.ev(x, env) for x in args])
            if r_ is not NotImplemented:
                return r_
        if isinstance(recv, int) and not isinstance(recv, bool):
            ty_ = int_ty(hir.strip(e['recv']).get('ty') or e['recv'].get('ty'))
            if ty_ is not None:
                w_, sg_ = ty_
                u_ = recv & ((1 << w_) - 1)
                if nm == 'leading_zeros' and not args:
                    return w_ - u_.bit_length()
                if nm == 'trailing_zeros' and not args:
                    return w_ if u_ == 0 else (u_ & -u_).bit_length() - 1
                if nm == 'count_ones' and not args:
                    return bin(u_).count('1')
                if nm in ('wrapping_shl', 'wrapping_shr') and len(args) == 1:
                    k_ = A() % w_
                    return wrap_int(u_ << k_, ty_) if nm == 'wrapping_shl' else wrap_int((u_ >> k_) if not sg_ else (recv >> k_), ty_)
                if nm in ('wrapping_add', 'wrapping_sub', 'wrapping_mul', 'wrapping_neg'):
                    b_ = A() if args else 0
                    return wrap_int({'wrapping_add': recv + b_, 'wrapping_sub': recv - b_, 'wrapping_mul': recv * b_, 'wrapping_neg': -recv}[nm], ty_)
                if nm in ('checked_add', 'checked_sub', 'checked_mul') and len(args) == 1:
                    b_ = A()
                    r_ = {'checked_add': recv + b_, 'checked_sub': recv - b_, 'checked_mul': recv * b_}[nm]
                    return some(r_) if in_range(r_, ty_) else NONE
                if nm in ('saturating_add', 'saturating_mul') and len(args) == 1:
                    b_ = A()
                    r_ = recv + b_ if nm == 'saturating_add' else recv * b_
                    lo_, hi_ = (-(1 << (w_ - 1)), (1 << (w_ - 1)) - 1) if sg_ else (0, (1 << w_) - 1)
                    return max(lo_, min(hi_, r_))
                if nm in ('overflowing_add', 'overflowing_sub') and len(args) == 1:
                    b_ = A()
                    r_ = recv + b_ if nm == 'overflowing_add' else recv - b_
                    return (wrap_int(r_, ty_), not in_range(r_, ty_))
            if nm in ('div_floor', 'mod_floor') and len(args) == 1:
                b_ = A()
                b_ = b_.get() if isinstance(b_, Cell) else b_
                if b_ == 0:
                    raise Panics('division by zero')
                return recv // b_ if nm == 'div_floor' else recv % b_
            if nm == 'rem_euclid' and len(args) == 1:
                b_ = A()
                if b_ == 0:
                    raise Panics('rem_euclid by zero')
                return recv % abs(b_)
            if nm == 'div_euclid' and len(args) == 1:
                b_ = A()
                if b_ == 0:
                    raise Panics('div_euclid by zero')
                return (recv - recv % abs(b_)) // b_
            if nm in ('is_odd', 'is_even') and not args:
                return (recv % 2 == 1) if nm == 'is_odd' else (recv % 2 == 0)
            if nm == 'is_one' and not args:
                return recv == 1
            if nm == 'gcd' and len(args) == 1:
                import math as _m
                return _m.gcd(recv, A())
            if nm == 'unsigned_abs' and not args:
                return abs(recv)
            if nm == 'is_negative' and not args:
                return recv < 0
            if nm == 'is_positive' and not args:
                return recv > 0
            if nm == 'signum' and not args:
                return (recv > 0) - (recv < 0)
            if nm == 'cmp' and len(args) == 1:
                b_ = A()
                return ('const', 'std::cmp::Ordering::' + ('Less' if recv < b_ else 'Greater' if recv > b_ else 'Equal'))
            if nm == 'is_zero' and not args:
                return recv == 0
            if nm in ('min', 'max') and args:
                return min(recv, A()) if nm == 'min' else max(recv, A())
            if nm == 'saturating_sub':
                return max(0, recv - A())
            if nm == 'abs':
                return abs(recv)
            if nm == 'pow':
                return recv ** A()
        if self._inlinable(e.get('callee') or ''):
            return self.local_call(e['callee'], [recv] + [self.ev(x, env) for x in args])
        # a trait method called through a generic parameter: dispatch on the value
        if isinstance(recv, dict) and '__struct__' in recv:
            k_ = self._impl_method(recv['__struct__'], nm)
            if k_ is not None:
                return self.local_call(k_, [recv] + [self.ev(x, env) for x in args])
        if recv == () and self.facts is not None:
            k_ = self._impl_method('()', nm)
            if k_ is not None:
                return self.local_call(k_, [recv] + [self.ev(x, env) for x in args])
        raise NoEval('method .%s on %s' % (nm, type(recv).__name__))

    # ------------------------------------------------------------ statements
    def place_set(self, l, v, env, op=None):
        l0 = l
        deref_ = False
        while l.get('k') == 'AddrOf' or (l.get('k') == 'Unary' and l['op'] == 'Deref'):
            deref_ = deref_ or l.get('k') == 'Unary'
            l = l['e']
        v = v.get() if isinstance(v, Cell) else v
        if deref_ and l.get('k') == 'Path' and l['res'].get('k') == 'Local' and isinstance(env.get(l['res']['id']), Cell):
            c_ = env[l['res']['id']]
            c_.set(v if op is None else op(c_.get(), v))
            return
        if deref_ and l.get('k') == 'Path' and l['res'].get('k') == 'Local' and isinstance(env.get(l['res']['id']), (dict, list)) and not _is_opt(env.get(l['res']['id'])):
            # `*r = value` through a reference to a container / struct: the referent changes, not the binding
            cur_ = env[l['res']['id']]
            nv_ = v if op is None else op(cur_, v)
            if isinstance(cur_, dict) and isinstance(nv_, dict):
                if nv_ is not cur_:
                    nv_ = dict(nv_)
                    cur_.clear()
                    cur_.update(nv_)
                return
            if isinstance(cur_, list) and isinstance(nv_, list):
                if nv_ is not cur_:
                    cur_[:] = list(nv_)
                return
        if deref_ and l.get('k') == 'Path' and l['res'].get('k') == 'Local' and hasattr(env.get(l['res']['id']), 'mr_assign'):
            # `*r = value` / `*r op= value` through a reference to a mutable host value: the referent changes, not the binding
            cur_ = env[l['res']['id']]
            cur_.mr_assign(v if op is None else op(cur_, v))
            return
        if l.get('k') == 'Path' and l['res'].get('k') == 'Local':
            i = l['res']['id']
            env[i] = v if op is None else op(env[i], v)
            return
        if deref_ and l.get('k') in ('MethodCall', 'Call'):
            c_ = self.ev(l, env)
            if isinstance(c_, Cell):
                c_.set(v if op is None else op(c_.get(), v))
                return
            if hasattr(c_, 'mr_assign'):
                c_.mr_assign(v if op is None else op(c_, v))
                return
            if isinstance(c_, dict) and isinstance(v, dict) and op is None:
                nv_ = dict(v)
                c_.clear()
                c_.update(nv_)
                return
            raise NoEval('assignment through %s' % hir.pp(l0)[:30])
        if l.get('k') == 'Field':
            b = self.ev(l['e'], env)
            b = b.get() if isinstance(b, Cell) else b
            if isinstance(b, dict) and '__struct__' in b and l['name'] in b:
                b[l['name']] = v if op is None else op(b[l['name']], v)
                return
            if isinstance(b, list) and l['name'].isdigit() and int(l['name']) < len(b):
                b[int(l['name'])] = v if op is None else op(b[int(l['name'])], v)
                return
            bc_ = self.ev(l['e'], env)
            if isinstance(bc_, Cell) and isinstance(bc_.get(), tuple) and l['name'].isdigit() and int(l['name']) < len(bc_.get()):
                t_ = list(bc_.get())
                t_[int(l['name'])] = v if op is None else op(t_[int(l['name'])], v)
                bc_.set(tuple(t_))
                return
        if l.get('k') == 'Index':
            b = self.ev(l['e'], env)
            i = self.ev(l['i'], env)
            if isinstance(b, list) and isinstance(i, int) and 0 <= i < len(b):
                b[i] = v if op is None else op(b[i], v)
                return
            if isinstance(b, list) and isinstance(i, int) and not isinstance(i, bool):
                raise Panics('index %d out of bounds (len %d) in an assignment' % (i, len(b)))
            if isinstance(b, dict):
                b[i] = v if op is None else op(b[i], v)
                return
        raise NoEval('assignment to %s' % hir.pp(l0)[:30])

    def stmt(self, s, env):
        self.tick()
        k = s.get('k')
        if k == 'Let':
            if s.get('init') is None:
                return None
            v = self.val(s['init'], env)
            ok = self.bind(s['pat'], v, env)
            if not ok:
                if s.get('els'):
                    self.block(hir.stmts_of(s['els']), env, scoped=True)
                    raise NoEval('let-else did not diverge')
                raise NoEval('refutable let')
            return None
        if k == 'Assign':
            self.place_set(s['l'], self.val(s['r'], env), env)
            return None
        if k == 'AssignOp':
            lt_ = (s['l'].get('ty') or '').strip()
            if self.facts is not None and lt_ in self.facts.get('adts', {}):
                lv_ = self.ev(s['l'], env)
                if isinstance(lv_, dict) and '__struct__' in lv_:
                    k_ = self._op_impl(s['op'], lt_, s['r'].get('ty'))
                    if k_ is None:
                        raise NoEval('operator %s on %s' % (s['op'], lt_))
                    self.local_call(k_, [lv_, self.ev(s['r'], env)])
                    return None
            f = {'AddAssign': lambda a, b: a + b, 'SubAssign': lambda a, b: a - b, 'MulAssign': lambda a, b: a * b,
                 'BitXorAssign': lambda a, b: (a != b) if isinstance(a, bool) else a ^ b, 'BitAndAssign': lambda a, b: (a and b) if isinstance(a, bool) else a & b,
                 'BitOrAssign': lambda a, b: (a or b) if isinstance(a, bool) else a | b,
                 'DivAssign': lambda a, b: (abs(a) // abs(b) * (1 if (a >= 0) == (b >= 0) else -1)) if isinstance(a, int) else a / b,
                 'RemAssign': lambda a, b: (a - b * (abs(a) // abs(b) * (1 if (a >= 0) == (b >= 0) else -1))) if isinstance(a, int) else a % b,
                 'ShlAssign': lambda a, b: a << b, 'ShrAssign': lambda a, b: a >> b}.get(s['op'])
            if not f:
                raise NoEval(s['op'])
            ty_ = int_ty(s['l'].get('ty'))
            if ty_ is not None and ty_ != _INT_TY['usize'] and s['op'] in ('AddAssign', 'SubAssign', 'MulAssign', 'ShlAssign'):
                f0 = f

                def f(a, b, _f0=f0, _ty=ty_, _t=s['l'].get('ty')):
                    r_ = _f0(a, b)
                    if isinstance(r_, int) and not isinstance(r_, bool) and not in_range(r_, _ty):
                        raise Panics('arithmetic overflow in %s' % _t)
                    return r_
            self.place_set(s['l'], self.ev(s['r'], env), env, f)
            return None
        if k == 'For':
            rb = hir.range_bounds(s['iter'])
            if rb is not None and rb[1] is not None:
                it = list(range(self.ev(rb[0], env), self.ev(rb[1], env) + (1 if rb[2] else 0)))
            else:
                it = self.ev(s['iter'], env)
                if isinstance(it, dict):
                    it = list(it.items())
                if isinstance(it, HSet):
                    it = it._iter(())          # (sorted for a BTreeSet; a hash set of more than one element has no modelled order)
            if not isinstance(it, (list, tuple)):
                raise NoEval('for over %s' % type(it).__name__)
            for x in list(it):
                if not self.bind(s['pat'], x, env):
                    raise NoEval('for pattern')
                try:
                    self.block(hir.stmts_of(s['body']), env, scoped=True)
                except _Continue as c_:
                    if c_.target is not None and s.get('id') is not None and c_.target != s['id']:
                        raise
                    continue
                except _Break as b_:
                    if b_.target is not None and s.get('id') is not None and b_.target != s['id']:
                        raise
                    break
            return None
        if k in ('While', 'Loop'):
            n = 0
            while True:
                n += 1
                if n > 200:
                    raise NoEval('loop bound')
                if k == 'While' and not self.ev(s['cond'], env):
                    break
                try:
                    self.block(hir.stmts_of(s['body']), env, scoped=True)
                except _Continue as c_:
                    if c_.target is not None and s.get('id') is not None and c_.target != s['id']:
                        raise
                    continue
                except _Break as b_:
                    if b_.target is not None and s.get('id') is not None and b_.target != s['id']:
                        raise
                    return b_.value
            return None
        if k == 'Item':
            return None
        return self.ev(s, env)

    def block(self, stmts, env, scoped=False):
        val = None
        for s in stmts:
            val = self.stmt(s, env)
        return val
