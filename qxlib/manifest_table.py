"""One row per property: what the check claims (MANIFEST.json is generated from this by bin/mkmanifest)."""

TB = 'Trusted base: rustc nightly (name resolution, type check), the qxfacts exporter, the reference tables in the rule modules. '

CHECKS = {
    'C16': {
        'text': 'Static: Phase is canonical by construction (private field, single literal flowing into normalize, no field writes); '
                'Phase::normalize proved to return a numerator in (-denom, denom] on every return path by a template-constraint abstract '
                'interpreter; the 12 binary operator impls + Neg use their own operator in (self, rhs) order; the classification '
                'predicates equal the reference predicates. Decides necessary structural conditions, not the value-level laws. limit_denominator is, step for step, CPython Fraction.limit_denominator: its transition functions (initial convergents, floor quotient, exit test, state update, k, the tie rule, both candidates) are extracted by symbolic execution on polynomials and compared with the reference modulo renaming.',
        'note': TB + 'Not decided: that the reference algorithm (CPython Fraction.limit_denominator, which the statement names) returns the closest fraction; float round-trip; i64 overflow excluded by the quantifier.',
        'technique': 'encapsulation enumeration over HIR+MIR, abstract interpretation (template constraints), operator-impl sibling rule',
    },
    'C01': {
        'text': 'Static: every call of an *_unchecked rule in the lib is justified (checked wrapper whose matcher establishes the contract; sweep-macro '
                'instance dominated by a matcher call on the same arguments that establishes the rule\'s contract with no graph mutation in between; three named '
                'rule-inside-rule exceptions); the inline matchers of fuse_gadgets / remove_gadget_pi establish the phase-gadget contract at the point a gadget is '
                'recorded; a symbolic effect executor shows that each of the 18 rule bodies (incl. all 8 arms of add_edge_smart) produces exactly the effects of its '
                'reference schema (phases as linear forms, sqrt2 exponents as polynomials, scalar factors as normalised sums); raw edge insertions only to fresh '
                'vertices or under a not-connected test. The fusion loop of fuse_gadgets removes all gadgets of a group but the first (hub and leaf), sums their leaf phases into the first leaf and multiplies the scalar by sqrt2^(-(num-1)(degree-1)) (exponent compared as a polynomial).',
        'note': TB + 'Schemas (refs/effects_ref.py) and contracts (refs/rules_req.py) are the trusted base, reviewed against DESIGN Appendix A.1. Beyond the evaluated small scope (diagrams of at most about ten vertices, phases in multiples of pi/4) what is decided is the structural reading: guards, inline matchers, effect schemas, edge discipline. Not decided: termination, float tolerance for phases outside pi/4.',
        'technique': 'guard dominance with must-fact contracts, facts-at-program-point extraction, symbolic effect summaries with polynomial/linear normal forms, freshness dataflow',
    },
    'C02': {
        'text': 'Static: each arm of Gate::add_to_graph is reduced to a semantic descriptor (spider colours, connecting edge after colour change, phase '
                'constant, sqrt2 power) that must equal the reference gate semantics and the independently extracted tensor-side descriptor of '
                'Circuit::to_tensor; state/effect kinds have their sqrt2 powers; compound kinds go through the basic-gate expansion or the gadget (edge '
                'discipline, scalar omega*2^2); PostSelect and Measure perform the same slot-keyed index-shift block; the qubit->output-slot map that SWAP '
                'permutes is consumed as a gather in qubit order when outputs are finalised; every arm goes through the map; simplify-while-building applies only checked rules. No gate overwrites the diagram scalar (every update is multiplicative); the CCZ/Toffoli constant sequences multiply out to the gate and the parity-phase expansion has the exact phase polynomial for every arity 0..8 (shared with C15).',
        'note': TB + 'Beyond the evaluated circuits (one to four gates on at most three wires) what is decided is the structural reading (per-gate table, slot bookkeeping, compound gates through push_basic_gates). Not decided: measurement gates end to end (C10 evaluates their arms), phases outside multiples of pi/4.',
        'technique': 'dispatch-table descriptors cross-checked between two implementations and a reference, sibling agreement, data-flow rule on the map, who-may-call',
    },
    'C03': {
        'text': 'Static: every gate constructed in code reachable from Extractor::extract (including the RowOps-for-Circuit callbacks) has a constant kind '
                'in {H, ZPhase, CZ, CNOT, SWAP} (decides that clause of the statement completely); each m.add_row is mirrored by c1.add_row with identical '
                'operands and the same m is written back; every proxy circuit is consumed into the output circuit on every path; update_frontier_circuit visits '
                'all gates in order, lifts both operands through the frontier and pushes to the front; only checked rules; every ExtractError propagated; CLI '
                'wiring parse -> to_graph -> simp -> to_circuit -> to_qasm -> print/write; configuration tables. single_sln_set selects an extractable row whenever one exists (argmin idiom: non-strict comparison against an attainable initial bound, among rows of weight one, solution set read from the selected row).',
        'note': TB + 'Success and equivalence of extraction are decided on the evaluated small scope only (circuits of up to three gates on up to three wires; the external bitgauss crate is a host model ported from its source; hash sets iterated in sorted order); beyond it the structural rules stand. Not decided: the .expect in the CLI for circuits outside the scope, QASM round trip as values (C14).',
        'technique': 'constant-argument emission rule over call-graph closure, mirrored-operation and proxy-consumption pairing, who-may-call, error-propagation rule, wiring/data-flow and configuration tables',
    },
    'C04': {
        'text': 'Static: must-fact extraction over the resolved HIR shows that each of the 14 contracted matchers establishes, on every accepting path, '
                'every conjunct of its rule precondition that is necessary for soundness or for not panicking (refs/rules_req.py); existence typestate: no '
                'panicking accessor on a vertex parameter is reached without a fact implying the vertex exists (17 matchers, helpers inlined); rejection is a '
                'no-op: matchers take &impl GraphLike, no interior mutability in either back end, each checked wrapper mutates only in the accepting branch with its own arguments.',
        'note': TB + 'The contract table is trusted (derivations in refs/rules_req.py). Sufficiency of the matchers\' conditions is decided on the evaluated small scope only (that is where defect 29 was found); beyond it the contract table stands. Not decided: arithmetic-overflow panics.',
        'technique': 'must-fact (accepting-condition DNF) extraction with closure rules, existence typestate, wrapper shape rule',
    },
    'C05': {
        'text': 'Static: the parallel and sequential branches of decompose_graph / try_decompose_by_components differ only in into_par_iter vs into_iter and a '
                'cloned decomposer as receiver (same source, recursive call, arguments, post-processing), no user-written unsafe block, no interior mutability in '
                'the decomposer, drivers or graphs (so rustc\'s Send/Sync checking carries the schedule clause); reductions and node constructors agree with the '
                'node kind (terms summed, components multiplied, scalar assigned to one component); cat_ts and the Sherlock inline matcher establish the cat '
                'contract at the point a cat is built; Decomp construction sites are guarded; raw edge insertion only to fresh vertices in the 27 replacement '
                'bodies; dispatch/config tables; structural effect schemas of apply_cat_decomp (pi-normalisation, padding), cut_spider, reverse_pivot.',
        'note': TB + 'The sum identities and coefficients are decided as values on the evaluated small scope, for the three deterministic drivers. Not decided: the dynamic-T and Sherlock drivers\' choices (float heuristics, hash-map iteration, random T choice; the steps they can choose are the evaluated ones plus the T-pair step), the final value of a whole run, the saved-terms clause as values.',
        'technique': 'sibling agreement of branch descriptors, type-level schedule argument (field-type scan), reduction/constructor table, facts-at-point contracts, freshness dataflow, effect schemas',
    },
    'C06': {
        'text': 'Static: backward slice of the Bernoulli parameter in sample(): it must combine two marginals (current decomp_graph result and a loop-carried '
                'prefix probability) through a division, and the carried prefix must be updated from the joint on a 1 and from (old prefix, joint) on a 0; the '
                'length validation returning Err(StringWrongLen) dominates the first use of the query string, both parsers default to Err; amplitude prints '
                'Re(s*conj(s)); expectation prints Re(scalar) of g;P;g-adjoint with the adjoint taken before insertion; Pauli insertion table equals the reference '
                '(Y = Z then X with phase 1/2) and preserves the type of the replaced boundary edge; all tasks go through decomp_graph whose branches differ only '
                'in decompose_parallel vs decompose; task and driver dispatch tables.',
        'note': TB + 'Not decided: what the decomposer returns for a real diagram (C05; in the evaluation it is a host that returns the scalar the plugged diagram denotes), independence of the decomposition method as values, the empirical distribution of samples.',
        'technique': 'backward data-flow slicing, validate-before-use dominance, dispatch tables, edge-replacement rule, sibling agreement',
    },
    'C07': {
        'text': 'Static: every lossy mantissa shift is paired with the lost-bit test that sets APPROX; a flag-taint analysis shows on every return path of '
                'Dyadic add/mul that the result includes the APPROX bit of both operands; Ord::cmp is decided completely over the finite abstraction '
                '{neg,zero,pos}^2 x exponent order x mantissa order against the order of the reals; exponent comparisons are dominated by zero tests; '
                'no full-width u64->i64 mantissa cast on the call path to f64/Complex; Dyadic/Scalar4 encapsulation; operator impls consistent; conj, the '
                'Z[omega] product index/sign table (by partial evaluation of its constant loops), From<Phase>, sqrt2_pow and both Complex conversions equal their reference tables.',
        'note': TB + 'Normalised-mantissa representation (top bit set) is assumed by the order abstraction and is itself checked structurally (D4). Not decided: exactness of the 64-bit arithmetic values, 1e-12 accuracy, float round-trip, exact_phase_and_sqrt2_pow.',
        'technique': 'finite-abstraction evaluation of the comparison, flag-taint dataflow on all paths, pairing rule, cast rule over call-graph closure, table extraction by partial evaluation',
    },
    'C08': {
        'text': 'Static: the 21 arms of Circuit::to_tensor are extracted as operation sequences and reduced to semantic descriptors (Hadamard set, diagonal '
                'phase, conjugation check, H, swap, panic) which must equal the reference gate semantics; only ZPhase/XPhase read the gate phase; unsupported '
                'kinds fail loudly; gates are visited in reverse over all gates; the decision structure of scalar_eq (dims, first non-zero of EACH tensor, zero '
                'cases, cross-multiplication with the other tensor\'s entry), compare and scalar_compare; the From<Phase> exactness guard and unit table.',
        'note': TB + 'Reference gate semantics in refs/gates.py; the external crate ndarray is a host model (shape + elements in logical order; stacking, broadcasting, axis sums and swaps, two-way mutable slices, Zip as documented), checked against documented ndarray behaviour on every run. Not decided: diagrams and circuits beyond the evaluated small scope (about eight vertices / three qubits, phases outside the multiples of pi/4), H-boxes (rejected by the evaluator), float rounding beyond 1e-9 on the small scope.',
        'technique': 'dispatch-table extraction with semantic descriptors, decision-structure rule, table extraction by partial evaluation',
    },
    'C10': {
        'text': 'Static: phase/vars co-transfer at every site where a vertex\'s phase flows into another vertex\'s phase (symbolic effect summaries, also through '
                'loop accumulators); vars-consistency of the scalar effects of pi-copy, local comp, pivot, remove single, remove pair: with parities present the '
                'scalar equals the parameter-free scalar at the shifted phases for every presence pattern and assignment (exact algebra in Q(omega), finite phase '
                'domains from the matchers enumerated); each rule handles a vertex\'s parities or its matcher requires them absent; Parity constructors and recognisers '
                'agree (recogniser evaluated on the constructor literal), Expr::quadratic normal form, private fields, both back ends multiply scalar factors on '
                'collision; both measurement arms attach the given or a fresh parity to their X effect. The Measure arm removes the output slot and shifts the qubit->slot map keyed by the removed slot, exactly as PostSelect.',
        'note': TB + 'The parameter-free branch of each rule is the oracle for its boolean-variable branch. Not decided: instantiation semantics, measurement circuits end to end, diagrams beyond the evaluated small scope as values.',
        'technique': 'symbolic effect summaries with pairing obligations, exact Q(omega)/Laurent-polynomial algebra over extracted scalar effects, constructor/recogniser evaluation on literals, sibling rules',
    },
    'C11': {
        'text': 'Static: is_identity establishes |in| = |out|, num_vertices = 2n and a plain edge between input i and output i (must-facts); the plug list is '
                'indexed only under a dominating bound test; plug_input~plug_output and plug_inputs~plug_outputs agree under inputs<->outputs; symbolic effect '
                'summaries of plug_vertex, the four plug functions, adjoint, to_adjoint, plug, append_graph and x_to_z equal their reference schemas (sqrt2^-1 per '
                'plugged non-SKIP entry, both seam boundaries removed, scalar conjugated, old inputs/outputs exchanged); BasisElem::phase/is_z, EType::merge/opposite '
                'tables evaluated on every variant; injective-copy edge idiom in subgraph/copy/append.',
        'note': TB + 'Schemas in refs/effects_ref.py. Not decided: tensor equalities, cups/caps inside the plugged graph.',
        'technique': 'must-fact contract, dominance rule for bound tests, sibling agreement on effect summaries, schema conformance, enum-function table evaluation',
    },
    'C12': {
        'text': 'Static: return-path analysis of equal_graph_with_options gives exactly the decision table {dims differ -> Some(false); identity and '
                'up-to-phase -> Some(true); identity and exact -> Some(scalar-argument test of the composed graph); otherwise None}, with the data flow '
                'adjoint-of-one-argument plugged with the OTHER argument then full_simp; equal_graph_tensor is dims-check then to_tensor4 == to_tensor4 of its '
                'two arguments; equal_graph_dim compares both input and output counts; wrappers pass arguments through in order.',
        'note': TB + 'The definite answers additionally rest on C11-D1 (is_identity) and C01 (simplifier soundness), reported under their own ids. Not decided: agreement with ground truth.',
        'technique': 'return-path condition analysis (decision table) and data-flow rule',
    },
    'C13': {
        'text': 'Static: writer and reader of the qgraph format agree on field provenance (type, phase, coordinates through Coord::new/coord()/qubit()/row() '
                'component tables, input/output order through an ordered map), on the Hadamard-edge marker (typ = H and is_edge, re-fused with a smart H edge, '
                'validated to two neighbours, no raw edge insertion in the reader), on serde attribute pairing (parsed from json.rs), on the neutral markers '
                '(vertex phase elided per type vs assumed when missing; the float factor written by the exact scalar branch is evaluated against the decoder\'s '
                'multiply-guard), the hash back end delegates to the same conversion, and a phase at the denominator bound is encoded unchanged. The polar (non-exact) arm of the scalar encoder does not round the angle (limit_denom None or >= 1e8).',
        'note': TB + 'Not decided: phase/scalar string and float encodings as values, isomorphism, tensor equality.',
        'technique': 'writer/reader table agreement through struct-literal provenance, marker agreement by evaluating the reader guard on the writer constant, attribute pairing on source text, two-site disjunctive rule',
    },
    'C14': {
        'text': 'Static: the two QASM name tables are mutually inverse for every kind but UnknownGate and use the standard names; the arity table equals '
                'the reference; the opaque prelude declares every gate name of the property with the arity of num_qubits() and a parameter exactly when '
                'to_qasm prints one; every GateWriter method emits on every Ok path or returns Err (barrier/reset/conditional/U are errors), from_qasm_parser '
                'propagates its three error sources with `?` and drops no Result; Display prints num_qubits() and every gate in order.',
        'note': TB + 'Not decided: decimal<->rational phase exactness, register layout (external openqasm crate), the zero-gate circuit qubit count.',
        'technique': 'dispatch-table agreement (writer vs reader vs prelude string), error-discipline path rule, printer structure rule',
    },
    'C15': {
        'text': 'Static: Gate::adjoint agrees with the adjoint table derived from reference gate semantics (same Hadamard set, negated phase) and '
                'Circuit::adjoint reverses and adjoints every gate; the number of gates pushed by push_basic_gates equals num_basic_gates for every '
                'kind and arity 0..8, emitted kinds are basic, the constant CCZ/Toffoli sequences found in the source multiply out to the reference '
                'matrices, the parity-phase expansion is a CNOT ladder; the five Add/AddAssign impls append in order; CircuitStats increments exactly '
                'one size and one class counter per gate on every path. The parity-phase expansion is evaluated for every arity 0..8 on an F2 phase-polynomial model: the CNOT network is undone and the only phase term is self.phase on the parity of all qubits (a correct CNOT ladder passes, a non-reversed uncompute does not).',
        'note': TB + 'Reference gate semantics in refs/gates.py. Not decided: equality of maps for whole circuits.',
        'technique': 'dispatch-table extraction and agreement, symbolic count of emissions per path, constant-sequence evaluation, path partition rule',
    },
    'C17': {
        'text': 'Static: in gauss_helper every self.row_add(a,b) is immediately mirrored by x.row_add(a,b) with identical operands, the matrix is '
                'written only through row_add, and a != b at every site by a recognised justification (guard, excluding range, chunk-map idiom); '
                'inverse returns Some only under the square test and rank == rows of a full reduction whose proxy started as the identity; '
                'row_add/col_add/row_swap/col_swap follow the trait doc and are transposes of each other; Mul is the F2 product and the forwarders keep operand order; '
                'no early exit from the block / column loops, the null space is empty only at full column rank; the column blocks tile 0..cols in both phases for every cols <= 24 and block size <= cols '
                '(integer interpretation of num_blocks/i0/i1), a found pivot records its column, advances the pivot row once and ends the search, the elimination / pivot-search / chunk-scan loops cover the rows they must; '
                'nullspace data flow (one vector per free variable, unit entry, back substitution pairing, fully reduced clone); transpose / constructors / stack / forwarder descriptors.',
        'note': TB + 'Not decided: that the result is a (reduced) echelon form, rank and null-space values, algebraic laws as value equalities.',
        'technique': 'mirrored-operation pairing, who-may-write, return-path condition analysis, sibling descriptors',
    },
    'C18': {
        'text': 'Static: every swap_subtrees is dominated by invalidation of the cached ranks it changes (clearing loop over path(c1,c2), the three '
                'explicit clears for adjacent parents, or clear_ranks()), move_subtree by clear_ranks(); the surgery primitives are called only from the '
                'three invalidating moves; every keyed access to the rank cache uses the canonical (min,max) key and the field is private; the annealer '
                'replaces its best tree only under width < best_width and returns it; the two-distinct-indices idioms are proved by zone-domain abstract interpretation; the moves return early unless the tree is large enough (3 leaves / 6 nodes / a path of 4), replace_neighbor rewrites the first occurrence only, the annealer does not divide by an integer score that can be 0.',
        'note': TB + 'Tree validity after surgery, equality of cached and recomputed widths and panic freedom are decided for the explored sizes only (graphs with up to 5, thorough 6, vertices; at most 2, thorough 3, moves between cache refills; annealer runs of up to 2 iterations); beyond them the structural rules are what is decided.',
        'technique': 'dominance/pairing rule for cache invalidation, who-may-call, canonical-key rule, zone-domain abstract interpretation',
    },
    'C09': {
        'text': 'Static: the induction step of the representation invariant of both graph back ends, method by method and path by path, through an abstraction map '
                'from each back end\'s concrete operations to neutral events: numv tracks occupied vdata slots, vdata/edata change in lock-step at the same vertex, every nume+-1 '
                'comes with the two mirror half-edges of one type, set_edge_type writes both sides, failed operations change nothing, emptied slot <-> holes.push, hole taken <-> '
                'slot filled, every empty slot pushed by a resize is a hole or filled, every new hash name ends below freshv, no representation write outside the recognised '
                'operations; direct slot writes proved in bounds in a length domain and total methods free of unguarded expect/unwrap/index/panic; the two back ends agree on neutral '
                'events per method, on the presence condition of Err, on the s<=t orientation filter of edges/find_edge and on skipping empty slots; pack moves vdata and edata together '
                'under the occupancy test, fills vtab before advancing, truncates, clears holes and rewrites every stored neighbour id and every vertex-bearing field through vtab; derive(Clone, '
                'PartialEq), owned private fields; accessor tables (trait defaults over VData, coordinate overrides, inputs/outputs/scalar accessors).',
        'note': TB + 'The abstraction map (DESIGN Appendix A.3) is trusted. Not decided: behaviour under whole histories (the induction over the per-method steps is ours), self-loops/parallel edges, enumeration order.',
        'technique': 'abstraction map to neutral events with per-path pairing invariants (effect paths), length-domain abstract interpretation for slot indices, sibling agreement on neutral events, renaming-consistency rule for pack, encapsulation and accessor tables',
    },
    'C19': {
        'text': 'Static: in the call-graph closure of each seeded builder every random draw uses the builder\'s own rng field and no other entropy, '
                'clock, environment source or RandomState iteration is reachable; seed() installs seed_from_u64(seed); every field setter writes '
                'exactly its own field; the 2-/3-way distinct-index idioms are proved pairwise distinct and in range by a zone-domain abstract '
                'interpretation (all paths), Pauli-gadget qubits are drawn without replacement; hidden-shift, Pauli-gadget and graph-state structure rules; for every even denominator 4..=64 the Pauli-gadget numerator computation (guard, ranged draw, skip chain) is evaluated on an integer interpreter over every value the draw can return and never yields d/2, d, 3d/2.',
        'note': TB + 'Not decided: the hidden-shift promise, unit norm, numerator arithmetic, gate-kind probabilities.',
        'technique': 'call-graph reachability with receiver-rooted determinism rule, zone-domain abstract interpretation, structural pairing rules',
    },
    'C20': {
        'text': 'Static: on every path to return detection_webs writes back the inputs/outputs it saved before the first setter, each to its own '
                'setter; the node order handed to the positional [I|N] block construction has the boundary vertices first whatever their ids (recognised '
                'idioms: stable sort keyed by vertex_type != B, or a first segment filtered on vertex_type == B) and that order is the one used for the adjacency matrix; '
                'the column offset pw() recomputes from g.inputs()/g.outputs() is the width of the identity block (same vector, unmodified, inputs emptied, nothing changes them before pw runs) and pw looks nodes up as index_map[col - n_outs] over all columns; '
                'the matrix whose null space is taken has the block structure [[I_outs;0 | N],[I_2outs | 0]] with every vstack/hstack dimension-consistent (symbolic shapes); pw\'s colour and Pauli tables; every basis vector becomes one returned web; make_bipartite re-routes every edge it removes through one fresh phase-free spider of the opposite colour on every path (never deletes an edge) and runs first; boundaries not attached to a spider (bare wires) are ignored.',
        'note': TB + 'Validity, independence, completeness and numbering independence are decided on the evaluated small scope (diagrams of up to 7 spiders and 9 internal edges; bitgauss::BitMatrix is a host model, any null-space basis serves the statement); beyond it D2 is a necessary condition of numbering independence only and the structural rules stand.',
        'technique': 'save/clobber/restore pairing with provenance on all paths; must-fact rule at the point where the node order is built; data-flow agreement of a positional offset between two functions; symbolic block-matrix shape evaluation; table extraction',
    },
}

# dependency clauses (Check.include): rules of another property evaluated as part of this one, because a violation there breaks this property too
DEPENDS = {
    'C02': 'C01 (D1 guards, D2 inline matchers)', 'C03': 'C02 (circuit-to-diagram translation, with C01 D1/D2) and C14 (the QASM reader and printer of the command line)', 'C04': 'C01 (D3 effect schemas, D4 edge discipline)',
    'C05': 'C01 (D1, D2) and C07', 'C06': 'C05 (with its dependencies), C11 and C02 (the translation itself)', 'C07': 'C16', 'C08': 'C07 (with C16)', 'C12': 'C01 (D1, D2)', 'C13': 'C09', 'C19': 'C15', 'C20': 'C09',
}
for _k, _v in DEPENDS.items():
    CHECKS[_k]['text'] += ' Dependency clause: the rules of %s are evaluated as part of this check (violations are reported with a dep- key prefix).' % _v

_PENDING = 'check under construction in this round (rules designed in DESIGN.md section 5; not yet registered)'
NOT_APPLICABLE = {('C%02d' % i): _PENDING for i in range(1, 21) if ('C%02d' % i) not in CHECKS}

# ---------------------------------------------------------------- round 2 addenda (DESIGN 3.4, 10.1 E3b, 10.7)
THREE_VALUED = (' Verdict semantics: a VIOLATION is printed only for a definite refutation found in the analysed source (a counterexample of an exhaustive finite evaluation, a wrong table entry, '
                'a separated guard, a missing effect); code in a shape a rule does not understand makes that obligation UNDECIDED (printed, listed in the evidence, exit 0), never an alarm.')

ROUND2 = {
    'C20': 'Round 2: the statement itself on a small scope: detection_webs is interpreted on 18 small Pauli diagrams in three vertex numberings, with and without pi phases (108 cases): every returned web avoids the boundary edges and satisfies the spider constraints, the webs are independent over F2, their number equals the dimension found by brute-force enumeration of all edge markings, it is the same for every numbering, and inputs / outputs are restored.',
    'C01': 'Round 2: the statement itself on a small scope: all 12 procedures of simplify.rs are interpreted from their HIR (with basic_rules.rs, phase.rs, params.rs and both graph back ends) on a finite family of small diagrams and the map before is compared with the map after, scalar included, under every assignment of the boolean variables, by a brute-force contraction over exact numbers in Q(e^{i pi/4}) that shares no code with tensor.rs; no procedure may panic.',
    'C04': "Round 2: the statement itself on a small scope: all 14 checked rules of basic_rules.rs, with every argument tuple (equal arguments included), interpreted on four families of small diagrams on both back ends: accepted => same linear map, scalar included, under every assignment of the variables; rejected => returns false and the back end's state is untouched; never a panic (quick: about 1 200 diagrams / 108 000 applications; thorough: every member, 3.6 million applications).",
    'C05': "Round 2: 'each decomposition step replaces a diagram by terms whose values sum to the original' is evaluated: the drivers BssTOnly, BssWithCats and SpiderCutting, apply_decomp and every replace_* they reach are interpreted on graph-like diagrams with 1..7 T-type spiders and on cat states with 3..6 legs (centre 0 / pi, adjacent legs); the maps of the terms, scalars included, must sum exactly to the map of the diagram (the hard-coded Z[omega] coefficients are checked as values).",
    'C07': 'Round 2: Ord::cmp is evaluated on the 49-case abstraction by an interpreter that follows early returns, then/then_with and match; the Z[omega] product is evaluated on symbolic coefficients for all 256 patterns of vanishing coefficients (table and zero-skips by value, not by loop shape).',
    'C08': 'Round 2: scalar_eq is evaluated on 4764 pairs of small exact tensors against "equal up to a non-zero factor"; tensor arms are followed through free helper functions.',
    'C10': 'Round 2: the statement itself on a small scope: on every member of the small-diagram family of C04 that carries boolean variables, every checked rule leaves the denoted map unchanged under EVERY assignment (a spider with parity b evaluated at phase p + b*pi, a parametrised scalar factor applied exactly when its expression is true) or returns false and changes nothing; params.rs is decided by exhaustive evaluation over the parity expressions on three variables; the Measure / MeasureReset arms are evaluated on a tracing host graph with and without a gate parity (given parity used, fresh variable otherwise, counter moved exactly once when fresh, parity attached to the X effect), private helpers followed.',
    'C11': 'Round 2: is_identity is evaluated on all 422 boundary configurations with at most 2 inputs, 2 outputs and one interior vertex (soundness of every "true", no panic); the guards of effect schemas are compared as boolean functions (enum variants, order trichotomy, options) rather than as text.',
    'C12': 'Round 2: equal_graph_with_options and equal_graph_tensor are evaluated over a symbolic host (diagrams as expressions adj(arg1) o arg2, 16 worlds of dims / identity / flag / scalar argument) against the soundness table of the statement; is_identity as in C11.',
    'C13': 'Round 2: reader/writer field provenance is compared through canonical, name-independent access paths (self.node_vertices[*].1.annotation.coord.0 ...); the marker condition is evaluated for every vertex type and both flag values; the neighbour-count validation is recognised as a length test or a two-element slice pattern.',
    'C14': 'Round 2: Gate::to_qasm is evaluated for every kind and both phase classes and Display for Circuit on a circuit whose gates leave the last qubits untouched (text compared with the reference form); the exact-multiple path and the register fallback are decided on access paths.',
    'C15': 'Round 2: decided by evaluation on small circuits — Gate::adjoint on every unitary kind (denotation negated), Circuit::adjoint / reverse / to_adjoint on circuits of 0..6 gates in every two-slice layout of the VecDeque, push_basic_gates / num_basic_gates / to_basic_gates for every kind and arity (CCZ / Toffoli multiplied out, parity-phase as an F2 phase polynomial for arities 0..8), CircuitStats::make on 168 one-gate circuits plus additivity, the five Add impls.',
    'C17': 'Round 2: the statement\'s own clauses are decided exhaustively for every F2 matrix with at most 3 rows and 3 columns (thorough tier: 3x4, the bound the statement names), every block size 1..cols and both reduction modes, against a brute-force model: rank, (reduced) echelon form, same row space through the reported row operations, two-sided inverse exactly when invertible, null space (annihilated, independent, cols - rank), transpose, stacking, all four Mul impls. Larger sizes remain covered structurally (block tiling up to 24 columns).',
    'C18': 'Round 2: DecompTree and RankwidthAnnealer::run are interpreted from their HIR on graphs with 2..5 vertices (thorough tier: up to 6, and every state reachable on the 4-vertex path) over every outcome of every random draw and every interleaving of moves and cache refills; an independent oracle decides at every reached state: cubic tree with exactly the vertices as leaves, no panic, rankwidth / score with the cache = the same on an empty cache = largest cut rank by brute force; the annealer returns a valid tree no wider than its initial one. The structural rules are the size-independent reading of the same code; cache-key canonicality is read off dominating conditions, cache writes off value provenance.',
    'C02': 'Round 2: the statement itself on a small scope: Circuit::to_graph_with_options is interpreted in all three modes on both back ends for 1 892 small circuits (every unitary kind on every tuple of distinct qubits of 1..3 wires, five phases, parity-phase gadgets of every arity, ordered pairs, compound gates, ancilla initialisation first / post-selection last) and the map of the diagram, scalar included, is compared with the gate-by-gate matrix semantics of the reference table; the output-slot bookkeeping of post-selection and measurement is evaluated on concrete qubit-to-slot maps.',
    'C03': 'Round 2: the statement itself on a small scope: for 635 unitary circuits of one to three gates on two / three wires, Circuit::to_graph, each simplification strategy and each extractor mode are interpreted (bitgauss::BitMatrix as a host that ports the crate\'s elimination routine and calls the interpreted RowOps impl back): extraction succeeds, stays on the same qubits and in the gate set H / ZPhase / CZ / CNOT / SWAP, and implements the same unitary up to a non-zero scalar (up to permutation where so requested); the OptMethod dispatch is evaluated for every variant.',
    'C06': 'Round 2: amplitude, expectation_value, sample and decomp_graph are evaluated end to end on a host circuit denoting a fixed state with exact amplitudes (1..3 qubits): the numbers returned equal |<b|psi>|^2, <psi|P|psi> and the conditional probabilities computed directly from the state, for every bit / Pauli string (broadcast and exact length, plain and Hadamard boundary edges, with and without --parallel) and every outcome of the draws; wrong lengths are rejected before the diagram is touched; both string parsers on every string of length <= 2.',
    'C09': 'Round 2: both back ends are interpreted themselves and explored differentially against a model graph over operation sequences from three seed graphs (holes, names beyond the end): same observations through the name bijection, same failures.',
    'C16': 'Round 2: phase.rs is evaluated on a host model of Rational64 (constructors normalise, every operator impl, predicates, conversions; limit_denominator against CPython\'s).',
    'C19': 'Round 2: every generator is explored over ALL outcomes of its random draws for small parameters (about 6000 outcomes per run): distinct in-range qubit arguments, only kinds with non-zero probability and all of them, depth, Pauli-gadget weights / phases (non-Clifford for even denominators >= 4) / basis-change layer undone by its adjoint, stabiliser-state structure with scalar sqrt2^(#H-edges - qubits), and the hidden-shift promise itself on 6 qubits (|0..0> -> |shift> with probability one, exact integer amplitudes).',
}

# ---------------------------------------------------------------- round 3 addenda (DESIGN 10.9)
ROUND3 = {
    'C05': 'Round 3: every table keyed by the length of a cat_ts result (the alpha table of the dynamic driver) is evaluated arm by arm for every length cat_ts returns (0, 4..7): no reachable cat size panics.',
    'C07': 'Round 3: the approximation flag is followed through the ring operations with one coefficient of either operand flagged, approximate ZEROS included (found and fixed: a product dropped an approximate zero of its left operand); recognition of sqrt2^p * e^{i k pi/4} on full-width mantissas (found and fixed: 2^64 - 1 was taken for -1); zero / one tests next to one and far outside the float range; signed zeros; conversion of ordinary dyadics to f64.',
    'C09': 'Round 3: vindex() is observed at every state of the differential exploration (never a live name, above all of them).',
    'C11': 'Round 3: plug denotes sequential composition, scalar included, on 696 pairs of small diagrams whose seams merge into parallel edges of either colour (both interpreted back ends; linear maps by brute-force contraction).',
    'C12': 'Round 3: the leftover scalar argument is a concrete angle per world (0, float noise, pi/2^22, 1e-3, pi, -pi/2) and approx::AbsDiff is modelled with its epsilon: 48 worlds; plug as a linear map on parallel-edge seams (as C11).',
    'C13': 'Round 3: write_graph / read_graph interpreted on a host model of std::fs (target file absent, longer, shorter, empty: afterwards the file holds exactly the encoding and reads back); JsonScalar::from(&Scalar4) and Scalar4::try_from(&JsonScalar) interpreted end to end (json/scalar.rs, json/phase.rs incl. its string formatting and parsing, scalar.rs, dyadic.rs) on all 136 scalars sqrt2^p * e^{i k pi/4}, p from -3001 to 3001: decoded exactly, unflagged; is_one true for 1 only and never panicking.',
    'C14': 'Round 3: from_qasm_parser interpreted on host objects for the openqasm crate for programs that declare registers and contain no statement (seven register layouts): the circuit has the sum of the qreg sizes; the formatting trait of every placeholder is read ({} vs {:?}) and floats are printed as Rust prints them.',
    'C18': 'Round 3: graphs whose vertex names have holes; at every reached state every entry of the rank cache is keyed by an edge of the current tree and holds that edge\'s cut rank.',
    'C20': 'Round 3: diagrams with bare boundary-to-boundary wires next to same-coloured pairs in all three numberings.',
    'C08': 'Round 3: the statement itself on a small scope: tensor.rs is interpreted from its HIR on a host model of ndarray — the graph evaluator (contraction order, seen-degree bookkeeping, index positions, Hadamard normalisation, stored scalar) on both back ends for about 4 000 well-formed small diagrams (0..3 spiders of both colours, every edge pattern, up to three boundaries each way, several boundaries on one spider, closed / disconnected diagrams, isolated spiders, boundaries wired straight to boundaries incl. crossings, cups and caps, circuit-like diagrams with a gadget) under several vertex numberings, in the exact number type and in Complex<f64> (the from_phase / sqrt2_pow impls of tensor.rs interpreted); the circuit evaluator on every supported gate kind on every tuple of distinct qubits of 1..3 wires plus pairs and longer sequences; every entry is compared with a brute-force contraction / the product of the reference gate matrices, axes ordered inputs then outputs; unsupported kinds panic; the QubitOps primitives (ident, delta, cphase, hadamard, delta_at, cphase_at, hadamard_at, plug_n_qubits on its documented domain) against their definitions; compare / scalar_compare end to end on (diagram, circuit) pairs with known relation. The per-gate table and the decision-structure rules are the size-independent fallback.',
}

for _pid, _row in CHECKS.items():
    if _pid in ROUND3:
        _row['text'] = _row['text'].rstrip() + ' ' + ROUND3[_pid]
for _pid, _row in CHECKS.items():
    if _pid in ROUND2:
        _row['text'] = _row['text'].rstrip() + ' ' + ROUND2[_pid]
        _row['technique'] = _row['technique'] + ', exhaustive finite-domain evaluation of closed fragments by a source-level abstract interpreter (no code of the crate is compiled or run)'
    _row['note'] = _row['note'].rstrip() + THREE_VALUED
