"""One row per property: what the check claims (MANIFEST.json is generated from this by bin/mkmanifest)."""

TB = 'Trusted base: rustc nightly (name resolution, type check), the qxfacts exporter, the reference tables in the rule modules. '

CHECKS = {
    'C16': {
        'text': 'Static: Phase is canonical by construction (private field, single literal flowing into normalize, no field writes); '
                'Phase::normalize proved to return a numerator in (-denom, denom] on every return path by a template-constraint abstract '
                'interpreter; the 12 binary operator impls + Neg use their own operator in (self, rhs) order; the classification '
                'predicates equal the reference predicates. Decides necessary structural conditions, not the value-level laws.',
        'note': TB + 'Not decided: limit_denominator optimality, float round-trip; i64 overflow excluded by the quantifier.',
        'technique': 'encapsulation enumeration over HIR+MIR, abstract interpretation (template constraints), operator-impl sibling rule',
    },
}

_PENDING = 'check under construction in this round (rules designed in DESIGN.md section 5; not yet registered)'
NOT_APPLICABLE = {('C%02d' % i): _PENDING for i in range(1, 21) if ('C%02d' % i) not in CHECKS}
