"""R-PAIR — mirrored operations (DESIGN 4.6)."""
from . import hir


def mirror_pairs(f, method, is_primary, is_mirror):
    """Every `P.method(args)` statement must be immediately followed, in the same block, by
    `M.method(args)` with structurally identical arguments, and every `M.method` preceded by its primary.
    Returns [(ok, primary-or-mirror node, why)] — one entry per primary call plus one per orphan mirror."""
    res = []
    paired_mirrors = set()
    all_calls = [c for c in hir.calls(f['hir']) if c.get('k') == 'MethodCall' and c['name'] == method]
    stmt_calls = set()
    for _b, st in hir.blocks(f['hir']):
        for i, s in enumerate(st):
            s0 = hir.strip(s)
            if not (s0.get('k') == 'MethodCall' and s0['name'] == method):
                continue
            stmt_calls.add(id(s0))
            if is_primary(s0['recv']):
                nxt = hir.strip(st[i + 1]) if i + 1 < len(st) else None
                ok = bool(nxt is not None and nxt.get('k') == 'MethodCall' and nxt['name'] == method and is_mirror(nxt['recv'])
                          and len(nxt['args']) == len(s0['args']) and all(hir.same_expr(a, b) for a, b in zip(s0['args'], nxt['args'])))
                if ok:
                    paired_mirrors.add(id(nxt))
                res.append((ok, s0, '' if ok else '`%s` is not immediately followed by the same operation on the mirror object (next statement: %s)'
                            % (hir.pp(s0), hir.pp(nxt)[:80] if nxt else 'none')))
    for c in all_calls:
        if is_mirror(c['recv']) and id(c) not in paired_mirrors:
            res.append((False, c, 'mirror operation `%s` has no preceding primary operation with the same arguments' % hir.pp(c)))
        if is_primary(c['recv']) and id(c) not in stmt_calls:
            res.append((False, c, 'primary operation `%s` is not a statement of a block (cannot be paired)' % hir.pp(c)))
    return res
