"""E3 — a small abstract interpreter in a template-constraint domain (DESIGN 3.1).

Domain: one tracked integer variable `x` (a `let mut` local initialised from a designated source),
one symbol `d >= 1`, constraints `x ⋈ c·d + k` with rational c, k.  Transfer functions: assignment
from `rem_euclid(c·d + k)` (gives 0 <= x < c·d + k), `+=`/`-=` of an affine form, conditionals
(`<`, `<=`, `>`, `>=`, `&&`).  Entailment of a target constraint is decided for all d >= 1.
Straight-line / if-else code only; anything else drops the facts about x (sound: proves less).
"""
from fractions import Fraction as Fr

from . import hir


def aff(d=0, N=0, k=0):
    return {'d': Fr(d), 'N': Fr(N), '1': Fr(k)}


def aadd(a, b, s=1):
    return {x: a[x] + s * b[x] for x in a}


def ascale(a, f):
    return {x: a[x] * f for x in a}


class St:
    def __init__(self):
        self.env = {}
        self.cons = []
        self.tracked = None
        self.untouched = True

    def copy(self):
        t = St()
        t.env = dict(self.env)
        t.cons = list(self.cons)
        t.tracked = self.tracked
        t.untouched = self.untouched
        return t


class Interp:
    """`sym(e)` maps leaf expressions to affine forms over {d, N} (N = the initial value of x)."""

    def __init__(self, sym):
        self.sym = sym
        self.results = []

    def ev(self, e, st):
        e = hir.strip(e)
        k = e['k']
        v = self.sym(e)
        if v is not None:
            return ('aff', v)
        if k == 'Lit':
            n = hir.lit_int(e)
            if n is not None:
                return ('aff', aff(k=n))
        if k == 'Path' and e['res']['k'] == 'Local':
            v = st.env.get(e['res']['id'])
            if v:
                return v
        if k == 'Unary' and e['op'] == 'Neg':
            v = self.ev(e['e'], st)
            if v[0] == 'aff':
                return ('aff', ascale(v[1], -1))
        if k == 'Binary' and e['op'] in ('Mul', 'Add', 'Sub'):
            l = self.ev(e['l'], st)
            r = self.ev(e['r'], st)
            if l[0] == 'aff' and r[0] == 'aff':
                if e['op'] == 'Add':
                    return ('aff', aadd(l[1], r[1]))
                if e['op'] == 'Sub':
                    return ('aff', aadd(l[1], r[1], -1))
                for a, b in ((l[1], r[1]), (r[1], l[1])):
                    if a['d'] == 0 and a['N'] == 0:
                        return ('aff', ascale(b, a['1']))
        if k == 'MethodCall' and e['name'] == 'rem_euclid' and (e.get('callee') or '').endswith('::rem_euclid'):
            return ('rem', self.ev(e['recv'], st), self.ev(e['args'][0], st))
        return ('unk', k)

    def cond_cons(self, e, st, pol):
        e = hir.strip(e)
        if e['k'] == 'Binary' and e['op'] == 'And' and pol:
            return (self.cond_cons(e['l'], st, True) or []) + (self.cond_cons(e['r'], st, True) or [])
        if e['k'] == 'Binary' and e['op'] == 'Or' and not pol:
            return (self.cond_cons(e['l'], st, False) or []) + (self.cond_cons(e['r'], st, False) or [])
        if e['k'] == 'Binary' and e['op'] in ('Lt', 'Le', 'Gt', 'Ge'):
            l = self.ev(e['l'], st)
            r = self.ev(e['r'], st)
            op = e['op']
            if r[0] == 'var' and l[0] == 'aff':
                l, r = r, l
                op = {'Lt': 'Gt', 'Le': 'Ge', 'Gt': 'Lt', 'Ge': 'Le'}[op]
            if l[0] == 'var' and r[0] == 'aff' and r[1]['N'] == 0:
                if not pol:
                    op = {'Lt': 'Ge', 'Le': 'Gt', 'Gt': 'Le', 'Ge': 'Lt'}[op]
                return [(op, r[1]['d'], r[1]['1'])]
        return None

    def run(self, stmts, st, trace):
        if not stmts:
            return
        s = stmts[0]
        rest = stmts[1:]
        k = s['k']
        if k == 'Let' and s.get('init') is not None and s['pat'].get('k') == 'Bind':
            v = self.ev(s['init'], st)
            pid = s['pat']['id']
            if v[0] == 'aff' and v[1]['N'] == 1 and v[1]['d'] == 0 and v[1]['1'] == 0 and 'Mut' in s['pat']['mode'] and st.tracked is None:
                st.env[pid] = ('var',)
                st.tracked = pid
                st.cons = []
            else:
                st.env[pid] = v
            return self.run(rest, st, trace)
        if k == 'If':
            cT = self.cond_cons(s['cond'], st, True)
            cF = self.cond_cons(s['cond'], st, False)
            t = st.copy()
            t.cons += (cT or [])
            f = st.copy()
            f.cons += (cF or [])
            tag = '@%d' % hir.line(s)
            tb = hir.stmts_of(s['then'])
            eb = hir.stmts_of(s['else']) if s.get('else') else []
            self.run(tb + ([] if _ends_ret(tb) else rest), t, trace + ['then' + tag])
            self.run(eb + ([] if _ends_ret(eb) else rest), f, trace + ['else' + tag])
            return
        if k == 'Assign':
            l = hir.strip(s['l'])
            if l['k'] == 'Path' and l['res'].get('id') == st.tracked:
                v = self.ev(s['r'], st)
                st.untouched = False
                if v[0] == 'rem' and v[1][0] == 'var' and v[2][0] == 'aff' and v[2][1]['N'] == 0 and v[2][1]['d'] > 0 and v[2][1]['1'] >= 0:
                    m = v[2][1]
                    st.cons = [('Ge', Fr(0), Fr(0)), ('Lt', m['d'], m['1'])]
                else:
                    st.cons = []
            return self.run(rest, st, trace)
        if k == 'AssignOp':
            l = hir.strip(s['l'])
            if l['k'] == 'Path' and l['res'].get('id') == st.tracked:
                v = self.ev(s['r'], st)
                st.untouched = False
                if s['op'] in ('SubAssign', 'AddAssign') and v[0] == 'aff' and v[1]['N'] == 0:
                    sgn = -1 if s['op'] == 'SubAssign' else 1
                    st.cons = [(op, c + sgn * v[1]['d'], kk + sgn * v[1]['1']) for op, c, kk in st.cons]
                else:
                    st.cons = []
            return self.run(rest, st, trace)
        if k == 'Ret':
            self.results.append((trace, s.get('e'), st))
            return
        if k in ('For', 'While', 'Loop', 'Match', 'Closure'):
            # not modelled: forget everything about the tracked variable
            st.cons = []
            st.untouched = False
            return self.run(rest, st, trace)
        if not rest and k not in ('Let', 'Item'):
            # tail expression = returned value
            self.results.append((trace, s, st))
            return
        return self.run(rest, st, trace)


def _ends_ret(stmts):
    return bool(stmts) and hir.strip(stmts[-1]).get('k') == 'Ret'


def implies(cons, want):
    """Does the constraint set entail `x wop wc·d + wk` for all d >= 1?"""
    wop, wc, wk = want
    for (op, c, k) in cons:
        if wop in ('Le', 'Lt') and op in ('Le', 'Lt'):
            a, b = c - wc, k - wk
            if a <= 0:
                m = a + b
                strict_needed = (wop == 'Lt' and op == 'Le')
                if m < 0 or (m == 0 and not strict_needed):
                    return True
        if wop in ('Ge', 'Gt') and op in ('Ge', 'Gt'):
            a, b = c - wc, k - wk
            if a >= 0:
                m = a + b
                strict_needed = (wop == 'Gt' and op == 'Ge')
                if m > 0 or (m == 0 and not strict_needed):
                    return True
    return False


def show_cons(cons):
    sym = {'Lt': '<', 'Le': '<=', 'Gt': '>', 'Ge': '>='}
    return ['x %s %s*d%+d' % (sym[o], c, k) if k else 'x %s %s*d' % (sym[o], c) for o, c, k in cons]
