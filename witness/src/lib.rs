//! E4 — compile-fail witnesses (DESIGN 3.1 / 10.6).
//!
//! Each witness is a doc-test that must FAIL to compile with one specific error code, written the way
//! an external user of the `quizx` crate would write it, and is paired with a *twin* that differs only
//! in the offending line and must compile (a witness whose paths are merely wrong also "fails to
//! compile" and would pass vacuously).  Run with `cargo +nightly test --doc --offline` (the stable
//! toolchain ignores the error code).  Nothing here is executed: every test is `no_run` or
//! `compile_fail`.
//!
//! The items are named `<property>_<what>` so that the runner (`qxlib/witness.py`) can attribute a
//! result to a property.

/// C16: a `Phase` cannot be built around a non-canonical rational from outside the crate.
/// ```compile_fail,E0451
/// let r = num::Rational64::new(5, 1);
/// let p = quizx::phase::Phase { r };
/// ```
/// twin:
/// ```no_run
/// let r = num::Rational64::new(5, 1);
/// let p = quizx::phase::Phase::new(r);
/// ```
pub struct C16PhaseLiteral;

/// C16: the rational inside a `Phase` cannot be overwritten from outside the crate.
/// ```compile_fail,E0616
/// let mut p = quizx::phase::Phase::new(num::Rational64::new(1, 4));
/// p.r = num::Rational64::new(9, 4);
/// ```
/// twin:
/// ```no_run
/// let mut p = quizx::phase::Phase::new(num::Rational64::new(1, 4));
/// p = quizx::phase::Phase::new(num::Rational64::new(9, 4));
/// ```
pub struct C16PhaseFieldWrite;

/// C07: the mantissa / exponent / flags of a `Dyadic` are not reachable from outside the crate.
/// ```compile_fail,E0616
/// let d = quizx::scalar::dyadic::Dyadic::from(3i64);
/// let _v = d.val;
/// ```
/// twin:
/// ```no_run
/// let d = quizx::scalar::dyadic::Dyadic::from(3i64);
/// let _v = d.val();
/// ```
pub struct C07DyadicFields;

/// C07: the coefficient array of a `Scalar4` cannot be supplied from outside the crate.
/// ```compile_fail,E0603
/// use quizx::scalar::dyadic::Dyadic;
/// let d = Dyadic::from(1i64);
/// let s = quizx::scalar::Scalar4([d, d, d, d]);
/// ```
/// twin:
/// ```no_run
/// use quizx::scalar::dyadic::Dyadic;
/// let d = Dyadic::from(1i64);
/// let s = quizx::scalar::Scalar4::new([1, 0, 0, 0], 0);
/// ```
pub struct C07Scalar4Ctor;

/// C10: a `Parity` cannot be built around an unsorted variable list from outside the crate.
/// ```compile_fail,E0603
/// let p = quizx::params::Parity(Box::new([3u32, 1u32]), false);
/// ```
/// twin:
/// ```no_run
/// let p = quizx::params::Parity::new(vec![3u32, 1u32], false);
/// ```
pub struct C10ParityCtor;

/// C10: the factor list of an `Expr` is private.
/// ```compile_fail,E0616
/// let e = quizx::params::Expr::linear(quizx::params::Parity::single(1));
/// let _f = &e.0;
/// ```
/// twin:
/// ```no_run
/// let e = quizx::params::Expr::linear(quizx::params::Parity::single(1));
/// let _f = e.clone();
/// ```
pub struct C10ExprFields;

/// C09: the cached vertex counter of the vector back end cannot be edited from outside the crate.
/// ```compile_fail,E0616
/// use quizx::graph::GraphLike;
/// let mut g = quizx::vec_graph::Graph::new();
/// g.numv = 7;
/// ```
/// twin:
/// ```no_run
/// use quizx::graph::GraphLike;
/// let mut g = quizx::vec_graph::Graph::new();
/// let _n = g.num_vertices();
/// ```
pub struct C09VecCounters;

/// C09: the same for the hash back end (edge counter).
/// ```compile_fail,E0616
/// use quizx::graph::GraphLike;
/// let mut g = quizx::hash_graph::Graph::new();
/// g.nume = 7;
/// ```
/// twin:
/// ```no_run
/// use quizx::graph::GraphLike;
/// let mut g = quizx::hash_graph::Graph::new();
/// let _n = g.num_edges();
/// ```
pub struct C09HashCounters;

/// C09: the free list of the vector back end is private.
/// ```compile_fail,E0616
/// use quizx::graph::GraphLike;
/// let mut g = quizx::vec_graph::Graph::new();
/// g.holes.push(0);
/// ```
/// twin:
/// ```no_run
/// use quizx::graph::GraphLike;
/// let mut g = quizx::vec_graph::Graph::new();
/// g.pack(true);
/// ```
pub struct C09VecHoles;

/// C18: the rank cache of a decomposition tree cannot be written from outside the crate.
/// ```compile_fail,E0616
/// let mut t = quizx::rankwidth::decomp_tree::DecompTree::new();
/// t.ranks.insert((0, 1), 0);
/// ```
/// twin:
/// ```no_run
/// let mut t = quizx::rankwidth::decomp_tree::DecompTree::new();
/// t.clear_ranks();
/// ```
pub struct C18RankCache;

/// C05: the decomposer and both graph types can be shared between and sent to worker threads
/// (this is what lets rustc, not a test, carry the "any schedule" clause). Positive witness only.
/// ```no_run
/// fn needs<T: Send + Sync + Clone>() {}
/// needs::<quizx::decompose::Decomposer<quizx::vec_graph::Graph>>();
/// needs::<quizx::decompose::Decomposer<quizx::hash_graph::Graph>>();
/// needs::<quizx::vec_graph::Graph>();
/// ```
pub struct C05SendSync;

/// C05: a decomposer holding a non-thread-safe graph type would be rejected.
/// ```compile_fail,E0277
/// fn needs<T: Send + Sync>() {}
/// needs::<std::rc::Rc<quizx::vec_graph::Graph>>();
/// ```
/// twin: the previous item.
pub struct C05RcRejected;

/// C04: a matcher cannot be handed the right to change the graph: it takes `&impl GraphLike`, and a
/// shared reference cannot be used to add a vertex.
/// ```compile_fail,E0596
/// use quizx::graph::{GraphLike, VType};
/// fn matcher(g: &impl GraphLike) { g.add_vertex(VType::Z); }
/// ```
/// twin:
/// ```no_run
/// use quizx::graph::{GraphLike, VType};
/// fn matcher(g: &impl GraphLike) -> usize { g.num_vertices() }
/// fn rule(g: &mut impl GraphLike) { g.add_vertex(VType::Z); }
/// let g = quizx::vec_graph::Graph::new();
/// let _ = quizx::basic_rules::check_remove_id(&g, 0);
/// ```
pub struct C04MatcherShared;
